"""C04 -- custom content is admitted only on request and is always detected.

Oracle (harness/impl/c04_impl.py): generated objects of every registered
class of both spec versions; custom content injected at every nesting site
found by walking the object along the FROZEN specification tables (custom
property at every object position incl. embedded objects, extension objects,
bundle and observed-data members; unregistered extension types; non-spec hash
algorithm names in every hash dictionary; references to custom types in every
reference slot; unregistered member types).  With allow_custom=False the case
must be refused; with allow_custom=True has_custom must be true exactly when
stix2.parse(obj.serialize(), allow_custom=False) is refused.  The flag
equivalence is also run on uninjected objects and on non-custom perturbations
(references to registered types outside the slot's category, unregistered
extension-definition extensions, top-level property extensions).
Model: shared schema interpreter (coq/Model/Schema.v); theorems in coq/Props/C04.v.
"""
import copy
import json
import os

import common
from common import Broken, Violation
import stixgen
from props import schema_common as sc

MANIFEST = {
    "text": "Coq theorems over the schema-interpreter model, all fuels. Flag level (all classes, all inputs): under "
            "allow_custom=False no property cleaner returns a flagged value (strict_cleaners_never_flag -- close to "
            "definitional: each cleaner ends in `if not allow and flag then raise`), and a constructor / parse returns a "
            "flagged object only through the custom_properties loophole (never, with the parse guard). SUBSTANTIVE THEOREMS, "
            "scope: variant with vr_year_pad and vr_ref_flip_unreg (repaired reference inversion); the classes passing closed_oki "
            "-- 117 of 123 (plain __init__ forms and the 2.1 Indicator one; NOT MarkingDefinition x2, Bundle x2, ObservedData x2) "
            "-- and 87 parse entry points; 'plain' input: no member named `extensions` or `custom_properties` at any depth, no "
            "null / [] values. Hence of the nesting sites the property names, only EMBEDDED-OBJECT, LIST, HASH and REFERENCE "
            "sites (and top-level custom properties) are covered by these theorems; extensions are excluded by the input "
            "restriction, bundle members and observed-data members because their container classes are outside closed_oki "
            "(cf_val is false for those kinds) -- those three sites are covered by the flag-level theorem and the oracle only. "
            "custom_free_run_mode_independent: a run that returns an unflagged object does not depend on the allow_custom "
            "switch; flag_iff_strict_reparse_partial / _parse_partial: an allow-mode run returns flag false exactly when the "
            "strict run on the object's own encoding returns Ok; flagged_strict_reparse_refused_partial / _parse_partial give the "
            "refused side in definite form: for a flagged object the strict run on its own encoding returns the error "
            "ExtraPropertiesError or InvalidValueError (never Unmodelled, never out of fuel); strict_custom_free_partial / "
            "_parse_partial and unflagged_is_custom_free_partial: the object is custom-free in the typed sense of "
            "Spec/CustomFree.v at every embedded-object / list depth (members are class properties, hash names from the "
            "vocabulary, references to registered non-x- types, nested objects custom-free in turn). Refuted-variant witnesses "
            "and a positive instance (identity with x_foo: flagged, strict re-run ExtraPropertiesError) on the generated "
            "tables. Model tied to /repo by regenerated class tables and a correspondence run (flag + strict reparse "
            "outcome); the property itself is evaluated on the real library with custom content injected at every nesting "
            "site -- including extensions, bundle and observed-data members -- of generated objects of every class, each case "
            "with customization disallowed, allowed, and not mentioned at all (which must equal disallowed).",
    "design_ref": "DESIGN.md 6/C02,C03,C04,C01 (T C04)",
    "note": "Trusted: Coq kernel + vm_compute, tr_tables translator, frozen spec tables (which sites exist), the generator. "
            "Store-level allow_custom forwarding is covered by C14's call-site table. Theorem hypotheses not discharged for "
            "the pinned tree: vr_year_pad, vr_ref_flip_unreg, vr_positional_none (all fixed in /repo HEAD; detected per run). "
            "The oracle worker runs under a PYTHONHASHSEED other than the driver's; an exception of the oracle itself is "
            "reported per case (oracle-could-not-evaluate-the-case), never swallowed. Open known finding "
            "(known_findings.d/C04.json): a registered toplevel-property-extension given without extension_type sets the flag "
            "although the strict reparse accepts the text (fix proposed under the C01 id).",
    "technique": "Coq proof over an executable model + correspondence run + property oracle on the implementation",
}

U1 = "00000000-0000-4000-8000-0000000000c4"
REG_TOPLEVEL = "extension-definition--7c3b9e4f-5d6f-4a81-8cbd-2e3f4a5b6c7d"
REG_TOPLEVEL2 = "extension-definition--8d4caf50-6e70-4b92-9dce-3f4a5b6c7d8e"


# ------------------------------------------------------------------ walking an object along the frozen tables

def member_class(gen, ver, kind, d):
    """class id of a bundle / observed-data member from its type (frozen registries)"""
    t = d.get("type") if isinstance(d, dict) else None
    if not isinstance(t, str):
        return None
    if kind == "observable":
        return gen.reg[ver]["observables"].get(t)
    v = "2.1" if (d.get("spec_version") == "2.1" or (ver == "2.1")) else "2.0"
    return gen.reg[v]["objects"].get(t) or gen.reg[v]["observables"].get(t)


def walk(gen, cid, o, path, out):
    """Collect injection sites: (kind, path, extra) with path a list of keys/indices into the top object."""
    c = gen.classes.get(cid)
    if c is None or not isinstance(o, dict):
        return
    out.append(("object", list(path), {"cid": cid, "ver": c["ver"]}))
    for s in c["slots"]:
        n = s["name"]
        k = s["kind"]
        t = k["k"]
        if t == "extensions" and n not in o and c["family"] in ("sco", "sdo", "sro"):
            out.append(("extensions-absent", list(path), {"ver": c["ver"]}))
        if n not in o:
            continue
        v = o[n]
        p = path + [n]
        if t == "embedded":
            walk(gen, k["cls"], v, p, out)
        elif t == "listof" and isinstance(v, list):
            if v and all(isinstance(e, dict) for e in v):
                out.append(("object-list", p, {"cid": k["cls"]}))
            for i, e in enumerate(v):
                walk(gen, k["cls"], e, p + [i], out)
        elif t == "hashes" and isinstance(v, dict):
            out.append(("hashes", p, {"kind": k}))
        elif t == "ref" and isinstance(v, str):
            out.append(("ref", p, {"kind": k}))
        elif t == "list" and k["of"]["k"] == "ref" and isinstance(v, list):
            for i in range(len(v)):
                out.append(("ref", p + [i], {"kind": k["of"]}))
        elif t == "list" and k["of"]["k"] == "stixobject" and isinstance(v, list):
            out.append(("bundle-members", p, {"ver": c["ver"]}))
            for i, e in enumerate(v):
                mc = member_class(gen, c["ver"], "stixobject", e)
                if mc:
                    walk(gen, mc, e, p + [i], out)
        elif t == "observable" and isinstance(v, dict):
            out.append(("observed-members", p, {"ver": c["ver"]}))
            for key, e in v.items():
                mc = member_class(gen, c["ver"], "observable", e)
                if mc:
                    walk(gen, mc, e, p + [key], out)
        elif t == "extensions" and isinstance(v, dict):
            out.append(("extensions", p, {"ver": c["ver"]}))
            for key, e in v.items():
                ec = gen.reg[c["ver"]]["extensions"].get(key)
                if ec:
                    walk(gen, ec, e, p + [key], out)
        elif t == "marking" and isinstance(v, dict):
            mt = o.get("definition_type")
            mc = gen.reg[c["ver"]]["markings"].get(mt) if isinstance(mt, str) else None
            if mc:
                walk(gen, mc, v, p, out)


def at(o, path):
    for k in path:
        o = o[k]
    return o


def set_at(o, path, v):
    at(o, path[:-1])[path[-1]] = v


OTHER_CATEGORY = ["marking-definition", "language-content", "bundle", "relationship", "identity", "ipv4-addr", "extension-definition"]


def injections(gen, cid, o, full=False):
    """[(site text, custom?, mutated object)] -- one injected copy per site and injection kind."""
    r = gen.rng

    def maybe(p):
        """probability gate of an injection kind; with full=True (the first, fully populated object of every class)
        every kind is tried at every site, so that no kind depends on the draw"""
        x = r.random()
        return full or x < p
    sites = []
    walk(gen, cid, o, [], sites)
    out = []

    def mut(f, site, custom, extra=None):
        x = copy.deepcopy(o)
        try:
            f(x)
        except (KeyError, IndexError, TypeError):
            return
        out.append((site, custom, x) if extra is None else (site, custom, x, extra))

    for kind, path, ex in sites:
        ps = "/".join(str(p) for p in path) or "<top>"
        if kind == "object":
            name = r.choice(["x_custom_prop", "x_foo", "foo_bar", "zzz"])
            mut(lambda x: at(x, path).__setitem__(name, r.choice(["v", 1, True, ["a"], {"k": 1}])),
                "custom property %s at %s (%s)" % (name, ps, ex["cid"]), True)
            if maybe(0.35):
                # present but falsy values are still custom content; multi-underscore and keyword-like names are still names
                fname = r.choice(["x__double", "x_a_b_c", "x_", "x_type", "x_id", "type_x", "X_UPPER", "x-hyphen-name", "x_\u007f", "x_\U0001F600"])
                fval = r.choice([0, False, "", 0.0, -0.0, {}, [0], [False], [""], 7.0, 2 ** 53 + 1, 10 ** 21])
                mut(lambda x: at(x, path).__setitem__(fname, fval),
                    "custom property %r with the value %r at %s (%s)" % (fname, fval, ps, ex["cid"]), True)
            if maybe(0.3) and "/<" not in ex["cid"] and "/" in ex["cid"]:
                # a name the OTHER specification version defines for the same type is custom content here
                ver0, cls0 = ex["cid"].split("/", 1)
                other = ("2.1" if ver0 == "2.0" else "2.0") + "/" + cls0
                if other in gen.classes:
                    mine = {s0["name"] for s0 in gen.classes[ex["cid"]]["slots"]}
                    try:
                        o3 = gen.obj(other, optional_p=1.0)
                    except (IndexError, ValueError, KeyError):
                        o3 = {}
                    # (not spec_version / id: parse() decides the version of the text by these two keys, so with them the text IS an
                    #  object of the other version and nothing is custom about it)
                    cand3 = sorted(k for k in o3 if k not in mine and k not in ("spec_version", "id", "extensions"))
                    if cand3:
                        k3 = r.choice(cand3)
                        mut(lambda x: at(x, path).__setitem__(k3, o3[k3]),
                            "property %s of the other specification version at %s (%s)" % (k3, ps, ex["cid"]), True)
            if maybe(0.3):
                # given but empty: nothing custom is stored
                mut(lambda x: at(x, path).__setitem__(name, r.choice([None, []])),
                    "custom property %s given as null / empty list at %s (%s)" % (name, ps, ex["cid"]), False)
            if path or maybe(0.25):
                # inside a nested dictionary the key reaches the nested constructor as its custom_properties= argument
                # (the loophole that switches customization on by itself): always tried at nested sites
                mut(lambda x: at(x, path).__setitem__("custom_properties", {"x_via_loophole": 1}),
                    "custom_properties key at %s (%s)" % (ps, ex["cid"]), True, {"always": True} if path else None)
            if not path and "/<" not in ex["cid"]:
                # a specification-defined property handed over inside the constructor's custom_properties= argument:
                # it is cleaned and written like any other property -- nothing custom about the object
                try:
                    o2 = gen.obj(ex["cid"], optional_p=1.0)
                except (IndexError, ValueError, KeyError):
                    o2 = {}
                names = {s0["name"] for s0 in gen.classes[ex["cid"]]["slots"]}
                cand = [k for k in o2 if k in names and k not in o and k not in ("type", "id", "extensions", "granular_markings",
                                                                                   "object_marking_refs", "created_by_ref")
                        and not k.endswith("_ref") and not k.endswith("_refs")]
                if cand:
                    pick = r.sample(cand, min(2, len(cand)))
                    mut(lambda x: x.__setitem__("custom_properties", {k: o2[k] for k in pick}),
                        "specification-defined properties %s inside custom_properties= at <top> (%s)" % ("+".join(pick), ex["cid"]),
                        False, {"force_route": "construct", "requested": True})
            if path and "/<" not in ex["cid"]:
                # the nested value given as a library OBJECT built beforehand under allow_custom=True (constructor route)
                pre = {"prebuilt": [{"path": list(path), "cid": ex["cid"]}]}
                mut(lambda x: at(x, path).__setitem__(name, r.choice(["v", 1, True])),
                    "pre-built instance carrying custom property %s at %s (%s)" % (name, ps, ex["cid"]), True, pre)
                if maybe(0.3):
                    mut(lambda x: None, "pre-built instance without custom content at %s (%s)" % (ps, ex["cid"]), False, pre)
        elif kind == "hashes":
            hn = r.choice(["FOO-HASH", "x_hash", "SHA-999", "CRC32"])
            mut(lambda x: at(x, path).__setitem__(hn, "abcd"), "hash algorithm %s at %s" % (hn, ps), True)
            if maybe(0.3):
                mut(lambda x: set_at(x, path, {hn: "abcd"}), "only hash algorithm %s at %s" % (hn, ps), True)
            # an algorithm the library recognises (it checks the value) but the slot's specification list does not name
            norm = lambda n: n.replace("-", "").upper()
            have = {norm(n) for n in ex["kind"].get("names", [])}
            outside = [n for n in stixgen.HASH_VALUES if norm(n) not in have]
            if outside:
                rn = r.choice(outside)
                spelled = r.choice([rn, rn.lower()])
                mut(lambda x: at(x, path).__setitem__(spelled, stixgen.HASH_VALUES[rn]),
                    "recognised hash algorithm outside the specification list %s at %s" % (spelled, ps), True)
        elif kind == "ref":
            cur = at(o, path)
            uu = cur.split("--", 1)[1] if "--" in cur else U1
            ct = r.choice(["x-custom-type", "x-foo", "my-unregistered-type"])
            mut(lambda x: set_at(x, path, ct + "--" + uu), "reference to custom type %s at %s" % (ct, ps), True)
            # custom types REGISTERED in the worker process: still custom when named x-...
            rt = r.choice(["x-registered-object", "x-registered-observable"])
            mut(lambda x: set_at(x, path, rt + "--" + uu), "reference to registered custom type %s at %s" % (rt, ps), True)
            if maybe(0.3):
                mut(lambda x: set_at(x, path, "registered-plain-object--" + uu),
                    "reference to registered type without x- prefix at %s" % ps, False)
            ot = r.choice(OTHER_CATEGORY)
            if ot != cur.split("--", 1)[0]:
                mut(lambda x: set_at(x, path, ot + "--" + uu), "reference to registered type %s at %s" % (ot, ps), False)
        elif kind in ("extensions", "extensions-absent"):
            def add(x, key, val):
                holder = at(x, path)
                if kind == "extensions-absent":
                    holder = holder.setdefault("extensions", {})
                holder[key] = val
            en = r.choice(["x-custom-ext", "x-foo-ext", "unregistered-ext"])
            mut(lambda x: add(x, en, {"a": 1, "b": "v"}), "unregistered extension type %s at %s" % (en, ps), True)
            # a key that IS a registered name -- of another registry category (objects, observables, markings) or of the
            # other specification version -- is not a registered extension of this version: customization.  One such key per
            # other category at the first object of each class, a sampled one elsewhere; its value a valid body of that type
            mine_ext = set(gen.reg[ex["ver"]]["extensions"])
            for ver2 in sorted(gen.reg):
                for cat2 in sorted(gen.reg[ver2]):
                    names2 = sorted(n2 for n2 in gen.reg[ver2][cat2] if n2 not in mine_ext)
                    if not names2 or not maybe(0.12):
                        continue
                    key2 = r.choice(names2)
                    cid2 = gen.reg[ver2][cat2][key2]
                    try:
                        body2 = gen.obj(cid2) if r.random() < 0.7 and isinstance(cid2, str) and cid2 in gen.classes else {"a": 1}
                    except (IndexError, ValueError, KeyError):
                        body2 = {"a": 1}
                    if cat2 == "markings" or r.random() < 0.3:
                        body2 = {k0: v0 for k0, v0 in body2.items() if k0 not in ("type", "id")} or {"a": 1}
                    mut(lambda x: add(x, key2, body2),
                        "extension key %s = a name registered as %s/%s, not as an extension of %s, at %s" % (key2, ver2, cat2, ex["ver"], ps), True)
            if ex["ver"] == "2.1" and maybe(0.5):
                mut(lambda x: add(x, "extension-definition--" + U1, {"extension_type": "property-extension", "rank": 5}),
                    "unregistered extension-definition property-extension at %s" % ps, False)
            if ex["ver"] == "2.1" and maybe(0.5):
                # a property-extension does not define top-level properties: an unknown one next to it is custom
                def pe(x):
                    add(x, "extension-definition--" + U1, {"extension_type": "property-extension", "rank": 5})
                    at(x, path)["rank_top"] = 5
                mut(pe, "unknown top-level property next to an unregistered property-extension at %s" % ps, True)
            if maybe(0.3):
                mut(lambda x: add(x, "x-registered-ext", {"rank": 1}), "registered custom extension x-registered-ext at %s" % ps, False)
                mut(lambda x: add(x, "x-registered-ext", {"rank": 1, "x_more": 2}),
                    "custom property inside registered custom extension at %s" % ps, True)
            if ex["ver"] == "2.1" and maybe(0.6):
                # a toplevel-property-extension REGISTERED in the worker: its declared property is ordinary content,
                # anything beyond it -- or the property without the extension -- is custom
                def tlreg(x, extra_name=None, with_ext=True):
                    if with_ext:
                        add(x, REG_TOPLEVEL, {"extension_type": "toplevel-property-extension"})
                    at(x, path)["t_rank"] = 5
                    if extra_name:
                        at(x, path)[extra_name] = 1
                nc = {"nocorr": True}
                mut(lambda x: tlreg(x), "registered toplevel-property-extension with its declared property at %s" % ps, False, nc)
                # the registered extension given WITHOUT its extension_type (the registered class fills it in and writes it)
                def tlbare(x):
                    tlreg(x)
                    add(x, REG_TOPLEVEL, {})
                mut(tlbare, "registered toplevel-property-extension given without extension_type, with its declared property at %s" % ps,
                    False, nc)
                mut(lambda x: tlreg(x, "zzz_undeclared"),
                    "undeclared property next to a registered toplevel-property-extension at %s" % ps, True, nc)
                mut(lambda x: tlreg(x, None, False),
                    "property of a registered toplevel-property-extension without the extension at %s" % ps, True, nc)
                # custom content INSIDE the value of a property the registered extension declares
                def tlinner(x, which):
                    tlreg(x)
                    if which == "ref":
                        at(x, path)["t_extref"] = {"source_name": "s", "url": "https://example.com/x", "x_inner": 1}
                    elif which == "ref-clean":
                        at(x, path)["t_extref"] = {"source_name": "s", "url": "https://example.com/x"}
                    else:
                        at(x, path)["t_hashes"] = {"SHA-256": "aec070645fe53ee3b3763059376134f058cc337247c978add178b6ccdfb0019f",
                                                   "x_custom_hash": "abcd"}
                mut(lambda x: tlinner(x, "ref"),
                    "custom property inside the embedded object of a registered toplevel-property-extension property at %s" % ps, True, nc)
                mut(lambda x: tlinner(x, "hashes"),
                    "custom hash name inside a registered toplevel-property-extension property at %s" % ps, True, nc)
                mut(lambda x: tlinner(x, "ref-clean"),
                    "registered toplevel-property-extension property holding an ordinary embedded object at %s" % ps, False, nc)
                # two registered extensions: an object with both is built first, then one with only the first that
                # carries the second's property (custom: nothing declares it there)
                def both(x):
                    tlreg(x)
                    add(x, REG_TOPLEVEL2, {"extension_type": "toplevel-property-extension"})
                    at(x, path)["u_rank"] = 7
                def orphan(x):
                    tlreg(x)
                    at(x, path)["u_rank"] = 7
                xb = copy.deepcopy(o)
                try:
                    both(xb)
                    bef = {"nocorr": True, "always": True, "before": [{"route": "parse", "cid": cid, "data": xb}]}
                    mut(lambda x: both(x), "two registered toplevel-property-extensions with their declared properties at %s" % ps, False, nc)
                    mut(orphan, "property of a second registered toplevel-property-extension that the object does not carry at %s" % ps,
                        True, bef)
                except (KeyError, IndexError, TypeError):
                    pass
            if ex["ver"] == "2.1" and maybe(0.3) and kind == "extensions-absent":
                def tl(x):
                    add(x, "extension-definition--" + U1, {"extension_type": "toplevel-property-extension"})
                    at(x, path)["rank"] = 5
                mut(tl, "unregistered toplevel-property-extension with an extra property at %s" % ps, False)
        elif kind == "bundle-members":
            member = {"type": "x-registered-object", "id": "x-registered-object--" + U1, "name": "n",
                      "created": "2016-01-01T00:00:00.000Z", "modified": "2016-01-01T00:00:00.000Z"}
            if ex["ver"] == "2.1":
                member["spec_version"] = "2.1"
            mut(lambda x: at(x, path).append(dict(member)), "registered custom object as bundle member at %s" % ps, False)
            mut(lambda x: at(x, path).append(dict(member, x_extra=1)),
                "custom property in registered custom object as bundle member at %s" % ps, True)
            mut(lambda x: at(x, path).insert(0, dict(member, x_extra=1)),
                "custom property in registered custom object as FIRST bundle member at %s" % ps, True, {"always": True})
            mut(lambda x: at(x, path).append({"type": "x-custom-object", "id": "x-custom-object--" + U1, "foo": 1}),
                "unregistered object type as bundle member at %s" % ps, True)
            # an unregistered type that declares itself through an (unregistered) extension definition: parse() hands
            # the dictionary back even in strict mode; whatever the bundle then does, flag and strict reparse must agree
            et = r.choice(["new-sdo", "new-sco", "new-sro"])
            nm = {"type": "x-new-thing", "id": "x-new-thing--" + U1, "created": "2016-01-01T00:00:00.000Z",
                  "modified": "2016-01-01T00:00:00.000Z", "name": "n",
                  "extensions": {"extension-definition--" + U1: {"extension_type": et}}}
            if ex["ver"] == "2.1":
                nm["spec_version"] = "2.1"
            mut(lambda x: at(x, path).append(dict(nm)),
                "unregistered object type declared by an extension-definition %s as bundle member at %s" % (et, ps), False)
        elif kind == "observed-members":
            mut(lambda x: at(x, path).__setitem__("99", {"type": "x-custom-observable", "value": "v"}),
                "unregistered observable type as observed-data member at %s" % ps, True)
            # custom content in ONE of several members, first or last: the flag is accumulated over the members
            cm = {"type": "mutex", "name": "m", "foo_bar": 1}
            sib = {"always": True}
            mut(lambda x: set_at(x, path, dict([("c0", dict(cm))] + list(at(x, path).items()))),
                "custom property in the first of several observed-data members at %s" % ps, True, sib)
            mut(lambda x: set_at(x, path, dict(list(at(x, path).items()) + [("z9", dict(cm))])),
                "custom property in the last of several observed-data members at %s" % ps, True, sib)
        elif kind == "object-list":
            # custom content in one of several elements of a list of embedded objects, first or last
            sib = {"always": True}
            name = r.choice(["x_custom_prop", "foo_bar"])
            mut(lambda x: set_at(x, path, [dict(at(x, path)[0], **{name: 1})] + list(at(x, path))),
                "custom property %s in the first of several list elements at %s (%s)" % (name, ps, ex["cid"]), True, sib)
            mut(lambda x: set_at(x, path, list(at(x, path)) + [dict(at(x, path)[-1], **{name: 1})]),
                "custom property %s in the last of several list elements at %s (%s)" % (name, ps, ex["cid"]), True, sib)
            n_el = r.choice([10, 11, 64, 65])
            k_el = r.choice([1, n_el // 2, n_el - 2])
            mut(lambda x: set_at(x, path, [dict(at(x, path)[0], **({name: 1} if i == k_el else {})) for i in range(n_el)]),
                "custom property %s in element %d of %d list elements at %s (%s)" % (name, k_el, n_el, ps, ex["cid"]), True)
    return out



# ------------------------------------------------------------------ correspondence with the model

CORR_HEADER_EXTRA = (
    "From V Require Import Model.Serialize Model.SchemaReparse.\n"
    "Definition FR (r : request) : string :=\n"
    "  flag_and_strict_reparse VR sentinel_env lib (pat_ok OK20 OK21) (sel_ok MC) %d r.\n" % sc.FUEL)


def corr_term(c):
    allow = common.coq_bool(c.get("allow", True))
    if c["op"] == "parse":
        return "FR (RParse %s false None %s)" % (allow, sc.members(c["data"]))
    return "FR (RConstruct %s %s false %s None)" % (common.coq_ustr(c["cid"]), allow, sc.members(c["data"]))


def agree(m, r):
    if m == r:
        return True
    if m.startswith("ERR ") and r.startswith("ERR "):
        return sc.lines_agree(m, r)
    if " reparse=" in m and " reparse=" in r:
        a, x = m.split(" reparse=")
        b, y = r.split(" reparse=")
        return a == b and (x == y or (x.startswith("ERR ") and y.startswith("ERR ") and sc.lines_agree(x, y)))
    return False


def correspondence(run, cases, variants):
    """flag of the allow-mode (and strict) run + strict reparse outcome: model against the library"""
    ccases = []
    for c in cases:
        if not isinstance(c["data"].get("type", ""), str) or c.get("prebuilt") or c.get("nocorr") or c["route"] not in ("parse", "construct"):
            continue
        for allow in ((True, False) if c.get("custom") else (True,)):
            ccases.append({"op": "parse" if c["route"] == "parse" else "construct", "cid": c["cid"], "data": c["data"],
                           "allow": allow, "site": c.get("site")})
    ccases = [c for c in ccases if "/<" not in c["cid"] or c["op"] == "parse"]
    # the model's tables are the library's own classes; cases that rely on types registered in the oracle worker stay out
    ccases = [c for c in ccases if "registered" not in json.dumps(c["data"])]
    if "vr_marking_flag" not in variants.flags:
        # until the shared model carries the variant for MarkingProperty's ignored flag (asked of its owner)
        ccases = [c for c in ccases if not str(c.get("site")).startswith("custom_properties key at definition")]
    impl = common.run_impl("c04_corr_impl", ccases)
    pats = sc.pattern_lists(ccases)
    hdr = sc.header(variants, pats) + CORR_HEADER_EXTRA
    model = sc.sharded_eval("c04c", hdr, [corr_term(c) for c in ccases])
    dis, unm = [], 0
    for i, (c, m, r) in enumerate(zip(ccases, model, impl)):
        if "UNMODELLED" in m:
            unm += 1
            continue
        if not agree(m, r):
            dis.append(i)
    run.coverage["correspondence_cases"] = len(ccases)
    run.coverage["correspondence_unmodelled"] = unm
    run.coverage["correspondence_disagreements"] = len(dis)
    run.coverage["correspondence_flagged"] = sum(1 for r in impl if r.startswith("OK hc=true"))
    if dis:
        run.broken.append(Broken("correspondence", "Model/Schema.v run + has_custom + strict reparse vs stix2", {
            "count": len(dis), "first": [{"case": ccases[i], "model": model[i], "impl": impl[i]} for i in dis[:5]]}))
    return [ccases[i] for i in dis]


def gen_cases(run, per_class):
    gen = stixgen.Gen(run.rng)
    r = run.rng
    cases = []
    site_hist = {}
    for cid in gen.toplevel_ids():
        cl = gen.classes[cid]
        for i in range(per_class):
            try:
                o = gen.obj(cid, optional_p=r.choice([0.3, 0.55, 0.8, 1.0]) if i else 1.0)
            except (IndexError, ValueError, KeyError):
                continue
            if cl["family"] == "sco" and cl["ver"] == "2.0":
                for s in cl["slots"]:
                    k = s["kind"]
                    if k["k"] == "objref" or (k["k"] == "list" and k["of"]["k"] == "objref"):
                        o.pop(s["name"], None)
                if cl["name"] == "NetworkTraffic" and not ({"src_ref", "dst_ref"} & o.keys()):
                    continue
                if cl["name"] == "EmailMessage" and o.get("is_multipart"):
                    o["is_multipart"] = False
                    o.pop("body_multipart", None)
            if cid == "2.0/Bundle":
                o["spec_version"] = "2.0"
            if cid == "2.0/File" and not o.get("is_encrypted"):
                o.pop("encryption_algorithm", None)
                o.pop("decryption_key", None)
            if cl["family"] == "sco" and cl["ver"] == "2.1" and "id" not in o and "spec_version" not in o:
                o["spec_version"] = "2.1"
            route = "parse" if r.random() < 0.6 else "construct"
            if cl["family"] == "sco" and r.random() < 0.3:
                route = "parse_observable"          # the entry point for a single observable (version named)
            cases.append({"route": route, "cid": cid, "data": o, "custom": False, "site": "uninjected"})
            if cl["family"] in ("sdo", "sro") and "modified" in o and i < 2:
                # versioning.new_version(obj, allow_custom=..., **properties) with a custom property
                nm = r.choice(["x_new_prop", "foo_bar"])
                cases.append({"route": "new_version", "cid": cid, "data": {k0: v0 for k0, v0 in o.items() if k0 != "type"},
                              "extra_props": {nm: r.choice(["v", 1, True])}, "custom": True,
                              "site": "custom property %s added by new_version at <top> (%s)" % (nm, cid)})
            inj = injections(gen, cid, o, full=(i == 0))
            # every site once for the first objects of a class, a sample afterwards
            chosen = inj if i < 2 else (r.sample(inj, min(len(inj), 6)) + [t3 for t3 in inj if len(t3) > 3 and t3[3].get("always")])
            for tup in chosen:
                site, custom, x = tup[:3]
                extra = tup[3] if len(tup) > 3 else {}
                rt = route if r.random() < 0.8 else ("construct" if route == "parse" else "parse")
                if route == "parse_observable" and r.random() < 0.8:
                    rt = "parse_observable"
                if extra.get("prebuilt") or extra.get("force_route") == "construct":
                    rt = "construct"
                if rt == "construct" and site.startswith("custom_properties key at <top>"):
                    custom = False      # the constructor's custom_properties= argument is itself the request
                cs = dict({"route": rt, "cid": cid, "data": x, "custom": custom, "site": site},
                          **{k0: v0 for k0, v0 in extra.items() if k0 not in ("force_route", "always")})
                if r.random() < 0.06 and not cs.get("prebuilt"):
                    # ... and once more after other (custom-carrying) objects of the class were made in the same process
                    cs["twice"] = {"between": [{"route": "parse", "cid": cid, "data": y} for _, _, y in [t3[:3] for t3 in r.sample(inj, min(2, len(inj)))]]}
                if rt == "construct" and site.startswith("custom_properties key at <top>"):
                    cs["requested"] = True
                cases.append(cs)
                if rt == "construct" and isinstance(x, dict) and "custom_properties" not in x and (i == 0 or r.random() < 0.2):
                    # argument form: the constructor's custom_properties= given but EMPTY requests nothing
                    cases.append(dict({k0: v0 for k0, v0 in cs.items() if k0 != "twice"}, data=dict(copy.deepcopy(x), custom_properties={}),
                                      site=site + " + empty custom_properties= argument"))
                if cs["route"] == "construct" and "Bundle" in cid and isinstance(x.get("objects"), list) \
                        and (cs.get("prebuilt") or r.random() < 0.5):
                    cases.append(dict({k0: v0 for k0, v0 in cs.items() if k0 != "twice"}, route="construct_positional"))
                key = site.split(" at ")[0]
                for w in ("custom property in the first of several", "custom property in the last of several", "specification-defined properties", "pre-built instance carrying", "pre-built instance without", "custom property inside", "custom property given as null", "custom property in registered", "custom property", "hash algorithm",
                          "only hash algorithm", "recognised hash algorithm", "reference to custom type",
                          "reference to registered custom type", "reference to registered type", "unregistered extension type"):
                    if key.startswith(w):
                        key = w
                site_hist[key] = site_hist.get(key, 0) + 1
        # unknown top-level type
    # the witnesses of the two defect variants (Proofs/C04Witness.v), always run
    ident = {"type": "identity", "spec_version": "2.1", "id": "identity--311b2d2d-f010-4473-83ec-1edf84858f4c",
             "created": "2020-01-01T00:00:00.000Z", "modified": "2020-01-01T00:00:00.000Z", "name": "a",
             "custom_properties": {"x_foo": 1}}
    cases.append({"route": "parse", "cid": "2.1/Identity", "data": ident, "custom": True,
                  "site": "custom_properties key at <top> (2.1/Identity)"})
    for ver in ("2.0", "2.1"):
        md = {"type": "marking-definition", "id": "marking-definition--3e4e3684-9b4b-484e-83eb-5944490c07df",
              "created": "2017-06-24T13:09:27.000Z", "definition_type": "statement",
              "definition": {"statement": "s", "custom_properties": {"x_via_loophole": 1}}}
        if ver == "2.1":
            md["spec_version"] = "2.1"
        cases.append({"route": "parse", "cid": ver + "/MarkingDefinition", "data": md, "custom": True,
                      "site": "custom_properties key at definition (%s/StatementMarking)" % ver})
    cases.append({"route": "parse", "cid": "2.1/Identity", "custom": False,
                  "data": {"type": "identity", "spec_version": "2.1", "id": "identity--311b2d2d-f010-4473-83ec-1edf84858f4c",
                           "created": "2020-01-01T00:00:00.000Z", "modified": "2020-01-01T00:00:00.000Z", "name": "a", "x_foo": None},
                  "site": "custom property x_foo given as null / empty list at <top> (2.1/Identity)"})
    sight = {"type": "sighting", "spec_version": "2.1", "id": "sighting--311b2d2d-f010-4473-83ec-1edf84858f4c",
             "created": "2020-01-01T00:00:00.000Z", "modified": "2020-01-01T00:00:00.000Z",
             "sighting_of_ref": "marking-definition--613f2e26-407d-48c7-9eca-b8e91df99dc9"}
    cases.append({"route": "parse", "cid": "2.1/Sighting", "data": sight, "custom": False,
                  "site": "reference to registered type marking-definition at sighting_of_ref"})
    for ver in ("2.0", "2.1"):
        d = {"type": "x-unregistered-type", "id": "x-unregistered-type--" + U1, "created": "2016-01-01T00:00:00.000Z",
             "modified": "2016-01-01T00:00:00.000Z", "name": "n"}
        if ver == "2.1":
            d["spec_version"] = "2.1"
        cases.append({"route": "parse", "cid": ver + "/<unregistered>", "data": d, "custom": True, "site": "unregistered top-level object type"})
    # (c) an unregistered top-level type carrying `extensions` of every shape: only an extension-definition that
    #     declares a new object type lets the dictionary through a strict parse
    shapes = [
        ("type-name-keyed extension without extension_type", {"x-foo-ext": {"a": 1}}, True),
        ("type-name-keyed extension declaring new-sdo", {"some-ext": {"extension_type": "new-sdo"}}, True),
        ("type-name-keyed property-extension", {"some-ext": {"extension_type": "property-extension", "a": 1}}, True),
        ("type-name-keyed extension that is not a dictionary", {"x-foo-ext": "text"}, True),
        ("extension-definition that is not a dictionary", {"extension-definition--" + U1: "text"}, True),
        ("extension-definition property-extension only", {"extension-definition--" + U1: {"extension_type": "property-extension", "a": 1}}, True),
        ("extension-definition toplevel-property-extension only",
         {"extension-definition--" + U1: {"extension_type": "toplevel-property-extension"}}, True),
        ("empty extensions", {}, True),
        ("extension-definition declaring new-sdo", {"extension-definition--" + U1: {"extension_type": "new-sdo"}}, False),
    ]
    for ver in ("2.0", "2.1"):
        for what, ext, custom in shapes:
            d = {"type": "x-unregistered-type", "id": "x-unregistered-type--" + U1, "created": "2016-01-01T00:00:00.000Z",
                 "modified": "2016-01-01T00:00:00.000Z", "name": "n", "extensions": ext}
            if ver == "2.1":
                d["spec_version"] = "2.1"
            cases.append({"route": "parse", "cid": ver + "/<unregistered>", "data": d, "custom": custom,
                          "site": "unregistered top-level object type with " + what})
            # ... and the same object as a bundle member
            b = {"type": "bundle", "id": "bundle--" + U1, "objects": [dict(d)]}
            if ver == "2.0":
                b["spec_version"] = "2.0"
            cases.append({"route": "parse", "cid": ver + "/Bundle", "data": b, "custom": custom,
                          "site": "bundle member of an unregistered object type with " + what})
    # (e) observable types that are looked up before they are registered, against a type registered up front
    for i in range(6 if run.tier != "thorough" else 24):
        ver = r.choice(["2.0", "2.1"])
        t = "x-late-observable-%s-%04d" % (ver.replace(".", ""), r.randrange(10000))
        member = {"type": t, "value": "v%d" % i}
        if ver == "2.1":
            member["id"] = t + "--" + gen.uuid(5)
        ctl_member = dict(member, type="x-registered-observable")
        if "id" in ctl_member:
            ctl_member["id"] = "x-registered-observable--" + ctl_member["id"].split("--", 1)[1]
        late = {"type": t, "ver": ver, "probe": dict(member)}
        form = r.choice(["parse_observable", "parse", "member"] if ver == "2.0" else ["parse_observable", "parse"])
        if form == "member":
            od = lambda m: {"type": "observed-data", "id": "observed-data--" + U1, "created": "2016-01-01T00:00:00.000Z",
                            "modified": "2016-01-01T00:00:00.000Z", "first_observed": "2016-01-01T00:00:00Z",
                            "last_observed": "2016-01-01T00:00:00Z", "number_observed": 1, "objects": {"0": m}}
            cs = {"route": "parse", "cid": "2.0/ObservedData", "data": od(member), "custom": False,
                  "site": "late-registered observable type as observed-data member"}
            ctl = dict(cs, data=od(ctl_member), site="control")
        else:
            cs = {"route": form, "cid": ver + "/<late-observable>", "data": member, "custom": False,
                  "site": "late-registered observable type through " + form}
            ctl = dict(cs, data=ctl_member, site="control")
        cs["late"] = late
        cs["control"] = ctl
        cases.append(cs)
    return cases, site_hist


FINDINGS = [
    # (predicate over (case, fail) -> id)
]


def classify(case, f):
    site = case.get("site", "")
    if f["kind"] == "flag-true-but-strict-reparse-accepts" and site.startswith(
            "registered toplevel-property-extension given without extension_type, with its declared property"):
        return "C04-registered-toplevel-extension-without-extension-type-flagged-but-reparse-accepts"
    if f["kind"] == "flag-true-but-strict-reparse-accepts" and "given as null / empty list" in site:
        return "C04-null-valued-custom-property-sets-flag"
    if site.startswith("custom_properties key at definition (") and "MarkingDefinition" in case["cid"] and f["kind"] in (
            "flag-false-but-strict-reparse-refused", "custom-content-admitted-with-customization-disallowed"):
        return "C04-marking-definition-ignores-custom-flag-of-definition"
    if f["kind"] == "flag-false-but-strict-reparse-refused" and site.startswith("reference to registered type"):
        return "C04-allow-mode-admits-registered-type-outside-reference-category-unflagged"
    if f["kind"] == "custom-content-admitted-with-customization-disallowed" and site.startswith("custom_properties key at <top>"):
        return "C04-custom-properties-key-admits-custom-content-under-strict"
    return None


def check(run):
    per_class = 24 if run.tier == "thorough" else 3
    run.coverage["rule"] = (
        "for every registered object/observable class of STIX 2.0 and 2.1: %d generated objects; for the first two every "
        "injection site found by walking the object along the frozen tables (custom property at each object position, "
        "custom_properties key, hash algorithm, reference, extension, bundle / observed-data member, every nested object also "
        "given as a library object built beforehand under allow_custom=True with and without custom content, bundle members "
        "of unregistered types declared by an extension definition, specification-defined properties inside the "
        "constructor's custom_properties= argument, a toplevel-property-extension registered in the worker with declared / "
        "undeclared / orphaned properties, custom content inside the values of its declared properties, and a second "
        "registered one with an object carrying both made beforehand), six sampled sites; unregistered top-level types and bundle members with "
        "extensions of every shape; observable types registered only after they were looked up (parse_observable, parse, "
        "observed-data member) against a type registered up front; observables also through parse_observable; six sampled sites "
        "for the others; custom property names / values of bounded shapes (multi-underscore, keyword-like, non-BMP names; "
        "falsy but present values; names the other specification version defines); extension keys that are names registered "
        "in another registry category or version; a custom property in the middle of 10..65 list elements; a registered "
        "toplevel-property-extension given without extension_type; pre-built members through Bundle(*members); "
        "each case under allow_custom False, True and not given at all (must equal False) plus the strict reparse of the allow-mode "
        "serialization; non-trivial = the allow-mode or the strict run produced an object or the case carries custom content"
        % per_class)
    have_props = os.path.exists(os.path.join(common.COQ, "Props", "C04.v"))
    model_ok = sc.translate_and_build(run, "Props/C04.v" if have_props else None)
    variants = sc.detect_variants(run)
    cases, site_hist = gen_cases(run, per_class)
    results = common.run_impl("c04_impl", cases)
    regerr = [o["registration_error"] for o in results if o.get("registration_error")]
    if regerr:
        run.broken.append(Broken("oracle", "the custom types / extensions of the oracle worker could not be registered", {"error": regerr[0]}))
    stats = {"strict_refused_custom": 0, "allow_objects": 0, "allow_flagged": 0, "allow_refused": 0}
    for c, o in zip(cases, results):
        run.count(c, nontrivial=bool(c["custom"] or o.get("allow_is_obj") or o.get("strict_is_obj")))
        if c["custom"] and not o["strict_ok"]:
            stats["strict_refused_custom"] += 1
        if o.get("allow_ok") and o.get("allow_is_obj"):
            stats["allow_objects"] += 1
            stats["allow_flagged"] += 1 if o.get("hc") else 0
        if not o.get("allow_ok"):
            stats["allow_refused"] += 1
        for f in o.get("fails", []):
            run.violations.append(Violation(
                "%s: %s route, %s, %s" % (f["kind"], c["route"], c["cid"], json.dumps(f["detail"])[:400]),
                {"case": c, "kind": f["kind"]}, finding=classify(c, f)))
    run.coverage["sites"] = site_hist
    if model_ok:
        n_corr = 2500 if run.tier == "thorough" else 450
        sel = list(cases)
        run.rng.shuffle(sel)
        try:
            bad = correspondence(run, sel[:n_corr], variants)
        except RuntimeError as e:
            run.broken.append(Broken("correspondence", "model evaluation failed", {"error": str(e)[-1500:]}))
            bad = []
        if bad:
            # search: the property oracle on the disagreeing inputs and on every injection of the same objects
            again = [{"route": "parse" if c["op"] == "parse" else "construct", "cid": c["cid"], "data": c["data"],
                      "custom": False, "site": "disagreement: " + str(c.get("site"))} for c in bad[:100]]
            for c, o in zip(again, common.run_impl("c04_impl", again)):
                for f in o.get("fails", []):
                    run.violations.append(Violation(
                        "%s: %s route, %s, %s" % (f["kind"], c["route"], c["cid"], json.dumps(f["detail"])[:400]),
                        {"case": c, "kind": f["kind"]}, finding=classify(c, f)))
    run.coverage.update(stats)
    for c, o in list(zip(cases, results))[1:4]:
        run.sample({"cid": c["cid"], "site": c["site"], "strict_ok": o["strict_ok"], "allow_ok": o.get("allow_ok"), "hc": o.get("hc"),
                    "reparse_ok": o.get("reparse_ok")})
    run.coverage["trusted_base"] += [
        "harness/stixgen.py generator and the site walker of harness/props/c04.py over the frozen tables /verif/spec/stix_tables.json",
    ]
    run.assumptions += [
        "custom content = property names outside the class's specification table, type names outside the frozen registries, "
        "hash names outside the slot's specification list (open-vocabulary values and unregistered extension-definition-- "
        "extensions are not custom, as in STIX 2.1)",
        "a constructor's custom_properties= argument is a request for customisation; the same key inside parsed data is not",
    ]


def replay(payload):
    if "replay" not in payload:
        return replay_unlocated(payload)
    r = payload["replay"]
    case = r["case"]
    o = common.run_impl("c04_impl", [case], procs=1)[0]
    print("replay %s route=%s site=%s" % (case["cid"], case["route"], case.get("site")))
    print("  strict: ok=%s %s" % (o["strict_ok"], o.get("strict_err") or ""))
    print("  allow : ok=%s has_custom=%s %s" % (o.get("allow_ok"), o.get("hc"), o.get("allow_err") or ""))
    print("  strict reparse of the allow-mode serialization: ok=%s %s" % (o.get("reparse_ok"), o.get("reparse_err") or ""))
    for f in o.get("fails", []):
        print("  %s %s" % (f["kind"], json.dumps(f["detail"])[:500]))
    if o.get("fails"):
        print("VIOLATION property=C04 replay=(given)")
        return 1
    print("no violation on this input")
    return 0


def replay_unlocated(payload):
    """A replay file written when something no longer checked but no failing input was found: it names the
    obligation / correspondence; the inputs of the stored disagreements are run through the property oracle."""
    bad = 0
    for b in payload.get("no_longer_checks", []):
        print("no longer checks: %s %s" % (b.get("kind"), b.get("name")))
        for ent in (b.get("detail") or {}).get("first", []) or []:
            c = ent.get("case") or {}
            if "data" not in c:
                continue
            case = {"route": "parse" if c.get("op", c.get("route")) == "parse" else "construct", "cid": c["cid"], "data": c["data"],
                    "custom": False, "site": "stored disagreement: " + str(c.get("site"))}
            o = common.run_impl("c04_impl", [case], procs=1)[0]
            print("  %s %s: model %s / implementation %s; oracle failures: %s" % (
                case["cid"], case["site"], ent.get("model"), ent.get("impl"), [f["kind"] for f in o.get("fails", [])]))
            bad += len(o.get("fails", []))
    if bad:
        print("VIOLATION property=C04 replay=(given)")
        return 1
    print("no failing input among the stored disagreements (the file records what stopped checking)")
    return 0

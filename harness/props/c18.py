"""C18 -- a composite source answers as the de-duplicated union of its members;
relationship navigation equals a scan of the stored relationship objects.

Model coq/Model/Store.v (sources, CompositeDataSource, DataSource navigation,
Environment wiring), theorems coq/Props/C18.v, correspondence of the model with
MemorySource / MemoryStore / FileSystemSource / FileSystemStore /
CompositeDataSource (nested too) / Environment over generated partitions of a
population and navigation reads; oracle = a list model evaluated here on the
population (independent of the Coq model).  Shares object specs, printers and
the implementation worker with C11 (harness/props/c11.py)."""
import os
import sys

import common
from common import Broken, Violation

sys.path.insert(0, os.path.dirname(os.path.abspath(__file__)))
import c11 as base  # noqa: E402

MANIFEST = {
    "text": "Theorems on the Gallina model of CompositeDataSource / DataSource navigation / Environment (spec notions in "
            "Spec/StoreNavSpec.v): lookup = newest over the members' answers for every member order (Permutation), and "
            "over the union of the histories for memory-store members; all_versions and query = each distinct "
            "(id, version) of the union once (deduplicate_spec); attached filters bound everything a composite returns, "
            "for any members incl. nested composites (soundness; completeness for memory members: "
            "cquery_memory_members); relationships of a source = exact scan, through a composite = de-duplicated scan of "
            "the union (crelationships_is_union_scan); related_to = permutation of the scan's neighbours passing the "
            "extra filters; creator_memory = newest version of created_by_ref. Composite related_to: per-member variant "
            "refuted against the union by a witness, federated variant (the code since 7d18324) proved = scan of the "
            "union under the hypothesis that copies of one (id, version) in several members are the same object. "
            "Definitional in the model (kept as labels, tied to the code by correspondence and translator only): "
            "environment_is_composite, creator_is_lookup, related_composite. Props/C18Src.v restates the theorems for "
            "the instance denoted by the source text (translators/tr_stores.py, fail closed) and refutes the recognised "
            "alternatives with a definite semantics (running maximum updated always, first hit, filters not merged, "
            "dedupe by id, `<`/`<=`); `>=` is not refuted (still a newest version). ObjectFactory.create: defaults / "
            "explicit arguments / list append laws on Model/Factory.v.",
    "design_ref": "DESIGN.md 6/C18; design_notes/C11-C18.md",
    "note": "Trusted: Coq kernel + vm_compute (coqchk in the thorough tier); the hand-written models coq/Model/Store.v and "
            "Model/Factory.v, tied to stix2/datastore/__init__.py, utils.deduplicate, environment.py by (a) the per-run "
            "correspondence (partitions of a population over members of all kinds, nested composites, Environment; then "
            "sequences of add_filter/remove_filter, later additions and reads of members on the same objects), (b) the "
            "source-text translator, (c) behaviour probes that must agree with the text. Correspondence-only: whether "
            "filters attached to a composite bind navigation through it (the code ignores them; the property does not "
            "say); the iteration order of the Python set in related_to (results compared as multisets); the ObjectFactory "
            "documented-behaviour oracle runs only to find an input when its correspondence breaks. Assumed: member "
            "stores as in C11 (same domain: for the code as it is, registered-class objects); per-object filter "
            "evaluation abstract in Props/C18.v (concrete in the OPTIONAL bridge Props/C18BridgeC12.v importing property "
            "C12's files; reported as a note, not claimed, if it does not build). TAXII sources are not covered. No axioms.",
    "technique": "Coq proof over a hand-written executable model + source-text translator + per-run correspondence with the implementation",
}

FINDING_REL = "C18-composite-related-to-per-member"

# relationship types, some contained in others as text (a substring / prefix / suffix match instead of equality
# must show): analysis-of / static-analysis-of, uses / reuses, related-to / unrelated-to
REL_TYPES = ["related-to", "unrelated-to", "uses", "reuses", "analysis-of", "static-analysis-of", "targets"]


# --------------------------------------------------------------------------
# Coq terms

def members(x):
    t = x["t"]
    if t in ("mem", "fs"):
        return []
    return x["ms"] if t == "comp" else [x[k] for k in ("store", "source") if x.get(k)]


def sub(x, path):
    for i in path:
        x = members(x)[i]
    return x


def node_paths(x, prefix=()):
    out = [list(prefix)]
    for i, m in enumerate(members(x)):
        out += node_paths(m, prefix + (i,))
    return out


def steps_of(case):
    return case.get("steps", case.get("reads", []))


READ_OPS = ("get", "all", "query", "rels", "related", "creator")


def read_steps(case):
    return [r for r in steps_of(case) if r["op"] in READ_OPS]


def apply_step(state, r):
    """attach / detach a filter, or add later content: on the description of the sources"""
    node = sub(state, r.get("at", []))
    if r["op"] == "addf":
        if r["f"] not in node.setdefault("af", []):
            node["af"].append(r["f"])
    elif r["op"] == "rmf":
        if r["f"] in node.get("af", []):
            node["af"].remove(r["f"])
    elif r["op"] == "detach":
        node.setdefault("_det", []).append(node["ms"].pop(r["i"]))
    elif r["op"] == "reattach":
        node["ms"].append(node["_det"].pop(r.get("j", -1)))
    elif r["op"] == "add":
        if node["t"] == "fs" or node.get("wrap") == "store":
            node["adds"].append(r["x"])
            node.setdefault("_extra", []).append(r["x"])


def coq_src(x, table):
    t = x["t"]
    af = base.coq_filters(x.get("af", []))
    if t in ("mem", "fs"):
        if "_name" in x:
            adds = x["_name"]
            if x.get("_extra"):
                adds = "(%s ++ %s)" % (adds, common.coq_list([base.coq_segs(a, table) for a in x["_extra"]]))
        else:
            adds = common.coq_list([base.coq_segs(a, table) for a in x["adds"]])
        return "(%s %s %s)" % ("XMem" if t == "mem" else "XFs", af, adds)
    if t == "comp":
        return "(XComp %s %s)" % (af, common.coq_list([coq_src(m, table) for m in x["ms"]]))
    if t == "env":
        ms = [x[k] for k in ("store", "source") if x.get(k)]
        return "(XComp %s %s)" % (af, common.coq_list([coq_src(m, table) for m in ms]))
    raise ValueError(t)


def coq_rt(rt):
    return "None" if rt is None else "(Some %s)" % common.coq_ustr(rt)


def coq_read(r, table):
    op = r["op"]
    if op == "get":
        return "NGet %s" % base.coq_id(r["id"])
    if op == "all":
        return "NAll %s" % base.coq_id(r["id"])
    if op == "query":
        return "NQuery %s" % base.coq_filters(r["q"])
    if op == "rels":
        return "NRels %s %s %s %s" % (base.coq_id(r["a"]), coq_rt(r.get("rt")), common.coq_bool(r["so"]), common.coq_bool(r["to"]))
    if op == "related":
        return "NRelated %s %s %s %s %s" % (base.coq_id(r["a"]), coq_rt(r.get("rt")), common.coq_bool(r["so"]),
                                            common.coq_bool(r["to"]), base.coq_filters(r.get("fl", [])))
    if op == "creator":
        return "NCreator %s" % base.coq_obj(r["o"], table)
    raise ValueError(op)


def c18_term(case):
    """one Gallina string: the reads in order, each evaluated on the source (or member) as it is at that point of
    the sequence; the leaves' initial contents are shared through let-bindings"""
    import copy
    table = {}
    state = copy.deepcopy(case["src"])
    defs = []
    for n, leaf in enumerate(leaves(state)):
        leaf["_name"] = "L%d" % n
        leaf["_extra"] = []
        defs.append("let L%d := %s in" % (n, common.coq_list([base.coq_segs(a, table) for a in leaf["adds"]])))
    segs = []
    cur = {"path": None, "reads": []}

    def flush():
        if cur["reads"]:
            segs.append("run_src MODE TBL RM %s %s" % (coq_src(sub(state, cur["path"]), table), common.coq_list(cur["reads"])))
        cur["reads"] = []

    for r in steps_of(case):
        if r["op"] in READ_OPS:
            path = r.get("at", [])
            if cur["path"] != path:
                flush()
                cur["path"] = path
            cur["reads"].append(coq_read(r, table))
        else:
            flush()
            apply_step(state, r)
    flush()
    return "let TBL := %s in %s cat %s" % (base.coq_table(table), " ".join(defs), common.coq_list(segs))


def leaves(x):
    t = x["t"]
    if t in ("mem", "fs"):
        return [x]
    if t == "comp":
        return [l for m in x["ms"] for l in leaves(m)]
    if t == "env":
        return [l for k in ("store", "source") if x.get(k) for l in leaves(x[k])]
    raise ValueError(t)


def specs_of_leaf(leaf):
    return [it for a in leaf["adds"] for _, its in base.flatten(a) for it in its if isinstance(it, dict)]


RTYPES_OF = {}


def gen_population(rng):
    """objects of a small graph: identities / campaigns / custom with several versions, relationships
    between them (self loops, dangling ends, several types and versions), unversioned objects"""
    sv = rng.choice(["21", "21", "20", "mixed"])

    def cls_of(kind):
        v = sv if sv != "mixed" else rng.choice(["20", "21"])
        return kind + v

    # instants distinct also after the 2.0 classes' truncation to milliseconds, so that every
    # (id, version) of the population has one content (copies in several members differ in x_pay at most)
    palette = list({(base.BASE_US + off) // 1000: base.BASE_US + off
                    for off in rng.sample(base.OFFSETS, rng.randint(2, 4))}.values())
    nodes = []
    for _ in range(rng.randint(2, 5)):
        kind = rng.choice(["identity", "identity", "campaign", "xreg"])
        typ = {"identity": "identity", "campaign": "campaign", "xreg": "x-reg"}[kind]
        nodes.append((kind, rng.choice(base.POOL[typ][:4]), typ))
    nodes = list({n[1]: n for n in nodes}.values())
    idents = [n[1] for n in nodes if n[0] == "identity"]
    pay = [0]
    pop = []

    def add(cls, oid, us, props=None, typ=None):
        pay[0] += 1
        pop.append(base.make_spec(rng, cls, oid, us, pay[0], style=rng.choice(base.STYLES), typ=typ, props=props))

    for kind, oid, typ in nodes:
        cls = cls_of(kind)
        props = None
        if kind != "identity" and idents and rng.random() < 0.6:
            props = {"created_by_ref": rng.choice(idents + [base.POOL["identity"][5]])}
        for us in rng.sample(palette, rng.randint(1, min(3, len(palette)))):
            add(cls, oid, us, props)
    ends = [n[1] for n in nodes] + [base.POOL["identity"][5]]
    # the types used in this population: usually a pair of which one contains the other
    rtypes = rng.choice([["related-to", "unrelated-to"], ["uses", "reuses"], ["analysis-of", "static-analysis-of"],
                         ["related-to", "uses", "targets"], REL_TYPES])
    for rid in rng.sample(base.POOL["relationship"][:5], rng.randint(1, 5)):
        cls = cls_of("rel")
        s, t = rng.choice(ends), rng.choice(ends)
        if rng.random() < 0.15:
            t = s
        rt = rng.choice(rtypes)
        for us in rng.sample(palette, rng.randint(1, min(2, len(palette)))):
            # a later version may point elsewhere
            if rng.random() < 0.2:
                t = rng.choice(ends)
            add(cls, rid, us, {"source_ref": s, "target_ref": t, "relationship_type": rt})
    if rng.random() < 0.4:
        add("marking21" if sv != "20" else "marking20", rng.choice(base.POOL["marking-definition"][:2]), None)
    if rng.random() < 0.3 and sv != "20":
        add("sco21", rng.choice(base.POOL["domain-name"][:2]), None)
    if rng.random() < 0.2:
        add("unreg", rng.choice(base.POOL["x-unreg"][:2]), rng.choice(palette))
    RTYPES_OF[id(pop)] = rtypes
    return pop, nodes


def gen_leaf(rng, objs, kind=None):
    kind = kind or rng.choice(["mem", "mem", "fs"])
    objs = [dict(o) for o in objs]
    rng.shuffle(objs)
    if kind == "fs":
        # no (id, version) twice in one directory: the sink refuses it (property C11)
        seen, keep = set(), []
        for o in objs:
            k = (o["id"], base.rec_of(o)["inst"])
            if k not in seen:
                seen.add(k)
                keep.append(o)
        objs = keep
    adds = []
    i = 0
    while i < len(objs):
        n = rng.choice([1, 1, 2, 3])
        chunk = objs[i:i + n]
        i += n
        adds.append(base.gen_tree(rng, kind, chunk, False))
    leaf = {"t": kind, "adds": adds}
    if rng.random() < 0.4:
        leaf["wrap"] = "store"
    if kind == "fs" and rng.random() < 0.2:
        leaf["bundlify"] = True
    return leaf


def rand_filter(rng, pop, nodes):
    r = rng.random()
    if r < 0.4:
        f = {"k": "type", "v": rng.choice(["identity", "campaign", "relationship", "x-reg"])}
    elif r < 0.6:
        f = {"k": "pay", "v": rng.randint(1, max(1, len(pop)))}
    elif r < 0.8 and nodes:
        f = {"k": "id", "v": rng.choice(nodes)[1]}
    else:
        f = {"k": "prop", "p": "relationship_type", "v": rng.choice(REL_TYPES)}
    # every operator of FILTER_OPS that applies to the property
    return base.vary_op(rng, f, ["identity", "campaign", "relationship", "x-reg", "marking-definition"],
                        [n[1] for n in nodes] or [base.POOL["identity"][5]], max(1, len(pop)))


def later_spec(rng, pop, leaf):
    """a new version of a node, or a new relationship version, that the leaf does not hold yet"""
    held = {(o["id"], base.rec_of(o)["inst"]) for o in specs_of_leaf(leaf)}
    cands = [o for o in pop if o.get("mod") and o["cls"] != "unreg"]
    rng.shuffle(cands)
    for o in cands:
        us = base.rec_of(o)["inst"] + rng.choice([1000, 2000, 60 * 10 ** 6, -5000, 86400 * 10 ** 6])
        c = dict(o)
        c.pop("moddt", None)
        c["mod"] = base.storeutil.ts_text(us, "ms")
        c["pay"] = 900 + rng.randint(0, 90)
        if (c["id"], base.rec_of(c)["inst"]) not in held:
            return c
    return None


def gen_sequence(rng, src, pop, nodes, ids):
    """a second phase on the SAME source objects: filters attached / detached at any level, later additions to
    the stores under the leaves, and reads of the top source and of members in between"""
    import copy
    steps = []
    state = copy.deepcopy(src)
    paths = node_paths(src)
    attached = []

    def reads_at(path):
        out = []
        for i in rng.sample(ids, min(len(ids), 2)):
            out.append({"op": "get", "id": i, "at": path})
            out.append({"op": "all", "id": i, "at": path})
        out.append({"op": "query", "q": [], "at": path})
        if rng.random() < 0.5:
            out.append({"op": "query", "q": [rand_filter(rng, pop, nodes)], "at": path})
        return out

    for _ in range(rng.randint(2, 5)):
        paths = node_paths(state)
        r = rng.random()
        comps = [p for p in paths if sub(state, p)["t"] == "comp"]
        if r < 0.25 and comps:
            # a member is removed from a composite and (usually) attached again -- to the same composite, at the end
            path = rng.choice(comps)
            node = sub(state, path)
            if node.get("_det") and (not node["ms"] or rng.random() < 0.6):
                st = {"op": "reattach", "at": path, "j": rng.randrange(len(node["_det"])), "bulk": rng.random() < 0.3}
            elif node["ms"]:
                st = {"op": "detach", "at": path, "i": rng.randrange(len(node["ms"])), "bulk": rng.random() < 0.3}
            else:
                st = None
            if st:
                attached.clear()                 # member positions change: earlier paths are void
                steps.append(st)
                apply_step(state, st)
                if st["op"] == "detach" and rng.random() < 0.7:
                    paths = node_paths(state)
                    if has_members(state):
                        steps += reads_at([])
                    st2 = {"op": "reattach", "at": path, "j": -1, "bulk": rng.random() < 0.3}
                    steps.append(st2)
                    apply_step(state, st2)
                paths = node_paths(state)
        elif r < 0.45:
            path = rng.choice(paths)
            f = rand_filter(rng, pop, nodes)
            st = {"op": "addf", "at": path, "f": f}
            if f not in sub(state, path).get("af", []):
                attached.append((path, f))
            steps.append(st)
            apply_step(state, st)
        elif r < 0.55 and attached:
            path, f = attached.pop(rng.randrange(len(attached)))
            st = {"op": "rmf", "at": path, "f": f}
            steps.append(st)
            apply_step(state, st)
        elif r < 0.85:
            lp = [p for p in paths if sub(state, p)["t"] == "fs" or sub(state, p).get("wrap") == "store"]
            if lp:
                path = rng.choice(lp)
                o = later_spec(rng, pop, sub(state, path))
                if o is not None:
                    st = {"op": "add", "at": path, "x": {"t": "dict", "o": o}}
                    steps.append(st)
                    apply_step(state, st)
                    steps += [{"op": "get", "id": o["id"], "at": path}, {"op": "all", "id": o["id"], "at": path},
                              {"op": "get", "id": o["id"]}, {"op": "all", "id": o["id"]}]
        # reads: the top source, then a member directly (what was handed down must not stick to it)
        steps += reads_at([])
        inner = [p for p in paths if p]
        if inner:
            steps += reads_at(rng.choice(inner))
    return steps


def members_of(x):
    if x["t"] == "comp":
        return x["ms"]
    if x["t"] == "env":
        return [x[k] for k in ("store", "source") if x.get(k)]
    return []


def gen_case(rng, shape=None):
    pop, nodes = gen_population(rng)
    rtypes = RTYPES_OF.pop(id(pop), REL_TYPES)
    shape = shape or rng.choice(["single", "comp", "comp", "comp", "nested", "env", "env"])
    nmem = 1 if shape == "single" else rng.randint(1, 4)
    # partition with overlapping copies: every object goes to 1..2 members; a copy may carry other content
    parts = [[] for _ in range(nmem)]
    pay = len(pop)
    for o in pop:
        for k in rng.sample(range(nmem), min(nmem, rng.choice([1, 1, 1, 2]))):
            c = dict(o)
            if rng.random() < 0.1:
                pay += 1
                c["pay"] = pay
            parts[k].append(c)
    members = [gen_leaf(rng, p) for p in parts]
    for m in members:
        if rng.random() < 0.12:
            m["af"] = [rand_filter(rng, pop, nodes)]
    if shape == "single":
        src = members[0]
    elif shape in ("comp", "nested"):
        if shape == "nested" and len(members) >= 2:
            k = rng.randint(1, len(members) - 1)
            inner = {"t": "comp", "ms": members[k:]}
            if rng.random() < 0.3:
                inner["af"] = [rand_filter(rng, pop, nodes)]
            ms = members[:k] + [inner]
        else:
            ms = members
        src = {"t": "comp", "ms": ms}
    else:
        store = members[0]
        store["wrap"] = "store"
        src = {"t": "env", "store": store}
        if len(members) >= 2:
            rest = members[1:]
            src["source"] = rest[0] if len(rest) == 1 and rng.random() < 0.5 else {"t": "comp", "ms": rest}
        r = rng.random()
        if r < 0.1:
            src = {"t": "env", "source": members[0]} if rng.random() < 0.7 else {"t": "env"}
        elif r < 0.25:
            # an Environment over a composite only (no store), optionally with a sink of its own
            src = {"t": "env", "source": {"t": "comp", "ms": members}}
            if rng.random() < 0.5:
                src["sink"] = True
    # construction order: a composite may be created (and handed to its parent composite / Environment) while it
    # is still empty or half-filled, its members being attached afterwards
    def mark_late(x):
        if x["t"] == "comp" and x["ms"] and rng.random() < 0.4:
            x["late"] = rng.choice([0, 0, rng.randint(0, len(x["ms"]))])
            x["late_bulk"] = rng.random() < 0.5
        for m in members_of(x):
            mark_late(m)
    mark_late(src)
    if src["t"] in ("comp", "env") and rng.random() < 0.3:
        if rng.random() < 0.5:
            # a filter that tells versions of one id apart (content), so that members' newest versions fare differently
            p = rng.choice(pop)["pay"]
            src["af"] = [rng.choice([{"k": "pay", "op": "!=", "v": p}, {"k": "pay", "op": "<", "v": p},
                                     {"k": "pay", "op": ">", "v": p}, {"k": "pay", "op": "in", "v": sorted({p, rng.choice(pop)["pay"]})}])]
        else:
            src["af"] = [rand_filter(rng, pop, nodes)]
    if rng.random() < 0.03 and src["t"] == "comp":
        src["ms"] = []
    # reads
    ids = sorted({o["id"] for o in pop}) + [base.POOL["identity"][5]]
    node_ids = [n[1] for n in nodes] + [base.POOL["identity"][5]]
    reads = []
    for i in ids:
        reads.append({"op": "get", "id": i})
        reads.append({"op": "all", "id": i})
    reads.append({"op": "query", "q": []})
    for _ in range(3):
        reads.append({"op": "query", "q": [rand_filter(rng, pop, nodes) for _ in range(rng.choice([1, 1, 2]))]})
    for a in node_ids:
        form = rng.choice(["id", "id", "dict", "obj"])
        ao = None
        if form == "obj":
            cands = [o for o in pop if o["id"] == a and o["cls"] != "unreg"]
            if cands:
                ao = dict(rng.choice(cands))
                ao.pop("moddt", None)
            else:
                form = "id"
        rt = rng.choice([None, None, "", rng.choice(rtypes), rng.choice(rtypes)])
        so, to = rng.choice([(False, False), (False, False), (True, False), (False, True), (True, True)])
        r = {"op": "rels", "a": a, "rt": rt, "so": so, "to": to, "argform": form}
        if ao:
            r["ao"] = ao
        reads.append(r)
        r2 = dict(r, op="related")
        if rng.random() < 0.5:
            r2["fl"] = [rand_filter(rng, pop, nodes) for _ in range(rng.choice([1, 1, 2]))]
        reads.append(r2)
        if (so, to) != (False, False) and rng.random() < 0.5:
            reads.append(dict(r2, so=False, to=False))
    for o in pop:
        if (o.get("props") or {}).get("created_by_ref") and rng.random() < 0.5:
            c = dict(o)
            c.pop("moddt", None)
            reads.append({"op": "creator", "o": c, "oform": rng.choice(["dict", "obj"]) if o["cls"] != "unreg" else "dict"})
    for o in pop[:1]:
        if not (o.get("props") or {}).get("created_by_ref"):
            c = dict(o)
            c.pop("moddt", None)
            reads.append({"op": "creator", "o": c, "oform": "dict"})
    if rng.random() < 0.5 and has_members(src):
        reads += gen_sequence(rng, src, pop, nodes, ids)
    case = {"kind": "c18", "src": src, "steps": reads, "shape": shape}
    if rng.random() < 0.15:
        case["tz"] = rng.choice(["JST-9", "EST5EDT", "NST3:30NDT"])      # the worker process in another POSIX zone
    return case


def witness_case():
    """a and rel(a->b) in one member, b in another, both attached to a composite"""
    a, b = base.POOL["identity"][0], base.POOL["identity"][1]
    rid = base.POOL["relationship"][0]
    t = "2020-01-01T00:00:00.000Z"
    oa = {"cls": "identity21", "typ": "identity", "id": a, "pay": 1, "cre": "2015-01-01T00:00:00.000Z", "mod": t}
    ob = dict(oa, id=b, pay=2)
    rel = {"cls": "rel21", "typ": "relationship", "id": rid, "pay": 3, "cre": "2015-01-01T00:00:00.000Z", "mod": t,
           "props": {"source_ref": a, "target_ref": b, "relationship_type": "related-to"}}
    m1 = {"t": "mem", "adds": [{"t": "list", "xs": [{"t": "dict", "o": oa}, {"t": "dict", "o": rel}]}]}
    m2 = {"t": "mem", "adds": [{"t": "dict", "o": ob}]}
    return {"kind": "c18", "shape": "witness", "src": {"t": "comp", "ms": [m1, m2]},
            "reads": [{"op": "related", "a": a, "rt": None, "so": False, "to": False, "argform": "id"},
                      {"op": "rels", "a": a, "rt": None, "so": False, "to": False, "argform": "id"},
                      {"op": "get", "id": b}]}


def permuted(rng, case):
    """the same composite with its members attached in another order (the lookups of the first phase only)"""
    first = []
    for r in steps_of(case):
        if r["op"] not in READ_OPS:
            break
        if r["op"] in ("get", "all", "query") and not r.get("at"):
            first.append(r)
    c = {"kind": "c18", "shape": case["shape"] + "/perm", "src": dict(case["src"]), "steps": first}
    ms = list(c["src"]["ms"])
    rng.shuffle(ms)
    c["src"]["ms"] = ms
    return c


# --------------------------------------------------------------------------
# oracle: the list reading of the property

def pop_of(x, inherited):
    """records visible through source x given the filters handed down to it"""
    t = x["t"]
    af = x.get("af", [])
    if t in ("mem", "fs"):
        return [r for r in (base.rec_of(o) for o in specs_of_leaf(x)) if all(base.holds(f, r) for f in af + inherited)]
    ms = x["ms"] if t == "comp" else [x[k] for k in ("store", "source") if x.get(k)]
    return [r for m in ms for r in pop_of(m, inherited + af)]


def has_members(x):
    t = x["t"]
    if t in ("mem", "fs"):
        return True
    ms = x["ms"] if t == "comp" else [x[k] for k in ("store", "source") if x.get(k)]
    return bool(ms) and all(has_members(m) for m in ms)


def any_filters(x):
    if x.get("af"):
        return True
    t = x["t"]
    if t in ("mem", "fs"):
        return False
    ms = x["ms"] if t == "comp" else [x[k] for k in ("store", "source") if x.get(k)]
    return any(any_filters(m) for m in ms)


def leaf_views(x, inherited):
    """for every leaf store under x: (all its records, the filters that reach it: its own + every ancestor's)"""
    af = x.get("af", [])
    if x["t"] in ("mem", "fs"):
        return [([base.rec_of(o) for o in specs_of_leaf(x)], af + inherited)]
    return [v for m in members(x) for v in leaf_views(m, inherited + af)]


def filtered_get_bound(src, oid):
    """Under attached filters the property fixes this much: if the newest version some member holds of the id
    passes every filter that reaches that member, the lookup must answer, with a version at least that new.
    (What a lookup means when a member's newest version is rejected but an older one passes is not stated.)"""
    best = None
    for recs, fl in leaf_views(src, []):
        mine = [r for r in recs if r["id"] == oid and r["inst"] is not None]
        if not mine:
            continue
        top = max(r["inst"] for r in mine)
        if all(all(base.holds(f, r) for f in fl) for r in mine if r["inst"] == top):
            best = top if best is None else max(best, top)
    return best


def key(r):
    return (r["id"], r["inst"])


def is_rel(r, a, rt, so, to):
    if r["typ"] != "relationship":
        return False
    if rt and r["props"].get("relationship_type") != rt:
        return False
    hit = False
    if not to and r["props"].get("source_ref") == a:
        hit = True
    if not so and r["props"].get("target_ref") == a:
        hit = True
    return hit


def related_expect(P, a, rt, so, to, fl):
    rels = [r for r in P if is_rel(r, a, rt, so, to)]
    ids = set()
    for r in rels:
        ids.update((r["props"].get("source_ref"), r["props"].get("target_ref")))
    ids.discard(a)
    return [r for r in P if r["id"] in ids and all(base.holds(f, r) for f in fl)]


def related_per_member(x, a, rt, so, to, fl):
    """what per-member navigation yields (each leaf within its own population)"""
    t = x["t"]
    if t in ("mem", "fs"):
        return related_expect(pop_of(x, []), a, rt, so, to, fl)
    ms = x["ms"] if t == "comp" else [x[k] for k in ("store", "source") if x.get(k)]
    return [r for m in ms for r in related_per_member(m, a, rt, so, to, fl)]


def got_keys(got):
    out = []
    for i, v, p in got:
        out.append(((i, None if v == "N" else (int(v[1:]) if v.startswith("I") else v)), p))
    return out


def oracle_case(case, impl):
    import copy
    if isinstance(impl, dict):
        return []
    out = []
    state = copy.deepcopy(case["src"])
    results = list(impl)
    for r in steps_of(case):
        if r["op"] in READ_OPS:
            got = results.pop(0) if results else None
            node = sub(state, r.get("at", []))
            if got is not None and has_members(node):
                out += judge_read(case, node, r, got)
        else:
            apply_step(state, r)
    return out


def judge_read(case, src, r, got):
    """one read on the source `src` (the top source or a member, as it is at this point of the sequence)"""
    out = []
    P = pop_of(src, [])
    filtered = any_filters(src)
    composite = src["t"] in ("comp", "env")

    def viol(what, finding=None):
        where = "member %s of the source: " % r["at"] if r.get("at") else ""
        out.append(Violation(where + what, {"kind": "c18-case", "case": case}, finding=finding))

    def check_set(what, got, expect, finding_if=None):
        """got: impl list; expect: records; as sets of (id, version), each at most once"""
        if isinstance(got, str):
            viol("%s raised %s" % (what, got[1:]))
            return
        exp = {}
        for r in expect:
            exp.setdefault(key(r), set()).add(r["pay"])
        seen = set()
        for k, p in got_keys(got):
            if k in seen and composite:
                viol("%s returns version %s of %s more than once" % (what, k[1], k[0]))
                return
            seen.add(k)
            if k not in exp:
                viol("%s returns (%s, %s) which a scan of the union does not give" % (what, k[0], k[1]))
                return
            if p not in exp[k]:
                viol("%s returns (%s, %s) with content %s never added for it" % (what, k[0], k[1], p))
                return
        missing = [k for k in exp if k not in seen]
        if missing:
            viol("%s misses %s" % (what, missing[0]), finding_if(seen) if finding_if else None)

    for r, got in [(r, got)]:
        op = r["op"]
        if op == "get":
            recs = [x for x in P if x["id"] == r["id"]]
            if isinstance(got, str):
                viol("get(%s) raised %s" % (r["id"], got[1:]))
                continue
            if any(x["text"] for x in recs) and len({x["inst"] for x in recs}) > 1:
                continue     # text-ordered versions: property C11's finding, not judged here
            if not recs:
                if got and not filtered:
                    viol("get(%s) returns an object no member holds" % r["id"])
                continue
            if filtered:
                # under attached filters: what is returned passes them and was added ...
                if got and key_of_got(got[0]) not in {key(x) for x in recs}:
                    viol("get(%s) returns a version that does not pass the attached filters" % r["id"])
                    continue
                # ... and a member whose newest version passes the filters is not ignored
                bound = filtered_get_bound(src, r["id"])
                if bound is not None:
                    if not got:
                        viol("get(%s) returns nothing although a member's newest version (%s) passes the attached filters"
                             % (r["id"], bound))
                    elif key_of_got(got[0])[1] is None or key_of_got(got[0])[1] < bound:
                        viol("get(%s) returns version %s although a member's newest version %s passes the attached filters"
                             % (r["id"], key_of_got(got[0])[1], bound))
                continue
            if not got:
                viol("get(%s) returns nothing although a member holds it" % r["id"])
                continue
            best = max((x["inst"] for x in recs if x["inst"] is not None), default=None)
            k = key_of_got(got[0])
            if k[1] != best:
                viol("get(%s) returns version %s, the newest held by any member is %s" % (r["id"], k[1], best))
        elif op == "all":
            check_set("all_versions(%s)" % r["id"], got, [x for x in P if x["id"] == r["id"]])
        elif op == "query":
            check_set("query(%s)" % r["q"], got, [x for x in P if all(base.holds(f, x) for f in r["q"])])
        elif op in ("rels", "related"):
            if r["so"] and r["to"]:
                if got != "!ValueError":
                    viol("%s with source_only and target_only returned instead of raising ValueError" % op)
                continue
            if filtered:
                continue     # whether attached filters bound navigation is not stated; compared with the model only
            rt = r.get("rt")
            if op == "rels":
                check_set("relationships(%s)" % r["a"], got, [x for x in P if is_rel(x, r["a"], rt, r["so"], r["to"])])
            else:
                exp = related_expect(P, r["a"], rt, r["so"], r["to"], r.get("fl", []))
                per = {key(x) for x in related_per_member(src, r["a"], rt, r["so"], r["to"], r.get("fl", []))}

                def fin(seen, per=per):
                    return FINDING_REL if composite and seen == per else None
                check_set("related_to(%s)" % r["a"], got, exp, fin)
        elif op == "creator":
            cid = (r["o"].get("props") or {}).get("created_by_ref")
            if isinstance(got, str):
                viol("creator_of raised %s" % got[1:])
                continue
            recs = [x for x in P if x["id"] == cid] if cid else []
            if not recs:
                if got and not filtered:
                    viol("creator_of returns an object no member holds")
                continue
            if filtered:
                continue
            if not got:
                viol("creator_of returns nothing although %s is held" % cid)
                continue
            best = max((x["inst"] for x in recs if x["inst"] is not None), default=None)
            k = key_of_got(got[0])
            if k[0] != cid or k[1] != best:
                viol("creator_of returns (%s, %s); created_by_ref is %s, newest %s" % (k[0], k[1], cid, best))
    return out


def key_of_got(g):
    i, v, p = g
    return (i, None if v == "N" else (int(v[1:]) if v.startswith("I") else v))


def order_oracle(case, impl, pcase, pimpl):
    """lookup by id does not depend on the order of attachment"""
    out = []
    if isinstance(impl, dict) or isinstance(pimpl, dict):
        return out
    a = {}
    results = list(impl)
    for r in steps_of(case):                 # the first phase only: before anything is attached or added
        if r["op"] not in READ_OPS:
            break
        g = results.pop(0)
        if not r.get("at"):
            a.setdefault((r["op"], r.get("id"), str(r.get("q"))), g)
    for r, g in zip(read_steps(pcase), pimpl):
        g0 = a.get((r["op"], r.get("id"), str(r.get("q"))))
        if isinstance(g, str) or isinstance(g0, str) or g0 is None:
            continue
        if r["op"] == "get":
            if [key_of_got(x) for x in g] != [key_of_got(x) for x in g0]:
                specs = [s for l in leaves(case["src"]) for s in specs_of_leaf(l) if s["id"] == r["id"]]
                if any(s["cls"] == "unreg" for s in specs):
                    continue
                out.append(Violation("get(%s) depends on the order of the members: %s vs %s" % (r["id"], g0, g),
                                     {"kind": "c18-order", "case": case, "permuted": pcase}))
        else:
            if sorted(key_of_got(x) for x in g) != sorted(key_of_got(x) for x in g0):
                out.append(Violation("%s depends on the order of the members" % r["op"],
                                     {"kind": "c18-order", "case": case, "permuted": pcase}))
    return out


def nontrivial(case, impl):
    if isinstance(impl, dict):
        return False
    multi = len(leaves(case["src"])) >= 2
    nav = any(isinstance(g, list) and g for r, g in zip(read_steps(case), impl) if r["op"] in ("rels", "related", "creator"))
    return (multi or case["shape"] == "single") and nav


def add_flags(case):
    return [False] * len(read_steps(case))


# --------------------------------------------------------------------------
# ObjectFactory stream (Model/Factory.v): defaults, explicit arguments, list properties

MARKS = [base.mk_id("marking-definition", k) for k in range(1, 5)]
CREATORS = [base.POOL["identity"][k] for k in range(3)]
EXTS = ["d1", "d2", "k1", "k2"]


def _times():
    return [base.storeutil.ts_text(base.BASE_US + off, "ms") for off in (0, 1000, 86400 * 10 ** 6, -1000)]


FACT_HEADER = ("From Coq Require Import NArith ZArith List String Bool.\n"
               "From V Require Import Base.UString Model.Store Model.Factory.\n"
               "Import ListNotations. Open Scope string_scope.\n")


def coq_fval(v):
    if v is None:
        return "FNone"
    if isinstance(v, list):
        return "(FMany %s)" % common.coq_list([common.coq_ustr(x) for x in v])
    return "(FOne %s)" % common.coq_ustr(v)


def coq_fdict(d):
    return common.coq_list(["(%s, %s)" % (common.coq_ustr(k), coq_fval(v)) for k, v in d.items()])


def factory_term(c):
    i = c["init"]
    return "run_factory ESO %s %s %s %s %s %s %s" % (
        coq_fval(i.get("created_by_ref")), coq_fval(i.get("created")), coq_fval(i.get("external_references")),
        coq_fval(i.get("object_marking_refs")), common.coq_bool(c["list_append"]),
        common.coq_list(["(%s, %s)" % (common.coq_nat(n), coq_fval(v)) for n, v in c["setters"]]),
        common.coq_list([coq_fdict(kw) for kw in c["calls"]]))


def gen_fval(rng, key, allow_none=True):
    r = rng.random()
    if key == "created_by_ref":
        return None if allow_none and r < 0.2 else rng.choice(CREATORS)
    if key == "created":
        return None if allow_none and r < 0.2 else rng.choice(_times())
    pool = EXTS if key == "external_references" else MARKS
    if allow_none and r < 0.15:
        return None
    if r < (0.25 if key == "external_references" else 0.45):
        return rng.choice(pool)
    if r < 0.5:
        return []
    return rng.sample(pool, rng.randint(1, 3))


def gen_factory_case(rng):
    keys = ["created_by_ref", "created", "external_references", "object_marking_refs"]
    init = {}
    for k in keys:
        if rng.random() < 0.5:
            v = gen_fval(rng, k)
            # a single external reference as the only default is refused by the class for another reason
            init[k] = v
    setters = []
    for _ in range(rng.choice([0, 0, 1, 2])):
        n = rng.randrange(4)
        setters.append([n, gen_fval(rng, keys[n], allow_none=rng.random() < 0.3)])
    cls = rng.choice(["xreg21", "xreg21", "xreg20", "campaign21"])
    calls = []
    for _ in range(rng.randint(1, 4)):
        kw = {}
        if cls == "campaign21":
            kw["name"] = "n"
        for k in keys + ["modified"]:
            if rng.random() < 0.35:
                kw[k] = gen_fval(rng, "created" if k == "modified" else k)
        calls.append(kw)
    return {"kind": "factory", "cls": cls, "init": init, "list_append": rng.random() < 0.7, "setters": setters,
            "calls": calls, "via": rng.choice(["factory", "env"])}


def factory_model_rows(line):
    rows = []
    for part in line.split("|"):
        if part:
            toks = part.split("\\,")
            if toks and toks[-1] == "":
                toks.pop()
            rows.append(toks)
    return rows


def factory_compare(line, impl):
    """-> description of the first difference or None.  A class that refuses the arguments (exception) is
    matched with a refused property in the model; the reasons a class refuses for (a dictionary where a list of
    external references is expected, a timestamp order rule) are outside this model and skipped."""
    if isinstance(impl, dict):
        return "worker: %s" % impl
    rows = factory_model_rows(line)
    if len(rows) != len(impl):
        return "length %d vs %d" % (len(rows), len(impl))
    for k, (m, i) in enumerate(zip(rows, impl)):
        if isinstance(i, str):
            if "!" not in m:
                return "call %d: the class refused (%s), the model builds %s" % (k, i[1:], m)
            continue
        if "!" in m:
            return "call %d: model says the class refuses, implementation built %s" % (k, i)
        mi = []
        for tok in m:
            if tok == "-":
                mi.append("-")
            elif tok.startswith("="):
                mi.append("=" + common.ustr_unescape(tok[1:]))
            else:
                mi.append([common.ustr_unescape(x) for x in tok[1:-1].split(";") if x])
        i = list(i)
        for j in (1, 2):                  # created / modified not given: the class fills in the current time
            if mi[j] == "-":
                i[j] = "-"
        if mi != i:
            return "call %d: model %s, implementation %s" % (k, mi, i)
    return None


def factory_documented(c, impl):
    """documented behaviour of ObjectFactory.create, on the implementation's observations (search only)"""
    out = []
    if isinstance(impl, dict):
        return out
    keys = ["created_by_ref", "created", "modified", "external_references", "object_marking_refs"]
    d = {}
    src = {"created_by_ref": "created_by_ref", "created": "created", "external_references": "external_references",
           "object_marking_refs": "object_marking_refs"}
    for k, v in c["init"].items():
        if v:
            d[src[k]] = v
            if k == "created":
                d["modified"] = v
    for n, v in c["setters"]:
        k = ["created_by_ref", "created", "external_references", "object_marking_refs"][n]
        d[k] = v
        if k == "created":
            d["modified"] = v
    for kw, got in zip(c["calls"], impl):
        if isinstance(got, str):
            continue
        for j, k in enumerate(keys):
            is_list = k in ("external_references", "object_marking_refs")
            as_l = lambda v: v if isinstance(v, list) else [v]  # noqa: E731
            if k in kw:
                v = kw[k]
                if is_list and c["list_append"] and k in d and v is not None and d[k] is not None:
                    want = as_l(d[k]) + as_l(v)
                else:
                    want = v
            else:
                want = d.get(k)
            exp = "-" if want is None or want == [] else (as_l(want) if is_list else "=" + want)
            if exp == "-" and k in ("created", "modified"):
                continue
            if got[j] != exp:
                out.append(Violation("ObjectFactory.create: %s is %s, documented defaults/arguments give %s" % (k, got[j], exp),
                                     {"kind": "c18-factory", "case": c}))
                break
    return out


def probe_cases_c18():
    i = base.POOL["identity"][0]
    def v(t, pay):
        return {"cls": "identity21", "typ": "identity", "id": i, "pay": pay, "cre": "2015-01-01T00:00:00.000Z",
                "mod": "2020-01-01T00:00:0%d.000Z" % t}
    def mem(*os_):
        return {"t": "mem", "adds": [{"t": "dict", "o": o} for o in os_]}
    get = [{"op": "get", "id": i}]
    return [
        {"kind": "c18", "shape": "probe", "src": {"t": "comp", "ms": [mem(v(3, 1)), mem(v(1, 2)), mem(v(2, 3))]}, "reads": get},
        {"kind": "c18", "shape": "probe", "src": {"t": "comp", "ms": [mem(v(1, 1)), mem(v(2, 2))]}, "reads": get},
        {"kind": "c18", "shape": "probe", "src": {"t": "comp", "ms": [mem(v(1, 1), v(2, 2))]}, "reads": [{"op": "all", "id": i}]},
        {"kind": "c18", "shape": "probe", "src": {"t": "comp", "af": [{"k": "pay", "v": 2}],
                                                  "ms": [{"t": "comp", "ms": [mem(v(1, 1), v(2, 2))]}]},
         "reads": [{"op": "get", "id": i}, {"op": "all", "id": i}, {"op": "query", "q": []}]},
    ]


def read_probes_c18(impl, rm):
    def pays(tok):
        return sorted(x[2] for x in tok) if isinstance(tok, list) else None
    out = {"related": rm}
    try:
        a, b = pays(impl[0][0]), pays(impl[1][0])
        if b == [2] and a == [1]:
            out["run_max"], out["members"], out["cget_cmp"] = "UpdateOnTake", "AllMembers", "CmpGt"
        elif b == [2] and a == [3]:
            out["run_max"] = "UpdateAlways"
        elif b == [1]:
            out["members"] = None      # first hit or `<`: told apart by the text
        out["dedupe_key"] = {2: "KeyIdVer", 1: "KeyId"}.get(len(impl[2][0]))
        out["merge_get"] = "Merged" if pays(impl[3][0]) in ([2], []) else "OwnOnly"
        out["merge_all"] = "Merged" if pays(impl[3][1]) == [2] else "OwnOnly"
        out["merge_query"] = "Merged" if pays(impl[3][2]) == [2] else "OwnOnly"
    except (IndexError, TypeError, KeyError):
        pass
    return out


# --------------------------------------------------------------------------

def detect_rm(impl_w):
    try:
        return "Federated" if impl_w[0] and not isinstance(impl_w[0], str) else "PerMember"
    except Exception:  # noqa: BLE001
        return "PerMember"


def check(run):
    quick = run.tier == "quick"
    n_cases = 160 if quick else 3000
    run.coverage["rule"] = (
        "populations of 2-5 versioned nodes (identities, campaigns, a registered custom type; 1-3 versions each from a "
        "boundary palette, STIX 2.0 / 2.1 / mixed), 1-5 relationships with 1-2 versions (self loops, dangling ends, "
        "three relationship types, ends changing between versions), unversioned objects, created_by_ref; partitioned "
        "with overlapping copies (some with other content) over 1-4 members (MemorySource, MemoryStore, "
        "FileSystemSource, FileSystemStore, bundlify) attached to a CompositeDataSource, a nested composite or an "
        "Environment(store, source) / Environment(source=composite[, sink]), composites optionally constructed (and handed to "
        "their parent) before some or all of their members are attached, with attached filters (all operators) at any level; every case also with the "
        "members attached in another order; half of the cases continue on the SAME source objects with a sequence of "
        "add_filter / remove_filter at any level, remove_data_source(s) followed by attaching the member again, later additions to the stores under the leaves, and reads of the top "
        "source and of members directly in between; reads: get / all_versions per id, queries, relationships and related_to per node with all "
        "option combinations (type, source_only, target_only, both, extra filters; id / dict / object argument), "
        "creator_of; non-trivial = some navigation read returns an object")
    with common.Lock():
        res = common.build_props("Props/C18.v", extra_targets=["Model/StoreCases.vo"])
        run.add_build(res, "make -C coq Props/C18.vo (coqc 8.16.1, full .vo) + Print Assumptions per theorem"
                           + ("" if quick else " + coqchk -o V.Props.C18"))
        if not quick and res["ok"]:
            base.run_coqchk(run, "V.Props.C18")
        facts = base.source_step(run, "Props/C18Src.v")
        base.optional_bridge(run, "Props/C18BridgeC12.v", "property C12: Model/Filters.v, Proofs/FiltersBasics.v, FiltersOpt.v")
    probe = common.run_impl("c11_impl", [{"kind": "probe"}], procs=1)[0]
    base.NAIVE_KEPT[0] = bool(probe.get("naive_kept", True))
    cases = [witness_case(), base.witness_case("mem")]
    pairs = []
    for k in range(n_cases):
        c = gen_case(run.rng)
        cases.append(c)
        if c["src"]["t"] == "comp" and len(c["src"]["ms"]) >= 2:
            pc = permuted(run.rng, c)
            pairs.append((len(cases) - 1, len(cases)))
            cases.append(pc)
    impl = common.run_impl("c18_impl", cases)
    rm = detect_rm(impl[0])
    mode = base.detect_mode(impl[1])
    base.compare_text_and_probe(run, facts, read_probes_c18(common.run_impl("c18_impl", probe_cases_c18(), procs=1), rm))
    run.coverage["variant_selected"] = {"related_to": rm, "text_order": mode}
    c18_cases = [0] + list(range(2, len(cases)))
    hist = {}
    for k in c18_cases:
        run.count(cases[k], nontrivial=nontrivial(cases[k], impl[k]))
        hist[cases[k]["shape"]] = hist.get(cases[k]["shape"], 0) + 1
    run.coverage["distribution"] = hist
    run.sample({"case": cases[0], "impl": impl[0]})
    broke = False
    try:
        terms = [c18_term(cases[k]) for k in c18_cases]
        lines = base.eval_cases("c18", base.header(mode, rm), terms, shard=12)
        dis = []
        for k, m in zip(c18_cases, lines):
            d = base.compare_line(m, impl[k], add_flags(cases[k]))
            if d:
                dis.append({"case": cases[k], "first_difference": d[0], "impl": impl[k], "model": m})
        run.coverage["correspondence_cases"] = len(c18_cases)
        run.coverage["correspondence_disagreements"] = len(dis)
        if dis:
            broke = True
            run.broken.append(Broken("correspondence", "Model/Store.v vs CompositeDataSource / DataSource navigation / Environment",
                                     {"first": dis[:3], "count": len(dis)}))
    except RuntimeError as e:
        broke = True
        run.broken.append(Broken("correspondence", "model evaluation failed", {"error": str(e)[-1500:]}))
    # ObjectFactory stream: model vs implementation
    fcases = [gen_factory_case(run.rng) for _ in range(100 if quick else 3000)]
    fprobe = {"kind": "factory", "cls": "xreg21", "init": {"external_references": "p"}, "list_append": True,
              "setters": [], "calls": [{}], "via": "factory"}
    eso = not isinstance(common.run_impl("c18_impl", [fprobe], procs=1)[0][0], str)
    run.coverage["variant_selected"]["single_external_reference_accepted"] = eso
    fimpl = common.run_impl("c18_impl", fcases)
    fbroke = False
    try:
        flines = base.eval_cases("c18f", FACT_HEADER + "Definition ESO := %s.\n" % common.coq_bool(eso),
                                 [factory_term(c) for c in fcases], shard=50)
        fdis = []
        for c, i, m in zip(fcases, fimpl, flines):
            d = factory_compare(m, i)
            if d:
                fdis.append({"case": c, "difference": d, "impl": i, "model": m})
        run.coverage["factory_cases"] = len(fcases)
        run.coverage["factory_disagreements"] = len(fdis)
        for c, i in zip(fcases, fimpl):
            run.count(c, nontrivial=isinstance(i, list) and any(isinstance(r, list) for r in i))
        if fdis:
            fbroke = True
            run.broken.append(Broken("correspondence", "Model/Factory.v vs ObjectFactory / Environment.create",
                                     {"first": fdis[:3], "count": len(fdis)}))
    except RuntimeError as e:
        fbroke = True
        run.broken.append(Broken("correspondence", "factory model evaluation failed", {"error": str(e)[-1500:]}))
    if fbroke:
        for c, i in zip(fcases, fimpl):
            run.violations += base.safe_oracle(factory_documented, "c18-factory", c, i)
    for k in c18_cases:
        run.violations += base.safe_oracle(oracle_case, "c18-case", cases[k], impl[k])
    for a, b in pairs:
        run.violations += base.safe_oracle(order_oracle, "c18-case", cases[a], impl[a], cases[b], impl[b])
    if rm == "PerMember" and not [v for v in run.violations if v.finding == FINDING_REL]:
        # the witness itself
        run.violations += [v for v in oracle_case(cases[0], impl[0])]
    if (broke or run.broken) and not [v for v in run.violations if v.finding is None]:
        extra = []
        for k in range(1500):
            c = gen_case(run.rng)
            extra.append(c)
        eimpl = common.run_impl("c18_impl", extra)
        for c, i in zip(extra, eimpl):
            run.violations += base.safe_oracle(oracle_case, "c18-case", c, i)
        run.coverage["search_cases"] = len(extra)
    run.coverage["trusted_base"] += [
        "coq/Model/Store.v is hand-written; its tie to stix2/datastore/__init__.py, utils.deduplicate and "
        "stix2/environment.py is the per-run correspondence above",
        "member stores as in property C11 (same model, same worker)",
    ]
    run.assumptions += [
        "per-object filter evaluation is an abstract boolean function in the theorems (property C12)",
        "the order in which a Python set yields the neighbour ids in related_to is not modelled: results are compared "
        "as multisets",
        "navigation through a composite ignores the filters attached to that composite (the code does; the property "
        "text does not say): not judged by the oracle, compared with the model only",
    ]


def replay(payload):
    r = payload["replay"]
    case = r["case"]
    if r.get("kind") == "c18-factory":
        impl = common.run_impl("c18_impl", [case], procs=1)[0]
        print("replay C18 ObjectFactory: init %s, setters %s, list_append %s" % (case["init"], case["setters"], case["list_append"]))
        for kw, g in zip(case["calls"], impl if isinstance(impl, list) else []):
            print("  create(%s) -> %s" % (kw, g))
        vs = factory_documented(case, impl)
        if vs:
            print("  " + vs[0].what)
            print("VIOLATION property=C18 replay=(given)")
            return 1
        print("no violation on this input")
        return 0
    probe = common.run_impl("c11_impl", [{"kind": "probe"}], procs=1)[0]
    base.NAIVE_KEPT[0] = bool(probe.get("naive_kept", True))
    impl = common.run_impl("c18_impl", [case], procs=1)[0]
    print("replay C18 %s, %d steps" % (case["shape"], len(steps_of(case))))
    for rd in steps_of(case):
        if rd["op"] not in READ_OPS:
            print("  %s" % {k: v for k, v in rd.items() if k != "x"})
    for rd, g in zip(read_steps(case), impl if isinstance(impl, list) else []):
        print("  %s -> %s" % ({k: v for k, v in rd.items() if k not in ("o", "ao")}, g))
    vs = oracle_case(case, impl)
    if r.get("kind") == "c18-order":
        pimpl = common.run_impl("c18_impl", [r["permuted"]], procs=1)[0]
        vs += order_oracle(case, impl, r["permuted"], pimpl)
    want = payload.get("finding_class")
    vs = [v for v in vs if v.finding == want]
    if vs:
        print("  " + vs[0].what)
        print("VIOLATION property=C18 replay=(given)")
        return 1
    print("no violation on this input")
    return 0

"""C14 -- a requested spec version is honoured everywhere and never alters strictness.

Model tie: translators/tr_callsites.py regenerates coq/Gen/CallSites.v (every
call site that hands allow_custom / interoperability / version on, with
positional arguments resolved against the callee's CURRENT signature) from the
ast of /repo on every run; the theorems of coq/Props/C14.v are kernel
evaluations over that table.  Correspondence: the triple the table says each
entry point hands to the parser is confirmed behaviourally (entry point vs a
direct parse with exactly that triple, on dictionaries the versions /
strictness levels treat differently); detect_spec_version, the class choice
and the identifier check are compared with their Gallina models on generated
inputs.  Oracle: the property itself on the implementation (entry point with
version=v  ==  direct parse with version=v and the entry point's own switches;
library output handed back without a version keeps its class).
"""
import json
import os
import uuid

import common
from common import Broken, Violation
import stixgen
import tr_callsites

MANIFEST = {
    "text": "PROVED (Coq, closed, Props/C14.v 22 theorems) over the call-site table REGENERATED from the ast of /repo on every "
            "run (tr_callsites; finite table = the quantifier, vm_compute lifted by forallb_forall + a closed-set invariant, so "
            "call chains of any length incl. recursion): every entry point with a version parameter -- parse, dict_to_stix2, "
            "parse_observable, Environment/workbench.parse, workbench.save, MemoryStore/Source/Sink construction, add, "
            "load_from_file, FileSystemSource/Store get/all_versions/query, FileSystemSink/Store add, the TAXII source/sink/store "
            "-- hands exactly its own version argument to every activation of the parser it reaches; interoperability and "
            "allow_custom never derive from it (symbolically and on concrete arguments); the enumerated entry points are in the "
            "table and each reaches the parser; the one-site TAXII repair is the identity now (taxii_single_deviation).  For all "
            "jvalue: detect_spec_version returns V on every shape of the hand-written relation `emitted V` (2.0 SCO/object/"
            "bundle, 2.1 object/SCO/bundle of emitted members at any nesting; for 2.0 objects only when the type is NOT "
            "registered as a 2.1 observable; the member-less 2.1 bundle only in the repaired detect) for any registry "
            "(detect_own_output); the excluded collision is a refuted witness "
            "(custom_20_object_named_like_21_observable_refuted), built-in types never collide (builtin_registries_separate); "
            "strict id acceptance under 2.0 implies any version; with the canonical-text check strict "
            "acceptance implies relaxed acceptance for every text; canonical text of every 128-bit value is read back exactly "
            "(strict_accepts_canonical).  Refuted witnesses on frozen excerpts of the pinned tables (positional store call "
            "sites, TAXII all_versions).  Props/C14Schema.v: Model/Schema.v detect_version agrees with Model/VersionDetect.v "
            "wherever it yields a version (schema_detect_agrees).",
    "design_ref": "DESIGN.md 6/C14; design_notes/C14.md",
    "note": "Coverage predicate of the run-time part: an evaluation is non-trivial when direct parses of the same dictionary do "
            "not all agree across the 12 (allow_custom, interoperability, version) triples.  CORRESPONDENCE-ONLY: the triple the "
            "table predicts is confirmed by driving every entry point (memory, filesystem incl. bundle files and the legacy flat "
            "layout, workbench and TAXII in workers of their own; TAXII against a stand-in taxii2client package, taxii2client "
            "is not installed) against a direct parse with that triple; the hand models of detect_spec_version, the class "
            "choice and _check_uuid/_validate_id (incl. CPython uuid.UUID()/int(..,16) text acceptance) are compared with the "
            "code on generated inputs, variants (two detect repairs, canonical-text id check, regex end, TAXII sink dict "
            "branch) detected at run time.  ORACLE-ONLY: same outcome as a direct parse with the entry's own switches; result "
            "class registered for the named version; library output keeps its class without a version; history independence "
            "(answer does not depend on an earlier question about the same id or on flags used before; confirmed in a fresh "
            "interpreter); mixed-version stores read back without a version; position independence of the identifier rule (own id vs "
            "reference); same answers under TZ=JST-9; every public argument form of the parser functions (dict, text, bytes, "
            "file-like, object, positional).  `emitted` is NOT connected by a theorem to the serialiser model of the schema "
            "family: 'content the library produced' rests on that relation plus the own-output oracle (real serialisations of "
            "every class of both versions, through every route).  'Honoured / same strictness' in the theorems means argument "
            "forwarding in the static table.  The TAXII "
            "sink's Bundle wrapping is outside the table (known finding C14-taxii-sink-bundle-wrap-reinterprets).  ASSUMED: "
            "control flow inside a def is over-approximated (every call site taken); what the classes do with the switches "
            "after obj_class(allow_custom=.., interoperability=.., **data) is C02-C04's subject; text outside printable ASCII "
            "is outside the id model.  Props/C14Schema.v DEPENDS ON r-schema's files (Model/SchemaTypes.v, PyBase.v, Schema.v; "
            "the model-vs-model stream also on Gen/Tables.v): when one of them does not build the theorem is not claimed "
            "(note in the evidence; obligations then count Props/C14.v only).",
    "technique": "Coq proof over a call-site table translated from source on every run + behavioural correspondence through "
                 "every entry point + property oracle with replay",
}

HEADER = """From Coq Require Import NArith ZArith List String.
From V Require Import Base.UString Base.Json Model.CallTable Model.Dispatch Model.VersionDetect Model.IdCheck Gen.CallSites.
Import ListNotations. Open Scope string_scope.
Definition Tg : table := mkTable signatures callsites attr_assigns forwarders components class_bases aliases workbench_env.
"""

FINDING_POSITIONAL = "C14-store-call-sites-positional-version"
FINDING_EMPTY_BUNDLE = "C14-empty-21-bundle-not-detected"
FINDING_TAXII_ALL_VERSIONS = "C14-taxii-all-versions-first-parse-unversioned"
FINDING_TAXII_SINK_DICT = "C14-taxii-sink-add-dict-ignores-version"
FINDING_COLLISION = "C14-custom-20-object-named-like-21-observable"
FINDING_TAXII_SINK_WRAP = "C14-taxii-sink-bundle-wrap-reinterprets"

ZERO = "00000000-0000-0000-0000-000000000000"
V1 = "c9bd2a4e-2b1c-1d3e-8f00-0123456789ab"

WITNESS = {"type": "identity", "id": "identity--" + ZERO, "name": "x", "created": "2020-01-01T00:00:00.000Z",
           "modified": "2020-01-01T00:00:00.000Z", "spec_version": "2.1", "identity_class": "individual"}

PARSE_ENTRIES = ["parsing.parse", "parsing.dict_to_stix2", "environment.Environment.parse"]
OBS_ENTRIES = ["parsing.parse_observable"]
MEM_ENTRIES = ["memory.MemoryStore.__init__", "memory.MemorySource.__init__", "memory.MemorySink.__init__",
               "memory.MemoryStore.add", "memory.MemorySink.add",
               "memory.MemoryStore.load_from_file", "memory.MemorySource.load_from_file"]
FS_SRC_ENTRIES = ["filesystem.FileSystemSource.get", "filesystem.FileSystemSource.all_versions", "filesystem.FileSystemSource.query",
                  "filesystem.FileSystemStore.get", "filesystem.FileSystemStore.all_versions", "filesystem.FileSystemStore.query"]
FS_SINK_ENTRIES = ["filesystem.FileSystemSink.add", "filesystem.FileSystemStore.add"]
WB_ENTRIES = ["workbench.parse", "workbench.save"]      # driven in a worker of their own (the import patches the registry)
# driven in a worker of their own, against a stand-in taxii2client package (a Collection object that serves / records)
TAXII_SRC_ENTRIES = ["taxii.TAXIICollectionSource.get", "taxii.TAXIICollectionSource.all_versions", "taxii.TAXIICollectionSource.query",
                     "taxii.TAXIICollectionStore.get", "taxii.TAXIICollectionStore.all_versions", "taxii.TAXIICollectionStore.query"]
TAXII_SINK_ENTRIES = ["taxii.TAXIICollectionSink.add", "taxii.TAXIICollectionStore.add"]
TAXII_ENTRIES = TAXII_SRC_ENTRIES + TAXII_SINK_ENTRIES
DRIVEN = PARSE_ENTRIES + OBS_ENTRIES + MEM_ENTRIES + FS_SRC_ENTRIES + FS_SINK_ENTRIES + WB_ENTRIES + TAXII_ENTRIES
# entries of the table that are not driven: internal helpers (covered by the theorem, reached through the
# public ones), TAXII (needs a server), the workbench (importing it patches every class)
OWN_ALLOW_ARG = set(PARSE_ENTRIES + OBS_ENTRIES + MEM_ENTRIES[:3])


# ---------------------------------------------------------------------------
# rendering shared with the Coq side

def show_ustr(s):
    out = []
    for ch in s:
        c = ord(ch)
        if 32 <= c <= 126 and ch not in '\\"':
            out.append(ch)
        else:
            out.append("\\%06X" % c)
    return "".join(out)


def show_jvalue(x):
    if x is None:
        return "null"
    if x is True:
        return "true"
    if x is False:
        return "false"
    if isinstance(x, int):
        return "i%d" % x
    if isinstance(x, float):
        return "f" + show_ustr(repr(x))
    if isinstance(x, str):
        return "'" + show_ustr(x) + "'"
    if isinstance(x, list):
        return "[" + "".join(show_jvalue(e) + "," for e in x) + "]"
    if isinstance(x, dict):
        return "{" + "".join(show_ustr(k) + ":" + show_jvalue(v) + "," for k, v in x.items()) + "}"
    raise TypeError(type(x))


def coq_pyarg(v):
    if v is None:
        return "PNone"
    if v is True or v is False:
        return "(PBool %s)" % common.coq_bool(v)
    return "(PStr %s)" % common.coq_str(v)


def cargs_of(cfg):
    out = []
    if "version" in cfg:
        out.append('("arg:version", %s)' % coq_pyarg(cfg["version"]))
    if "allow_custom" in cfg:
        out.append('("arg:allow_custom", %s)' % coq_pyarg(cfg["allow_custom"]))
        out.append('("ctor:allow_custom", %s)' % coq_pyarg(cfg["allow_custom"]))
    if "interoperability" in cfg:
        out.append('("arg:interoperability", %s)' % coq_pyarg(cfg["interoperability"]))
    return common.coq_list(out)


def parse_pyarg(t):
    if t == "None":
        return ("v", None)
    if t == "True":
        return ("v", True)
    if t == "False":
        return ("v", False)
    if t.startswith("'") and t.endswith("'"):
        return ("v", t[1:-1])
    return ("?", t)


def parse_effective(line):
    """'fn|ac|io|v ;; ...' -> list of (fn, ac, io, v) with ('v', value) / ('?', text) components"""
    out = []
    if line in ("NO-SUCH-ENTRY", ""):
        return None if line == "NO-SUCH-ENTRY" else []
    for part in line.split(" ;; "):
        fn, ac, io_, v = part.split("|")
        out.append((fn, parse_pyarg(ac), parse_pyarg(io_), parse_pyarg(v)))
    return out


# ---------------------------------------------------------------------------
# probes

ODD_VERSIONS = ["2.2", "v21", "2.1 ", "1.0"]


def cfg_grid(entry, tier):
    versions = [{}, {"version": "2.0"}, {"version": "2.1"}]
    allows = [{}, {"allow_custom": True}, {"allow_custom": False}]
    out = []
    for v in versions:
        for a in allows:
            c = dict(v)
            c.update(a)
            out.append(c)
            if entry == "workbench.save" and a:
                out.pop()           # the workbench store is MemoryStore(): no allow_custom to give
                continue
            if entry in PARSE_ENTRIES + OBS_ENTRIES + ["workbench.parse"]:
                c2 = dict(c)
                c2["interoperability"] = True
                out.append(c2)
    return out


def with_uuid(d, u):
    d = dict(d)
    d["id"] = d["id"].split("--", 1)[0] + "--" + u
    return d


def variants(base, ver, kind):
    """dictionaries the two versions / strictness levels / custom switches treat differently"""
    out = [("base", base)]
    if "id" in base and isinstance(base["id"], str) and "--" in base["id"]:
        out.append(("zero-uuid", with_uuid(base, ZERO)))      # only relaxed (interoperability) mode admits it
        out.append(("v1-uuid", with_uuid(base, V1)))          # 2.1 admits it, 2.0 does not
        if sum(map(ord, str(base.get("type")))) % 4 == 0:
            out.append(("upper-uuid", with_uuid(base, base["id"].split("--", 1)[1].upper())))   # text shape: upper-case hex
    if kind != "bundle":
        if "spec_version" in base:
            d = dict(base)
            del d["spec_version"]
            out.append(("no-spec-version", d))                # now detected as 2.0 (or 2.1 SCO)
        else:
            d = dict(base)
            d["spec_version"] = "2.1"
            out.append(("spec-version-added", d))
    d = dict(base)
    d["x_c14"] = 1
    out.append(("custom-property", d))                        # allow_custom decides
    if kind == "object":
        d = dict(base)
        d["type"] = "x-c14-unknown"
        d["id"] = "x-c14-unknown--" + base["id"].split("--", 1)[1]
        out.append(("unknown-type", d))                       # allow_custom: returned as is / ParseError
    return out


def gen_probes(run, reg):
    g = stixgen.Gen(run.rng)
    n_base = 3 if run.tier == "thorough" else 1
    probes = []
    for cid in g.toplevel_ids():
        ver = cid.split("/")[0]
        c = g.classes[cid]
        t = c.get("type")
        if t in g.reg[ver]["observables"] and g.reg[ver]["observables"][t] == cid:
            kind = "observable"
        elif t == "bundle":
            kind = "bundle"
        else:
            kind = "object"
        for k in range(n_base):
            try:
                base = g.obj(cid)
            except Exception as e:  # noqa: BLE001 -- generator limits are not findings
                run.notes.append("stixgen could not build %s: %s" % (cid, e))
                continue
            try:
                json.dumps(base)
            except (TypeError, ValueError):
                continue
            for vname, d in variants(base, ver, kind):
                probes.append({"cid": cid, "ver": ver, "kind": kind, "variant": vname, "data": d})
            if kind == "bundle":
                # members of the other version / members whose version only detection decides
                extra = []
                for ocid, strip in (("2.1/File", True), ("2.1/Identity", False), ("2.0/Identity", False), ("2.1/IPv4Address", True)):
                    try:
                        m = g.obj(ocid)
                        json.dumps(m)
                    except Exception:  # noqa: BLE001
                        continue
                    if strip:
                        m = {k_: v_ for k_, v_ in m.items() if k_ != "spec_version"}
                    extra.append((ocid, m))
                for ocid, m in extra:
                    d = dict(base)
                    d["objects"] = [m]
                    probes.append({"cid": cid, "ver": ver, "kind": kind, "variant": "member:" + ocid + ("-no-spec-version" if "spec_version" not in m and ocid.startswith("2.1") else ""), "data": d})
    return probes


def entries_for(p):
    d = p["data"]
    ents = list(PARSE_ENTRIES)
    if p["kind"] == "observable":
        ents += OBS_ENTRIES
    has_id = isinstance(d.get("id"), str) and isinstance(d.get("type"), str)
    safe = has_id and all(ch.isalnum() or ch in "-_" for ch in d["id"] + d["type"])
    if p["kind"] != "bundle" and safe:
        ents += MEM_ENTRIES + FS_SRC_ENTRIES + FS_SINK_ENTRIES
    return ents


def whole_bundle(e, cfg):
    """the entry point parses the BUNDLE around the probe as a whole (compare with parse(bundle)["objects"][0])"""
    return cfg.get("wrap") in ("bundlefile", "wbundle", "wbundle1") or (e in TAXII_SINK_ENTRIES and cfg.get("wrap") == "bundle")


def bundle_fn(cfg):
    return "bundlefile1" if cfg.get("wrap") == "wbundle1" else "bundlefile"


def model_key(e, cfg):
    return (e, json.dumps({k: v for k, v in cfg.items() if k not in ("wrap", "form", "ctor_version")}, sort_keys=True))


def outcomes_equal(a, b):
    """None = that component is not observable through this entry point (a sink)"""
    if a[0] != b[0]:
        return False
    if a[0] == "ok":
        if a[1] is not None and b[1] is not None and a[1] != b[1]:
            return False
        return a[2] is None or b[2] is None or a[2] == b[2]
    if a[0] == "exc":
        return a[1:4] == b[1:4]
    return a == b


DIRECT_GRID = [(ac, io_, v) for ac in (False, True) for io_ in (False, True) for v in (None, "2.0", "2.1")]


def truthy(x):
    return bool(x)


# ---------------------------------------------------------------------------
# detect / pick / id generators

def gen_detect_dicts(run, reg, n):
    r = run.rng
    obj_types = sorted(set(reg["2.0/objects"]) | set(reg["2.1/objects"]))
    obs_types = sorted(set(reg["2.0/observables"]) | set(reg["2.1/observables"]))
    weird_types = [5, None, True, ["a"], {"a": 1}, "", "x-custom", "Identity", 2.5]
    svs = ["2.0", "2.1", "2.2", "1.0", "", 5, None, True, ["2.1"], "10.0", "2.10"]

    def one(depth):
        d = {}
        roll = r.random()
        if roll < 0.06:
            pass
        elif roll < 0.40:
            d["type"] = r.choice(obj_types)
        elif roll < 0.60:
            d["type"] = r.choice(obs_types)
        elif roll < 0.85:
            d["type"] = "bundle"
        else:
            d["type"] = r.choice(weird_types)
        if r.random() < 0.35:
            d["spec_version"] = r.choice(svs)
        if r.random() < 0.75:
            d["id"] = "%s--%s" % (d.get("type") if isinstance(d.get("type"), str) else "x", uuid.UUID(int=r.getrandbits(128)))
        if d.get("type") == "bundle" or r.random() < 0.05:
            roll = r.random()
            if roll < 0.10:
                pass
            elif roll < 0.20:
                d["objects"] = []
            elif roll < 0.32:
                d["objects"] = r.choice(["", "ab", {}, {"a": 1}, None, 5, True, [5], ["x"], [None], [[]]])
            elif depth < 3:
                d["objects"] = [one(depth + 1) for _ in range(r.choice([1, 1, 2, 3]))]
            else:
                d["objects"] = [{"type": r.choice(obj_types), "id": "x--1"}]
        items = list(d.items())
        r.shuffle(items)
        return dict(items)
    out = [one(0) for _ in range(n)]
    out += [[], "abc", None, 5, [{"type": "identity"}], {"type": "bundle", "id": "b", "objects": [{"type": "bundle", "id": "c"}]}]
    return out


def gen_ids(run, n):
    r = run.rng
    hexd = "0123456789abcdef"

    def canon(version=None, variant=None):
        b = bytearray(r.getrandbits(8) for _ in range(16))
        if version is not None:
            b[6] = (b[6] & 0x0F) | (version << 4)
        if variant is not None:
            b[8] = (b[8] & 0x3F) | variant
        return str(uuid.UUID(bytes=bytes(b)))
    out = []
    for _ in range(n):
        roll = r.random()
        if roll < 0.30:
            u = canon(r.choice([1, 2, 3, 4, 5, 0, 6, 7, 8, 15]), r.choice([0x80, 0x80, 0x80, 0x00, 0x40, 0xC0, 0xE0]))
        elif roll < 0.36:
            u = r.choice([ZERO, "ffffffff-ffff-ffff-ffff-ffffffffffff", V1])
        else:
            u = canon(4, 0x80)
            m = r.choice(["upper", "brace", "urn", "nohyphen", "short", "long", "movehyphen", "newline", "underscore", "0x",
                          "plus", "space", "nonhex", "mixed", "uuidurn", "lbrace", "tab", "dashes", "empty", "nonascii"])
            if m == "upper":
                u = u.upper()
            elif m == "brace":
                u = "{" + u + "}"
            elif m == "lbrace":
                u = "{{" + u
            elif m == "urn":
                u = "urn:uuid:" + u
            elif m == "uuidurn":
                u = "uuid:urn:" + u + "urn:"
            elif m == "nohyphen":
                u = u.replace("-", "")
            elif m == "short":
                u = u[:-1]
            elif m == "long":
                u = u + r.choice(hexd)
            elif m == "movehyphen":
                u = u.replace("-", "")
                i = r.randrange(1, 31)
                u = u[:i] + "-" + u[i:]
            elif m == "newline":
                u = u + "\n"
            elif m == "underscore":
                i = r.randrange(0, 36)
                u = u[:i] + "_" + u[i + 1:]
            elif m == "0x":
                u = "0x" + u[2:]
            elif m == "plus":
                u = "+" + u[1:]
            elif m == "space":
                u = r.choice([" " + u[1:], u[:-1] + " ", u[:10] + " " + u[11:], "\t" + u[1:]])
            elif m == "tab":
                u = u[:-1] + "\t"
            elif m == "nonhex":
                i = r.randrange(0, 36)
                u = u[:i] + r.choice("gzGZ:.u") + u[i + 1:]
            elif m == "mixed":
                u = "".join(ch.upper() if r.random() < 0.5 else ch for ch in u)
            elif m == "dashes":
                u = u.replace("-", "--", 1)
            elif m == "empty":
                u = ""
            elif m == "nonascii":
                u = u[:-1] + "٣"
        pre = r.choice(["identity--"] * 6 + ["identity-", "indicator--", "", "identity----", "Identity--"])
        out.append(pre + u)
    return out


# ---------------------------------------------------------------------------

def translate(run):
    try:
        text, _ = tr_callsites.translate(common.REPO, None)
        common.write_if_changed(os.path.join(common.COQ, "Gen", "CallSites.v"), text)
        return True
    except tr_callsites.TranslateError as e:
        run.broken.append(Broken("translator", "tr_callsites", {"error": str(e)}))
    except (OSError, SyntaxError) as e:
        run.broken.append(Broken("translator", "tr_callsites", {"error": "%s: %s" % (type(e).__name__, e)}))
    return False


def probe_modes(run):
    """which variant of detect_spec_version the code matches (run-time variant detection)"""
    v4 = "c9bd2a4e-2b1c-4d3e-8f00-0123456789ab"
    r = common.run_impl("c14_impl", [{"op": "detect", "data": {"type": "bundle", "id": "bundle--x"}},
                                     {"op": "detect", "data": {}},
                                     {"op": "registry"},
                                     {"op": "idcheck", "kind": "id", "type": "identity", "spec_version": "2.1", "interop": False,
                                      "value": "identity--{%s}" % v4},
                                     {"op": "idcheck", "kind": "id", "type": "identity", "spec_version": "2.1", "interop": True,
                                      "value": "identity--%s\n" % v4}], procs=1)
    bundle_default = r[0] == ["V", "2.1"]
    notype_parse = r[1] == ["ParseError"]
    if not bundle_default and r[0] != ["KeyError", "objects"]:
        run.notes.append("detect_spec_version on a bundle without objects gives %r (neither variant)" % (r[0],))
    if not notype_parse and r[1] != ["KeyError", "type"]:
        run.notes.append("detect_spec_version on {} gives %r (neither variant)" % (r[1],))
    # does the plain-dict branch of TAXIICollectionSink.add parse with the version? (stand-in client, worker of its own)
    d21 = dict(WITNESS, id="identity--" + v4)
    t = common.run_impl("c14_impl", [{"op": "probe", "data": d21, "entries": [["taxii.TAXIICollectionSink.add", {"version": "2.0"}]],
                                      "direct": []}], procs=1, args=("taxii",))[0]
    return {"bundle_default": bundle_default, "notype_parse": notype_parse,
            "canonical_text": r[3] != ["ok"], "regex_end_Z": r[4] != ["ok"],
            "taxii_sink_dict_parses": t["entries"][0][0] == "exc"}, r[2]


def coq_mode(md):
    return "(mkMode %s %s)" % (common.coq_bool(md["bundle_default"]), common.coq_bool(md["notype_parse"]))


def coq_idmode(md):
    return "(mkIdMode %s %s)" % (common.coq_bool(md["canonical_text"]), common.coq_bool(md["regex_end_Z"]))


def coq_reg(reg):
    def lst(k):
        return common.coq_list([common.coq_ustr(t) for t in reg[k]])
    return "(mkReg %s %s %s %s)" % (lst("2.0/objects"), lst("2.0/observables"), lst("2.1/objects"), lst("2.1/observables"))


def has_float(x):
    if isinstance(x, float):
        return True
    if isinstance(x, list):
        return any(has_float(e) for e in x)
    if isinstance(x, dict):
        return any(has_float(e) for e in x.values())
    return False


def show_detect_impl(r):
    if r[0] == "V":
        return "OUTSIDE" if has_float(r[1]) else "V " + show_jvalue(r[1])
    if r[0] == "Vother":
        return "V other " + r[1]
    if r[0] == "KeyError":
        return "KeyError " + show_ustr(r[1] if r[1] is not None else "?")
    return r[0]


def show_pick_impl(r):
    if r[0] == "class":
        if r[1][0] == "?":
            return "class ? " + str(r[1][1])
        return "class %s %s" % (show_ustr(r[1][0]), r[1][1])
    if r[0] == "dict":
        return "dict"
    if r[0] == "nested":
        return "OUTSIDE"
    if r[0] == "exc":
        if r[1] == "ParseError":
            return "ParseError"
        if r[1] == "KeyError":
            return "detect KeyError " + show_ustr(r[2] or "?")
        return "detect " + r[1]
    return "other " + str(r)


import time as _time


def _tick(run, name):
    now = _time.time()
    ph = run.coverage.setdefault("phase_s", {})
    ph[name] = round(now - run.coverage.get("_t_last", run.t0), 1)
    run.coverage["_t_last"] = now


def check(run):
    run.coverage["rule"] = (
        "every registered object/observable/bundle class of both versions (stixgen, frozen spec tables) x variants the versions or "
        "strictness levels treat differently (all-zero UUID, version-1 UUID, spec_version removed/added, custom property, "
        "unregistered type) x every driven entry point x version in {absent, 2.0, 2.1} x allow_custom in {absent, True, False} "
        "(x interoperability for the parser functions, x bundle/list wrapping for the memory stores); an evaluation is "
        "non-trivial when direct parses of the same dictionary do not all agree across the 12 (allow_custom, interoperability, "
        "version) triples.  Plus generated dictionaries through detect_spec_version / the class choice, and generated "
        "identifier texts through the id check, model vs code.")
    with common.Lock():
        gen_ok = translate(run)
        if gen_ok:
            res = common.build_props("Props/C14.v")
            run.add_build(res, "make -C coq Props/C14.vo (coqc 8.16.1, full .vo) + Print Assumptions per theorem")
            fa = res["failed_at"] or ("",)
            model_ok = res["ok"] or not (fa[0].startswith("Model/") or fa[0].startswith("Gen/") or fa[0].startswith("Base/"))
        else:
            run.coverage["obligations"] += len(common.theorems_in("Props/C14.v"))
            model_ok = False

    # second proof file: the schema interpreter's detect_version (C01/C03) agrees with Model/VersionDetect.v.
    # It depends on the schema family's files; only a failure inside the C14 files is a C14 obligation failure.
    schema_ok = False
    with common.Lock():
        try:
            res2 = common.build_props("Props/C14Schema.v")
            schema_ok = res2["ok"]
            fa = res2["failed_at"] or ("?", 0, "?")
            foreign = (not res2["ok"]) and fa[0] not in ("Proofs/C14SchemaAgree.v", "Props/C14Schema.v")
            if foreign:
                # a schema-family file (r-schema's) does not build: the agreement theorem is NOT claimed in this run,
                # so it is not counted among the obligations either (obligations == discharged for what is claimed)
                run.notes.append("Props/C14Schema.v (schema_detect_agrees) not claimed in this run: %s does not build "
                                 "(a schema-family file, not a C14 file)" % fa[0])
                run.coverage["schema_agreement_not_claimed"] = fa[0]
            else:
                run.coverage["obligations"] += res2["obligations"]
                run.coverage["discharged"] += res2["discharged"]
                run.coverage.setdefault("print_assumptions", {}).update(
                    {k: (v or "Closed under the global context") for k, v in res2["assumptions"].items()})
                if not res2["ok"]:
                    run.broken.append(Broken("obligation", "%s (Model/Schema.v detect_version vs Model/VersionDetect.v detect)" % fa[2],
                                             {"file": fa[0], "line": fa[1], "log_tail": res2["log_tail"][-1500:]}))
            for name, bad in res2["bad_axioms"]:
                run.broken.append(Broken("assumption", name, {"axioms": bad}))
        except Exception as e:  # noqa: BLE001
            run.notes.append("Props/C14Schema.v not checked: %s" % e)
    run.coverage["schema_agreement_checked"] = schema_ok

    _tick(run, 'build')
    md, reg = probe_modes(run)
    run.coverage["variant"] = dict(md)
    run.coverage["registry_sizes"] = {k: len(v) for k, v in reg.items()}

    _tick(run, 'modes')
    # ---- what the generated table says -------------------------------------------------
    table_entries, refuted = [], []
    if model_ok:
        try:
            lines = common.coq_eval_lines("c14t", HEADER, [
                'String.concat " ;; " (map e_name (entries Tg))',
                'String.concat " ;; " (show_refuted Tg)'])
            table_entries = [x for x in lines[0].split(" ;; ") if x]
            refuted = [x for x in lines[1].split(" ;; ") if x]
        except RuntimeError as e:
            run.broken.append(Broken("correspondence", "model evaluation failed", {"error": str(e)[-1500:]}))
            model_ok = False
    run.coverage["table_entries"] = table_entries
    run.coverage["table_refuted"] = refuted
    undriven = [e for e in table_entries if e not in DRIVEN]
    run.coverage["driven_entries"] = [e for e in table_entries if e in DRIVEN]
    run.coverage["entries_not_driven"] = undriven
    missing = [e for e in DRIVEN if model_ok and e not in table_entries]
    if missing:
        run.broken.append(Broken("correspondence", "entry points missing from the generated table", {"missing": missing}))

    _tick(run, 'table_eval')
    # ---- probes ------------------------------------------------------------------------
    probes = gen_probes(run, reg)
    probes.insert(0, {"cid": "2.1/Identity", "ver": "2.1", "kind": "object", "variant": "witness", "data": WITNESS})
    plan = []            # (probe index, entry, cfg)
    cfgs = {}
    # the recorded witness of the (repaired) positional call sites goes first
    plan.append((0, "memory.MemoryStore.add", {"version": "2.1"}))
    for pi, p in enumerate(probes):
        for e in entries_for(p):
            grid = cfgs.setdefault(e, cfg_grid(e, run.tier))
            for cfg in grid:
                if run.tier != "thorough" and e == "environment.Environment.parse" and pi % 3 and p["variant"] != "witness":
                    continue        # a pure forwarder to parse(): a third of the probes in the quick tier
                if run.tier != "thorough" and e.startswith("filesystem.FileSystemStore.") and pi % 2 \
                        and p["variant"] not in ("witness", "zero-uuid", "v1-uuid"):
                    continue        # the store methods forward to the source / sink driven above: half of the plain probes
                if run.tier != "thorough" and "allow_custom" in cfg and e not in PARSE_ENTRIES + OBS_ENTRIES:
                    # quick tier: an explicit allow_custom through the stores only where it changes the answer
                    # (custom property, unregistered type) and on one plain object per class
                    if p["variant"] not in ("witness", "custom-property", "unknown-type") and not (
                            p["variant"] == "base" and cfg["allow_custom"] is False):
                        continue
                plan.append((pi, e, cfg))
                if cfg.get("version") == "2.1" and "interoperability" not in cfg and cfg.get("allow_custom") is not False and (
                        p["variant"] in ("witness", "base") and (run.tier == "thorough" or pi % 2 == 0 or p["variant"] == "witness")):
                    # the version argument outside its domain: an unsupported version string on every entry point
                    for ov in ODD_VERSIONS:
                        plan.append((pi, e, dict(cfg, version=ov)))
                if e in ("memory.MemoryStore.add", "memory.MemorySink.add", "memory.MemoryStore.load_from_file",
                         "memory.MemorySource.load_from_file") and "allow_custom" not in cfg \
                        and p["variant"] in ("witness", "base", "v1-uuid", "no-spec-version", "spec-version-added"):
                    # history: the version given to the constructor x the version given to the call
                    for cv in ("2.0", "2.1"):
                        if cv != cfg.get("version"):
                            plan.append((pi, e, dict(cfg, ctor_version=cv)))
                if e in MEM_ENTRIES and p["variant"] in ("witness", "zero-uuid", "v1-uuid") and "allow_custom" not in cfg:
                    for w in (("bundle", "list") if not e.endswith("load_from_file") else ("bundle",)):
                        c2 = dict(cfg)
                        c2["wrap"] = w
                        plan.append((pi, e, c2))
                # the same call in its other public argument forms
                nested = any(isinstance(x, (dict, list)) and x for k_, x in p["data"].items() if k_ in ("extensions", "objects"))
                if "allow_custom" not in cfg and "interoperability" not in cfg and (
                        run.tier == "thorough" or pi % 2 == 0 or p["variant"] == "witness" or nested):
                    if e in ("parsing.parse", "environment.Environment.parse", "parsing.parse_observable"):
                        forms = ("str", "bytes", "file", "object", "positional", "mapping", "userdict")
                    elif e == "parsing.dict_to_stix2":
                        forms = ("object", "positional", "mapping")
                    elif e in MEM_ENTRIES[:5]:
                        forms = ("positional", "mapping", "userdict") if e.endswith(".add") else ("mapping", "userdict")
                    elif e in ("filesystem.FileSystemSink.add", "filesystem.FileSystemSource.get", "filesystem.FileSystemSource.query",
                               "filesystem.FileSystemStore.add"):
                        forms = ("positional", "relpath") + (("mapping",) if e.endswith(".add") else ())
                    else:
                        forms = ()
                    if nested and not (run.tier == "thorough" or pi % 2 == 0 or p["variant"] == "witness"):
                        forms = tuple(f_ for f_ in forms if f_ == "object")
                    for fm in forms:
                        if fm == "positional" and e == "environment.Environment.parse":
                            continue
                        plan.append((pi, e, dict(cfg, form=fm)))
                if e in FS_SINK_ENTRIES and p["variant"] in ("witness", "base", "zero-uuid", "v1-uuid", "no-spec-version", "spec-version-added") \
                        and "allow_custom" not in cfg:
                    for wr in ("wbundle", "wbundle1", "str"):
                        plan.append((pi, e, dict(cfg, wrap=wr)))
                if run.tier != "thorough" and "version" not in cfg and e in FS_SRC_ENTRIES:
                    continue        # quick tier: the file layouts below only with a version named
                if e in FS_SRC_ENTRIES and p["variant"] in ("witness", "base", "zero-uuid", "v1-uuid") and "allow_custom" not in cfg:
                    c2 = dict(cfg)
                    c2["wrap"] = "bundlefile"
                    plan.append((pi, e, c2))
                if e in FS_SRC_ENTRIES and p["variant"] != "unknown-type" and "allow_custom" not in cfg:
                    # legacy flat <type>/<id>.json next to a versioned <type>/<other id>/<file>.json (backward-compatibility pass)
                    plan.append((pi, e, dict(cfg, wrap="flatfile")))
                if e in FS_SINK_ENTRIES and p["variant"] in ("witness", "zero-uuid") and "allow_custom" not in cfg:
                    c2 = dict(cfg)
                    c2["wrap"] = "list"
                    plan.append((pi, e, c2))

    # the workbench: every save gets a dictionary with an id of its own (the store is a module global)
    n_plain = len(probes)
    wb_fixed_ids = set()
    for pi in range(n_plain):
        p = probes[pi]
        if p["kind"] == "bundle" or (run.tier != "thorough" and pi % 2 and p["variant"] not in ("witness", "zero-uuid", "v1-uuid")):
            continue
        probes.append(dict(p, wb=True))
        qi = len(probes) - 1
        for cfg in cfgs.setdefault("workbench.parse", cfg_grid("workbench.parse", run.tier)):
            plan.append((qi, "workbench.parse", cfg))
        if p["kind"] == "observable" and "id" not in p["data"]:
            continue
        if p["variant"] in ("witness", "zero-uuid"):
            if p["data"]["id"] in wb_fixed_ids:
                continue            # the all-zero id cannot be made unique: one object per such id in the global store
            wb_fixed_ids.add(p["data"]["id"])
        for cfg in cfgs.setdefault("workbench.save", cfg_grid("workbench.save", run.tier)):
            d = p["data"]
            if p["variant"] not in ("witness", "zero-uuid") and isinstance(d.get("id"), str) and "--" in d["id"]:
                old = d["id"].split("--", 1)[1]
                nib = 1 if p["variant"] == "v1-uuid" else 4
                b = bytearray(run.rng.getrandbits(8) for _ in range(16))
                b[6] = (b[6] & 0x0F) | (nib << 4)
                b[8] = (b[8] & 0x3F) | 0x80
                d = json.loads(json.dumps(d).replace(old, str(uuid.UUID(bytes=bytes(b)))))
            probes.append(dict(p, wb=True, data=d))
            plan.append((len(probes) - 1, "workbench.save", cfg))

    # TAXII: a worker of its own (stand-in client package)
    for pi in range(n_plain):
        p = probes[pi]
        if p["kind"] == "bundle" or not (isinstance(p["data"].get("id"), str) and isinstance(p["data"].get("type"), str)):
            continue
        if run.tier != "thorough" and pi % 3 and p["variant"] not in ("witness", "zero-uuid", "v1-uuid", "no-spec-version", "spec-version-added"):
            continue
        probes.append(dict(p, taxii=True))
        qi = len(probes) - 1
        for e in TAXII_ENTRIES:
            for cfg in cfgs.setdefault(e, cfg_grid(e, run.tier)):
                special = p["variant"] in ("witness", "custom-property", "unknown-type", "zero-uuid", "no-spec-version", "spec-version-added")
                if run.tier != "thorough" and "allow_custom" in cfg and not special:
                    continue
                plan.append((qi, e, cfg))
                if e in TAXII_SINK_ENTRIES and cfg.get("allow_custom") is not False and (
                        run.tier == "thorough" or "allow_custom" not in cfg or special):
                    for wr in ("str", "bundle", "list"):
                        plan.append((qi, e, dict(cfg, wrap=wr)))

    # model: the triple(s) each (entry, cfg) hands to the parser
    fam = {}
    for _pi, _e, _cfg in plan:
        k = _e.split(".")[0] + ("/" + _cfg["wrap"] if _cfg.get("wrap") else "")
        fam[k] = fam.get(k, 0) + 1
    run.coverage["plan_by_family"] = fam
    _tick(run, 'plan')
    eff = {}
    if model_ok:
        keys = sorted({model_key(e, cfg) for _, e, cfg in plan})
        try:
            lines = common.coq_eval_lines("c14e", HEADER, ["effective Tg %s %s" % (common.coq_str(e), cargs_of(json.loads(c)))
                                                           for e, c in keys], shard=300)
            for k, ln in zip(keys, lines):
                eff[k] = parse_effective(ln)
        except RuntimeError as e:
            run.broken.append(Broken("correspondence", "model evaluation failed", {"error": str(e)[-1500:]}))
            model_ok = False

    # implementation
    cases = []
    by_probe = {}
    for pi, e, cfg in plan:
        by_probe.setdefault(pi, []).append((e, cfg))
    order = sorted(by_probe)
    for pi in order:
        p = probes[pi]
        odd = sorted({cfg["version"] for _e, cfg in by_probe[pi] if cfg.get("version") not in (None, "2.0", "2.1")})
        grid = DIRECT_GRID + [(ac, io_, v) for ac in (False, True) for io_ in (False, True) for v in odd]
        direct = [["parse", ac, io_, v] for ac, io_, v in grid]
        if p["kind"] == "observable":
            direct += [["parse_observable", ac, io_, v] for ac, io_, v in grid]
        case = {"op": "probe", "data": p["data"], "entries": [[e, cfg] for e, cfg in by_probe[pi]], "direct": direct}
        if any(whole_bundle(e, cfg) for e, cfg in by_probe[pi]):
            case["direct_bundle"] = [[ac, io_, v] for ac, io_, v in DIRECT_GRID]
        if any(cfg.get("wrap") == "wbundle1" for e, cfg in by_probe[pi]):
            case["direct_bundle1"] = [[ac, io_, v] for ac, io_, v in DIRECT_GRID]
        cases.append(case)
    wb_idx = [k for k, pi in enumerate(order) if probes[pi].get("wb")]
    tx_idx = [k for k, pi in enumerate(order) if probes[pi].get("taxii")]
    plain_idx = [k for k, pi in enumerate(order) if not probes[pi].get("wb") and not probes[pi].get("taxii")]
    _tick(run, 'effective_eval')
    impl = [None] * len(cases)
    for k, r in zip(plain_idx, common.run_impl("c14_impl", [cases[k] for k in plain_idx])):
        impl[k] = r
    if wb_idx:
        for k, r in zip(wb_idx, common.run_impl("c14_impl", [cases[k] for k in wb_idx], args=("workbench",))):
            impl[k] = r
    if tx_idx:
        for k, r in zip(tx_idx, common.run_impl("c14_impl", [cases[k] for k in tx_idx], args=("taxii",))):
            impl[k] = r
    run.coverage["workbench_cases"] = len(wb_idx)
    run.coverage["taxii_cases"] = len(tx_idx)

    _tick(run, 'impl_entry_points')
    tsum = {}
    for r in impl:
        for k, x in (r.get("t") or {}).items():
            tsum[k] = round(tsum.get(k, 0.0) + x, 1)
    run.coverage["impl_cpu_s_by_family"] = tsum
    dis, n_cmp, n_model_unknown = [], 0, 0
    for pi, c, r in zip(order, cases, impl):
        p = probes[pi]
        direct = {(fn, ac, io_, v): o for (fn, ac, io_, v), o in zip(map(tuple, c["direct"]), r["direct"])}
        for (ac, io_, v), o in zip(map(tuple, c.get("direct_bundle", [])), r.get("direct_bundle", [])):
            direct[("bundlefile", ac, io_, v)] = o
        for (ac, io_, v), o in zip(map(tuple, c.get("direct_bundle1", [])), r.get("direct_bundle1", [])):
            direct[("bundlefile1", ac, io_, v)] = o
        distinct = {json.dumps(o) for (fn, *_), o in direct.items() if fn == "parse"}
        nontrivial = len(distinct) > 1
        for (e, cfg), out, own in zip(by_probe[pi], r["entries"], r["own"]):
            run.count({"e": e, "cfg": cfg, "d": p["data"]}, nontrivial=nontrivial)
            v = cfg.get("version")
            fn_own, ac_own, io_own = own
            if out[0] == "skip":
                continue
            if cfg.get("form") in ("mapping", "userdict") and out[0] == "exc" and out[1] == "TypeError":
                continue        # the entry point does not take this form of input at all: not a question about versions
            if whole_bundle(e, cfg):
                fn_own = bundle_fn(cfg)
            if cfg.get("form") == "object":
                # an OBJECT handed over: re-reading dict(object) is not the same input as the dictionary it was built from
                # (embedded library objects, emptied containers), so a refusal is not compared; an answer is, by its class
                if out[0] != "ok":
                    continue
                out = [out[0], out[1], None, out[3]]
            unv = direct.get((fn_own, ac_own, io_own, None))
            known_cls = None
            if e.startswith("taxii.") and e.endswith(".all_versions") and v is not None:
                # Run-time variant: the generated table says this entry point ALSO reaches the parser without the version
                # (self.query(..) called without version=).  Then whatever it does differently from a direct parse is that
                # defect: the unversioned first parse raised, or succeeded and its RESULT is what gets parsed with the version.
                ekey = model_key(e, cfg)
                tr = eff.get(ekey) or []
                if any(t[3] == ("v", None) for t in tr) or (not tr and unv is not None and (
                        (unv[0] == "exc" and outcomes_equal(out, unv)) or (unv[0] == "ok" and out[0] == "ok"))):
                    known_cls = FINDING_TAXII_ALL_VERSIONS
            if e in TAXII_SINK_ENTRIES and v is not None:
                w0 = direct.get((fn_own, ac_own, io_own, v))
                if w0 is not None and w0[0] == "ok" and (md["taxii_sink_dict_parses"] or cfg.get("wrap") not in (None, "list")):
                    # the parse with the named version ACCEPTS the content (as an object of that version, or as is when the type
                    # is not registered for it); the sink then wraps the result in v21.Bundle / v20.Bundle chosen by the presence
                    # of 'spec_version' -- not by the named version -- and the Bundle interprets and validates it again
                    known_cls = FINDING_TAXII_SINK_WRAP
                elif not md["taxii_sink_dict_parses"] and cfg.get("wrap") in (None, "list"):
                    known_cls = FINDING_TAXII_SINK_DICT       # a plain dict goes into v2x.Bundle(..) and never meets parse(.., version)
            if v is not None and v not in ("2.0", "2.1") and whole_bundle(e, cfg):
                continue
            # oracle: the property itself (a version is named)
            if v is not None and not whole_bundle(e, cfg) and out[0] in ("ok", "exc") and out[-1] is not None \
                    and v not in out[-1]:
                run.violations.append(Violation(
                    "%s(<%s %s>, %s) -> %s: the content was interpreted as version %s, not the version named"
                    % (e, p["cid"], p["variant"], ", ".join("%s=%r" % kv for kv in sorted(cfg.items())), short(out), out[-1]),
                    {"kind": "entry", "entry": e, "cfg": cfg, "data": p["data"]}, finding=known_cls))
            if v is not None:
                want = direct[(fn_own, ac_own, io_own, v)]
                if not outcomes_equal(out, want):
                    sig = direct.get((fn_own, ac_own, True, None))
                    cls = known_cls
                    if (e in MEM_ENTRIES or e in FS_SRC_ENTRIES) and sig is not None and outcomes_equal(out, sig):
                        cls = FINDING_POSITIONAL
                    run.violations.append(Violation(
                        "%s(<%s %s>, %s) -> %s, but a direct %s(.., allow_custom=%s, version=%r) -> %s"
                        % (e, p["cid"], p["variant"], ", ".join("%s=%r" % kv for kv in sorted(cfg.items())), short(out),
                           fn_own, ac_own, v, short(want)),
                        {"kind": "entry", "entry": e, "cfg": cfg, "data": p["data"]}, finding=cls))
            # correspondence: the triple the generated table predicts (the dict / list-of-dict branch of
            # TAXIICollectionSink.add builds v2x.Bundle(stix_data) and reaches no parser call site: not in the table)
            # ... and what the Bundle wrapping does to content the parser accepted is outside the table too: for the TAXII sink
            # only refusals by the parser are compared)
            if model_ok and not (e in TAXII_SINK_ENTRIES and (
                    (cfg.get("wrap") in (None, "list") and not md["taxii_sink_dict_parses"])
                    or (direct.get((fn_own, ac_own, io_own, v)) or ["?"])[0] == "ok")):
                key = model_key(e, cfg)
                triples = eff.get(key)
                if triples is None:
                    continue
                if len({(t[0], t[1][1], t[2][1], t[3][1]) for t in triples}) > 1:
                    # several parses in a row (TAXII all_versions before its repair): the second one is applied to the RESULT
                    # of the first, which no single direct parse of the content predicts
                    run.coverage["dispatch_composition_skipped"] = run.coverage.get("dispatch_composition_skipped", 0) + 1
                    continue
                ok_any, unknown = False, False
                for fn, ac, io_, vv in triples:
                    f = "parse_observable" if fn == "parsing.parse_observable" else "parse"
                    if whole_bundle(e, cfg):
                        f = bundle_fn(cfg)
                    if ac[0] == "?":
                        unknown = True
                    a = ac_own if ac[0] == "?" else truthy(ac[1])
                    i = io_own if io_[0] == "?" else truthy(io_[1])
                    ver = v if vv[0] == "?" else (vv[1] if vv[1] else None)
                    if outcomes_equal(out, direct.get((f, a, i, ver), ["missing"])):
                        ok_any = True
                n_cmp += 1
                n_model_unknown += 1 if unknown else 0
                if not ok_any:
                    dis.append({"entry": e, "cfg": cfg, "variant": p["variant"], "cid": p["cid"], "impl": short(out),
                                "model_triples": [[fn, ac[1], io_[1], vv[1]] for fn, ac, io_, vv in triples]})
        if pi in (0, 5, 40):
            run.sample({"probe": p["variant"], "cid": p["cid"], "entry": by_probe[pi][1][0], "cfg": by_probe[pi][1][1],
                        "impl": short(r["entries"][1])})
    run.coverage["dispatch_comparisons"] = n_cmp
    run.coverage["dispatch_disagreements"] = len(dis)
    run.coverage["dispatch_model_component_unknown"] = n_model_unknown
    if dis:
        run.coverage["dispatch_first_disagreements"] = dis[:8]
        run.broken.append(Broken("correspondence", "generated call-site table vs entry points", {"first": dis[:5]}))

    _tick(run, 'judge')
    # ---- history independence: the answer to (content, version) does not depend on what was asked before ------------
    order_oracle(run, probes[:n_plain])

    _tick(run, 'order')
    # ---- position independence of the identifier rule; process environment ----------------------------------------
    idpos_oracle(run, probes[:n_plain])
    tz_oracle(run, [cases[k] for k in plain_idx], [impl[k] for k in plain_idx])
    _tick(run, 'idpos_tz')

    # ---- outside the domain of `emitted`: a custom 2.0 object and a custom 2.1 observable of the same name ----------
    col = common.run_impl("c14_impl", [{"op": "collide", "name": "x-c14-collide"}], procs=1)[0]
    run.count({"collide": 1}, nontrivial=True)
    run.coverage["collision_probe"] = {k: col[k] for k in ("before", "after", "after_named_20")}
    if col["before"][:2] != ["ok", "same-class"] or col["after_named_20"][:2] != ["ok", "same-class"]:
        run.violations.append(Violation(
            "a custom 2.0 object serialised as %s is not recognised as its own class: without a version %s, with version='2.0' %s"
            % (col["text"][:120], col["before"], col["after_named_20"]), {"kind": "collide", "name": "x-c14-collide"}, finding=None))
    elif col["after"][:2] != ["ok", "same-class"]:
        run.violations.append(Violation(
            "a custom 2.0 object serialised as %s, handed back without a version once a custom 2.1 observable of the same type name "
            "is registered: %s" % (col["text"][:120], short(col["after"]) if col["after"][0] == "exc" else col["after"]),
            {"kind": "collide", "name": "x-c14-collide"}, finding=FINDING_COLLISION))

    # ---- mixed-version stores read back without a version ----------------------------------------------------------
    mixed_oracle(run, probes[:n_plain])
    _tick(run, 'mixed')

    # ---- library output handed back without a version -------------------------------------
    own_cases = []
    for p in probes:
        if p["variant"] == "base" and p["kind"] != "bundle":
            own_cases.append({"op": "own", "version": p["ver"], "data": p["data"], "observable": p["kind"] == "observable",
                              "cid": p["cid"]})
    member20 = {"type": "identity", "id": "identity--" + str(uuid.UUID(int=run.rng.getrandbits(128), version=4)), "name": "n",
                "identity_class": "individual", "created": "2020-01-01T00:00:00.000Z", "modified": "2020-01-01T00:00:00.000Z"}
    member21 = dict(member20, spec_version="2.1")
    bundle_cases = [{"op": "bundle", "version": "2.0"}, {"op": "bundle", "version": "2.1"},
                    {"op": "bundle", "version": "2.0", "members": [member20]},
                    {"op": "bundle", "version": "2.1", "members": [member21]},
                    {"op": "bundle", "version": "2.1", "members": [member21, dict(member21, id="identity--" + V1)]}]
    for n_members in (9, 10, 11, 63, 64, 65, 100, 101) if run.tier == "thorough" else (9, 10, 11, 64, 65):
        for ver, mem in (("2.0", member20), ("2.1", member21)):
            bundle_cases.append({"op": "bundle", "version": ver, "members": [
                dict(mem, id="identity--" + fresh_uuid(run.rng, 4)) for _ in range(n_members)]})
    own_res = common.run_impl("c14_impl", own_cases + bundle_cases)
    built = 0
    for c, r in zip(own_cases + bundle_cases, own_res):
        run.count({"own": c}, nontrivial=bool(r.get("built")))
        if not r.get("built"):
            continue
        built += 1
        for via, got in r["via"].items():
            if got != ["ok", r["class"]]:
                empty21 = c["op"] == "bundle" and c["version"] == "2.1" and not c.get("members")
                run.violations.append(Violation(
                    "the library serialised a %s as %s; handed back through %s without a version it gives %s"
                    % (r["class"], r["text"][:160], via, got),
                    {"kind": "own", "case": c, "via": via},
                    finding=FINDING_EMPTY_BUNDLE if (empty21 and not md["bundle_default"] and got[:2] == ["exc", "KeyError"]) else None))
    run.coverage["own_output_objects_built"] = built

    _tick(run, 'own_output')
    # ---- detect_spec_version / class choice / id check: model vs code -------------------------
    if model_ok:
        try:
            correspond_models(run, md, reg, probes)
        except RuntimeError as e:
            run.broken.append(Broken("correspondence", "model evaluation failed", {"error": str(e)[-1500:]}))

    _tick(run, 'models_corr')
    if model_ok and schema_ok:
        try:
            schema_stream(run, md)
        except RuntimeError as e:
            run.notes.append("schema/C14 detect stream not run: %s" % str(e)[-300:])

    _tick(run, 'schema_stream')
    # a failed obligation over the generated table: say which entry points / call sites
    if refuted and any(b.kind == "obligation" for b in run.broken):
        for b in run.broken:
            if b.kind == "obligation":
                b.detail["refuted_entries_and_sites"] = refuted[:20]

    ex = {}
    for v in run.violations:
        if v.finding:
            ex.setdefault(v.finding, [])
            if len(ex[v.finding]) < 4:
                ex[v.finding].append(v.what[:400])
    run.coverage["classified_violation_examples"] = ex
    run.coverage["classified_violation_counts"] = {k: sum(1 for v in run.violations if v.finding == k) for k in ex}

    run.coverage.pop("_t_last", None)
    run.coverage["trusted_base"] += [
        "translators/tr_callsites.py (fail-closed ast translator of the call sites; validated each run by the entry-point sweep)",
        "coq/Model/VersionDetect.v, coq/Model/IdCheck.v: hand models of detect_spec_version, the class choice and _check_uuid/"
        "_validate_id incl. CPython uuid.UUID()/int(..,16) text acceptance (validated each run on generated inputs)",
        "harness/stixgen.py + /verif/spec tables (probe generator)",
    ]
    run.assumptions += [
        "the parser's use of allow_custom/interoperability inside the classes (property cleaning) is the subject of C02-C04; "
        "C14 stops at the constructor call obj_class(allow_custom=.., interoperability=.., **data)",
        "TAXII source/sink/store: driven in a worker of their own against a stand-in `taxii2client` package put in sys.modules "
        "before stix2 is imported (a Collection object that serves the objects given and records what is posted); every line of "
        "stix2 run is the real one",
        "workbench.parse / workbench.save are driven in a worker process of their own (importing stix2.workbench replaces the "
        "2.1 SDO classes of the registry by factory functions); the other workbench aliases take no version",
        "the shapes of `emitted` (Props/C14.v) are what the serialiser emits; checked by handing real serialisations of every "
        "class back through the entry points",
    ]


def uuid_kinds(rng):
    """(label, text) of UUID texts the versions / strictness levels treat differently"""
    def mk(nib, variant=0x80):
        b = bytearray(rng.getrandbits(8) for _ in range(16))
        b[6] = (b[6] & 0x0F) | (nib << 4)
        b[8] = (b[8] & 0x3F) | variant
        return str(uuid.UUID(bytes=bytes(b)))
    return [("v1", mk(1)), ("v3", mk(3)), ("v4", mk(4)), ("v5", mk(5)), ("v4-upper", mk(4).upper()), ("zero", ZERO),
            ("ncs-variant", mk(4, 0x00)), ("future-variant", mk(4, 0xE0))]


def idpos_oracle(run, probes):
    """Position independence: the same UUID text, under the same spec version and strictness, gets the same verdict as an
    object's own `id` and as a reference held by an object (property level: IDProperty vs ReferenceProperty; object level:
    own id vs created_by_ref / object_marking_refs of registered objects of that version)."""
    cases = []
    hosts = [p for p in probes if p["variant"] == "base" and p["kind"] == "object" and "created" in p["data"]
             and isinstance(p["data"].get("id"), str)]
    hosts = hosts if run.tier == "thorough" else hosts[::4]
    for sv in ("2.0", "2.1"):
        for io_ in (False, True):
            for label, u in uuid_kinds(run.rng):
                cases.append({"op": "idpos", "label": label, "value": "identity--" + u, "spec_version": sv, "interop": io_})
                for p in hosts:
                    if p["ver"] != sv:
                        continue
                    for key, val in (("created_by_ref", "identity--" + u), ("object_marking_refs", "marking-definition--" + u)):
                        if key == "object_marking_refs" and p["data"].get("type") == "marking-definition":
                            continue
                        cases.append({"op": "idpos", "label": label, "value": val, "spec_version": sv, "interop": io_,
                                      "object": p["data"], "key": key, "cid": p["cid"]})
    res = common.run_impl("c14_impl", cases, procs=min(common.NCPU, 8))
    n = 0
    for c, r in zip(cases, res):
        run.count({"idpos": c}, nontrivial=True)
        bad = None
        if "object" not in c and r["id"] in ("ok", "invalid") and r["ref"] in ("ok", "invalid") and r["id"] != r["ref"]:
            bad = "IDProperty(..).clean -> %s, ReferenceProperty(..).clean -> %s" % (r["id"], r["ref"])
        if "object" in c:
            own, held = r["own_id"], r["held_ref"]
            inv_own = own[0] == "exc" and own[3] == "id"
            inv_held = held[0] == "exc" and held[3] == c["key"]
            clean_own = own[0] == "ok" or inv_own
            clean_held = held[0] == "ok" or inv_held
            if clean_own and clean_held and inv_own != inv_held:
                bad = "as the object's own id -> %s, as its %s -> %s" % (short(own + [None]), c["key"], short(held + [None]))
        if bad:
            n += 1
            run.violations.append(Violation(
                "the %s UUID %s under spec version %s (interoperability=%s) is judged differently by position%s: %s"
                % (c["label"], c["value"].split("--", 1)[1], c["spec_version"], c["interop"],
                   " in <%s>" % c["cid"] if "cid" in c else "", bad), {"kind": "idpos", "case": c}, finding=None))
    run.coverage["idpos_cases"] = len(cases)
    run.coverage["idpos_differences"] = n


def idpos_bad(c, r):
    if "object" not in c:
        return r["id"] in ("ok", "invalid") and r["ref"] in ("ok", "invalid") and r["id"] != r["ref"]
    own, held = r["own_id"], r["held_ref"]
    inv_own = own[0] == "exc" and own[3] == "id"
    inv_held = held[0] == "exc" and held[3] == c["key"]
    return (own[0] == "ok" or inv_own) and (held[0] == "ok" or inv_held) and inv_own != inv_held


def tz_oracle(run, cases, base):
    """Process environment: a share of the entry-point cases again in a worker under a non-UTC POSIX zone; same answers."""
    idx = list(range(0, len(cases), 11 if run.tier != "thorough" else 5))
    if not idx:
        return
    old = os.environ.get("TZ")
    os.environ["TZ"] = "JST-9"
    try:
        res = common.run_impl("c14_impl", [cases[k] for k in idx])
    finally:
        if old is None:
            os.environ.pop("TZ", None)
        else:
            os.environ["TZ"] = old
    n = 0
    for k, r in zip(idx, res):
        a = {x: base[k].get(x) for x in ("entries", "direct", "direct_bundle")}
        b = {x: r.get(x) for x in ("entries", "direct", "direct_bundle")}
        if a != b:
            n += 1
            j = next((i for i, (x, y) in enumerate(zip(a["entries"], b["entries"])) if x != y), None)
            if j is not None and n <= 3:
                e, cfg = cases[k]["entries"][j]
                run.violations.append(Violation(
                    "%s(.., %s) answers %s under TZ=JST-9 and %s in the default environment" % (e, cfg, short(b["entries"][j]), short(a["entries"][j])),
                    {"kind": "entry", "entry": e, "cfg": cfg, "data": cases[k]["data"], "env": {"TZ": "JST-9"}}, finding=None))
    run.coverage["tz_cases"] = len(idx)
    run.coverage["tz_differences"] = n


ORDER_ENTRIES = ["parsing.parse", "memory.MemoryStore.add", "filesystem.FileSystemSource.get"]


def fresh_uuid(rng, nibble):
    b = bytearray(rng.getrandbits(8) for _ in range(16))
    b[6] = (b[6] & 0x0F) | (nibble << 4)
    b[8] = (b[8] & 0x3F) | 0x80
    return str(uuid.UUID(bytes=bytes(b)))


def order_cases(run, probes):
    cases = []
    for p in probes:
        d = p["data"]
        if p["variant"] != "base" or p["kind"] == "bundle" or not (isinstance(d.get("id"), str) and "--" in d["id"]):
            continue
        if not all(ch.isalnum() or ch in "-_" for ch in d["id"] + str(d.get("type"))):
            continue
        for nib in (1, 4, 5):
            ua, ub = fresh_uuid(run.rng, nib), fresh_uuid(run.rng, nib)
            seen, fresh = with_uuid(d, ua), with_uuid(d, ub)
            for first, second in (("2.1", "2.0"), ("2.0", "2.1")):
                for e in ORDER_ENTRIES:
                    cases.append({"op": "order", "how": "id", "cid": p["cid"], "entry": e, "first": first, "second": second, "ac": True,
                                  "prime": seen, "seen": seen, "fresh": fresh, "ids": [ua, ub]})
            if nib == 4:
                # caches keyed on the value: flag variant A first, then B, on the same content
                ua2, ub2 = fresh_uuid(run.rng, 4), fresh_uuid(run.rng, 4)
                # (a) relaxed first, then strict: an id only relaxed mode admits (non-RFC variant bits)
                def ncs(x):
                    return x[:19] + "0" + x[20:]
                s2, f2 = with_uuid(d, ncs(ua2)), with_uuid(d, ncs(ub2))
                ver = p["ver"]
                cases.append({"op": "order", "how": "flags:interoperability", "cid": p["cid"], "entry": "parsing.parse", "first": ver,
                              "second": ver, "ac": True, "first_flags": {"allow_custom": True, "interoperability": True},
                              "second_flags": {"allow_custom": True}, "prime": s2, "seen": s2, "fresh": f2, "ids": [ncs(ua2), ncs(ub2)]})
                # (b) allow_custom first, then strict about custom content
                s3, f3 = dict(seen, x_c14=1), dict(fresh, x_c14=1)
                cases.append({"op": "order", "how": "flags:allow_custom", "cid": p["cid"], "entry": "parsing.parse", "first": ver,
                              "second": ver, "ac": True, "first_flags": {"allow_custom": True},
                              "second_flags": {"allow_custom": False}, "prime": s3, "seen": s3, "fresh": f3, "ids": [ua, ub]})
                # (c) the same question twice (and then once more), version named
                cases.append({"op": "order", "how": "twice", "cid": p["cid"], "entry": "memory.MemoryStore.add", "first": ver,
                              "second": ver, "ac": True, "twice": True, "prime": seen, "seen": seen, "fresh": fresh, "ids": [ua, ub]})
            if "created" in d and "created_by_ref" not in d or isinstance(d.get("created_by_ref"), str):
                ident = {"type": "identity", "id": "identity--" + ua, "name": "n", "identity_class": "individual",
                         "created": "2020-01-01T00:00:00.000Z", "modified": "2020-01-01T00:00:00.000Z"}
                uc = fresh_uuid(run.rng, 4)
                base = with_uuid(d, uc)
                for first, second in (("2.1", "2.0"), ("2.0", "2.1")):
                    cases.append({"op": "order", "how": "ref", "cid": p["cid"], "entry": "parsing.parse", "first": first, "second": second,
                                  "ac": True, "prime": ident, "seen": dict(base, created_by_ref="identity--" + ua),
                                  "fresh": dict(base, created_by_ref="identity--" + ub), "ids": [ua, ub]})
    return cases


def order_oracle(run, probes):
    """the same (content, version) question after a different-version question about the same id gets the answer it gets
    when the id was never seen; a difference is confirmed against a FRESH interpreter before it is reported"""
    cases = order_cases(run, probes)
    if run.tier != "thorough":
        cases = cases[::2]
    res = common.run_impl("c14_impl", cases)
    n_diff = 0
    for c, r in zip(cases, res):
        run.count({"order": c}, nontrivial=r["prime"][0] != r["fresh"][0] or c["ids"] and c["how"] == "ref")
        if outcomes_equal(r["after"], r["fresh"]):
            continue
        n_diff += 1
        if n_diff > 12:
            continue
        v = order_confirm(c)
        if v is not None:
            run.violations.append(v)
    run.coverage["order_cases"] = len(cases)
    run.coverage["order_differences"] = n_diff


def order_confirm(c):
    """ask the second question alone in a fresh interpreter; a Violation if the in-sequence answer differs from it"""
    alone = common.run_impl("c14_impl", [dict(c, first=c["second"], prime=c["fresh"])], procs=1)[0]     # new process
    seq = common.run_impl("c14_impl", [c], procs=1)[0]                                                   # new process
    if outcomes_equal(seq["after"], alone["after"]):
        return None
    return Violation(
        "%s(<%s>, version=%r) -> %s when the same %s was first parsed with version=%r (-> %s) in the same interpreter; "
        "asked first in a fresh interpreter it -> %s"
        % (c["entry"], c["cid"], c["second"], short(seq["after"]), "id" if c["how"] == "id" else "referenced id", c["first"],
           short(seq["prime"]), short(alone["after"])),
        {"kind": "order", "case": c}, finding=None)


def mixed_cases(run, probes):
    pool = {"2.0": [], "2.1": []}
    for p in probes:
        d = p["data"]
        if p["variant"] == "base" and p["kind"] != "bundle" and isinstance(d.get("id"), str) and isinstance(d.get("type"), str) \
                and all(ch.isalnum() or ch in "-_" for ch in d["id"] + d["type"]):
            pool[p["ver"]].append(p)
    n = 300 if run.tier == "thorough" else 70
    cases = []
    if not pool["2.0"] or not pool["2.1"]:
        return cases
    for _ in range(n):
        k20, k21 = run.rng.choice([(1, 1), (1, 2), (2, 1), (2, 2)])
        items, types = [], set()
        for ver, k in (("2.0", k20), ("2.1", k21)):
            for p in run.rng.sample(pool[ver], min(len(pool[ver]), k + 2)):
                if p["data"]["type"] in types or sum(1 for it in items if it["version"] == ver) >= k:
                    continue
                types.add(p["data"]["type"])
                items.append({"data": p["data"], "version": ver, "cid": p["cid"]})
        run.rng.shuffle(items)
        cases.append({"op": "mixed", "items": items})
    return cases


def mixed_judge(r):
    """-> list of (via, text) where a version-less read of the mixed store does not give every object its own class back"""
    bad = []
    for via, got in r.get("got", {}).items():
        if "exc" in got:
            bad.append((via, "raised %s" % short(got["exc"] + [None])))
            continue
        for i, cls in r["want"].items():
            if got.get(i) != cls:
                bad.append((via, "%s (serialised from %s) came back as %s" % (i, short_cls(cls), short_cls(got[i]) if i in got else "nothing")))
    return bad


def mixed_oracle(run, probes):
    cases = mixed_cases(run, probes)
    res = common.run_impl("c14_impl", cases, procs=min(common.NCPU, 8))
    n_built = 0
    for c, r in zip(cases, res):
        run.count({"mixed": c}, nontrivial=r.get("built", 0) >= 2)
        if r.get("built", 0) < 2:
            continue
        n_built += 1
        for via, text in mixed_judge(r)[:2]:
            run.violations.append(Violation(
                "a store holding library output of both versions (%s; directory order %s), read through %s without a version: %s"
                % (", ".join(sorted(short_cls(x) for x in r["want"].values())), r.get("dir_order"), via, text),
                {"kind": "mixed", "case": c, "via": via}, finding=None))
    run.coverage["mixed_stores"] = n_built


def short_cls(c):
    if " +embedded" in c:
        head, tail = c.split(" +embedded", 1)
        return short_cls(head) + " (+embedded" + tail + ")"
    parts = c.split(".")
    ver = [x for x in parts if x in ("v20", "v21")]
    return (ver[0] + "." if ver else "") + parts[-1]


def short(o):
    if o[0] == "ok":
        return "accepted as %s" % (short_cls(o[1]) if o[1] else "<stored>")
    if o[0] == "exc":
        return "%s%s" % (o[1], "(%s.%s)" % (short_cls(o[2]), o[3]) if o[2] else "")
    return str(o)


def correspond_models(run, md, reg, probes):
    n = 4000 if run.tier == "thorough" else 700
    dicts = gen_detect_dicts(run, reg, n)
    obs21 = common.coq_list([common.coq_ustr(t) for t in reg["2.1/observables"]])
    header = HEADER + "Definition md := %s.\nDefinition im := %s.\nDefinition obs21 := %s.\nDefinition R := %s.\n" % (
        coq_mode(md), coq_idmode(md), obs21, coq_reg(reg))
    # detect
    cases = [{"op": "detect", "data": d} for d in dicts]
    impl = common.run_impl("c14_impl", cases, procs=4)
    model = common.coq_eval_lines("c14d", header, ["show_dres (detect md obs21 %s)" % common.coq_jvalue(d) for d in dicts], shard=250)
    dis = []
    for d, i, m in zip(dicts, impl, model):
        si = show_detect_impl(i)
        nontrivial = isinstance(d, dict) and d.get("type") == "bundle" and "objects" in d
        run.count({"detect": d}, nontrivial=nontrivial)
        if m == "OUTSIDE" or si == "OUTSIDE":
            continue
        if si != m:
            dis.append({"data": d, "impl": si, "model": m})
    run.coverage["detect_cases"] = len(dicts)
    run.coverage["detect_disagreements"] = len(dis)
    if dis:
        run.coverage["detect_first_disagreements"] = dis[:8]
        run.broken.append(Broken("correspondence", "Model/VersionDetect.v detect vs stix2.utils.detect_spec_version", {"first": dis[:5]}))
    run.sample({"detect": dicts[3], "impl": show_detect_impl(impl[3]), "model": model[3]})

    # class choice
    pdicts = [d for d in dicts if isinstance(d, dict) and not any(isinstance(d.get(k), float) for k in d)][: n // 2]
    for p in probes[:: max(1, len(probes) // 120)]:
        pdicts.append({k: v for k, v in p["data"].items() if k in ("type", "id", "spec_version")})
    exts = [{"extension-definition--" + V1: {"extension_type": "new-sdo"}},
            {"extension-definition--" + V1: {"extension_type": "property-extension"}},
            {"extension-definition--" + V1: {}}, {"x-ext": {"extension_type": "new-sdo"}}, {}]
    for k, e in enumerate(exts):
        pdicts.append({"type": "x-c14-ext", "id": "x-c14-ext--" + V1, "extensions": e, "spec_version": "2.1"})
    pcases, terms = [], []
    for k, d in enumerate(pdicts):
        for fn in ("parse", "parse_observable"):
            if fn == "parse_observable" and k % 3:
                continue
            ac = bool((k // 2) % 2)
            v = [None, "2.0", "2.1", "2.2", ""][k % 5]
            pcases.append({"op": "pick", "fn": fn, "data": d, "ac": ac, "version": v})
            terms.append("show_pick (%s md R %s %s %s)" % (
                "pick_object" if fn == "parse" else "pick_observable", common.coq_bool(ac),
                "None" if v is None else "(Some %s)" % common.coq_ustr(v), common.coq_jvalue(d)))
    impl = common.run_impl("c14_impl", pcases, procs=4)
    model = common.coq_eval_lines("c14p", header, terms, shard=250)
    dis = []
    for c, i, m in zip(pcases, impl, model):
        si = show_pick_impl(i)
        run.count({"pick": c}, nontrivial=m.startswith("class"))
        if m == "detect ParseError":
            m = "ParseError"        # the same exception class, raised inside detect_spec_version (variant notype_parse)
        if m == "OUTSIDE" or si == "OUTSIDE":
            continue
        if si != m:
            dis.append({"case": c, "impl": si, "model": m})
    run.coverage["pick_cases"] = len(pcases)
    run.coverage["pick_disagreements"] = len(dis)
    if dis:
        run.coverage["pick_first_disagreements"] = dis[:8]
        run.broken.append(Broken("correspondence", "Model/VersionDetect.v class choice vs parse / parse_observable", {"first": dis[:5]}))

    # id check
    ids = gen_ids(run, 6000 if run.tier == "thorough" else 1200)
    icases, terms = [], []
    for k, s in enumerate(ids):
        sv = ["2.0", "2.1", "2.1", "2.0", "2.2"][k % 5]
        io_ = bool((k // 5) % 2)
        kind = "ref" if k % 7 == 0 else "id"
        if kind == "ref" and sv == "2.2":
            sv = "2.1"      # ReferenceProperty consults the registry of its spec_version after the id check
        icases.append({"op": "idcheck", "kind": kind, "type": "identity", "spec_version": sv, "interop": io_, "value": s})
        terms.append("show_vres (validate_id im %s %s %s %s)" % (common.coq_ustr(s), common.coq_ustr(sv),
                                                              common.coq_ustr("identity--") if kind == "id" else "[]",
                                                              common.coq_bool(io_)))
    impl = common.run_impl("c14_impl", icases, procs=4)
    model = common.coq_eval_lines("c14i", header, terms, shard=400)
    dis = []
    for c, i, m in zip(icases, impl, model):
        si = i[0] if i[0] in ("ok", "invalid", "bad-prefix") else ("ok" if c["kind"] == "ref" and i[0] in ("ValueError", "CustomContentError") else "exc " + str(i))
        run.count({"id": c}, nontrivial=True)
        if m == "OUTSIDE":
            continue
        if si != m:
            dis.append({"case": c, "impl": si, "model": m})
    run.coverage["idcheck_cases"] = len(icases)
    run.coverage["idcheck_disagreements"] = len(dis)
    if dis:
        run.coverage["idcheck_first_disagreements"] = dis[:8]
        run.broken.append(Broken("correspondence", "Model/IdCheck.v validate_id vs IDProperty/ReferenceProperty.clean", {"first": dis[:5]}))


SCHEMA_HEADER = """From Coq Require Import NArith ZArith List String.
From V Require Import Base.UString Base.Json Model.SchemaTypes Model.PyBase Model.Schema Model.VersionDetect Gen.Tables Proofs.C14SchemaAgree.
Import ListNotations. Open Scope string_scope.
Definition show_sres (r : result (option ver)) : string :=
  match r with
  | Ok (Some V20) => "V20" | Ok (Some V21) => "V21" | Ok None => "none"
  | Err EValueError => "ValueError" | Err (EOther n) => show_ustr n
  | Err _ => "Err-other" | Unmodelled => "unmodelled"
  end.
"""


def schema_stream(run, md):
    """the two models of detect_spec_version against each other on generated dictionaries (world = Gen/Tables.v):
    the success side is a theorem (Props/C14Schema.v); this also looks at the error side"""
    n = 1500 if run.tier == "thorough" else 300
    dicts = [d for d in gen_detect_dicts(run, {"2.0/objects": ["identity", "indicator"], "2.1/objects": ["identity", "grouping"],
                                               "2.0/observables": ["file"], "2.1/observables": ["file", "url", "software"]}, n)
             if isinstance(d, dict) and not has_float(d)]
    header = SCHEMA_HEADER + "Definition md := %s.\nDefinition vr := %s.\n" % (
        coq_mode(md), "variant_repaired" if md["bundle_default"] else "variant_pinned")
    terms = []
    for d in dicts:
        j = common.coq_jvalue(d)
        terms.append('match %s with JObj m => show_sres (Schema.detect_version vr lib 60 m) ++ " | " ++ '
                     'show_dres (VersionDetect.detect md (obs21_of lib) (JObj m)) | _ => "nondict" end' % j)
    lines = common.coq_eval_lines("c14s", header, terms, shard=150)
    succ_bad, err_diff, skipped = [], [], 0
    for d, ln in zip(dicts, lines):
        a, b = ln.split(" | ", 1)
        if a == "unmodelled":
            skipped += 1
            continue
        if a in ("V20", "V21"):
            good = b == "V '%s'" % {"V20": "2.0", "V21": "2.1"}[a]
        elif a == "none":
            good = b.startswith("V ") and b not in ("V '2.0'", "V '2.1'") and not b.startswith("V [") and not b.startswith("V {")
        elif a == "KeyError":
            good = b.startswith("KeyError") or b == "ParseError"
        elif a == "ParseError":       # schema model with its variant for 3b082cc (a member without `type`)
            good = b == "ParseError"
        elif a == "TypeError":
            good = b == "TypeError" or b.startswith("V [") or b.startswith("V {")
        elif a == "ValueError":
            good = b == "ValueError"
        else:
            good = False
        if not good:
            (succ_bad if a in ("V20", "V21", "none") else err_diff).append({"data": d, "schema": a, "c14": b})
    run.coverage["schema_stream_cases"] = len(dicts)
    run.coverage["schema_stream_unmodelled_by_schema"] = skipped
    run.coverage["schema_stream_error_side_differences"] = len(err_diff)
    run.coverage["schema_stream_error_side_first"] = err_diff[:5]
    if succ_bad:
        run.broken.append(Broken("correspondence", "Model/Schema.v detect_version vs Model/VersionDetect.v detect (success side)",
                                 {"first": succ_bad[:5]}))


def replay(payload):
    r = payload["replay"]
    if r.get("kind") == "entry":
        e, cfg, d = r["entry"], r["cfg"], r["data"]
        rgrid = DIRECT_GRID + ([(ac, io_, cfg["version"]) for ac in (False, True) for io_ in (False, True)]
                               if cfg.get("version") not in (None, "2.0", "2.1") else [])
        direct = [["parse", ac, io_, v] for ac, io_, v in rgrid] + [["parse_observable", ac, io_, v] for ac, io_, v in rgrid]
        res = common.run_impl("c14_impl", [{"op": "probe", "data": d, "entries": [[e, cfg]], "direct": direct,
                                            "direct_bundle": [list(x) for x in DIRECT_GRID],
                                            "direct_bundle1": [list(x) for x in DIRECT_GRID]}], procs=1,
                              args=(("taxii",) if e.startswith("taxii.") else ("workbench",) if e.startswith("workbench.") else ()))[0]
        out, own = res["entries"][0], res["own"][0]
        table = {tuple(k): o for k, o in zip(direct, res["direct"])}
        for k, o in zip(DIRECT_GRID, res["direct_bundle"]):
            table[("bundlefile",) + tuple(k)] = o
        for k, o in zip(DIRECT_GRID, res["direct_bundle1"]):
            table[("bundlefile1",) + tuple(k)] = o
        v = cfg.get("version")
        fn = bundle_fn(cfg) if whole_bundle(e, cfg) else own[0]
        if out[0] == "skip":
            print("the input can no longer be built as an object: nothing to replay")
            return 0
        if cfg.get("form") == "object":
            if out[0] != "ok":
                print("the object form was refused (%s): not compared" % short(out))
                return 0
            out = [out[0], out[1], None, out[3]]
        want = table[(fn, own[1], own[2], v)]
        print("replay %s(%s) with %s" % (e, json.dumps(d)[:200], cfg))
        print("  entry point : %s%s" % (short(out), "" if out[-1] is None or out[0] not in ("ok", "exc") else "  (class registered for %s)" % out[-1]))
        print("  direct %s(.., allow_custom=%s, interoperability=%s, version=%r): %s" % (fn, own[1], own[2], v, short(want)))
        bad = v is not None and not outcomes_equal(out, want)
        if v is not None and not fn.startswith("bundlefile") and out[0] in ("ok", "exc") and out[-1] is not None and v not in out[-1]:
            print("  the content was interpreted as version %s, not the version named (%s)" % (out[-1], v))
            bad = True
        if bad:
            print("VIOLATION property=C14 replay=(given)")
            return 1
        print("no violation on this input")
        return 0
    if r.get("kind") == "idpos":
        c = r["case"]
        res = common.run_impl("c14_impl", [c], procs=1)[0]
        print("replay: UUID %s under spec version %s, interoperability=%s: %s" % (c["value"], c["spec_version"], c["interop"], res))
        if idpos_bad(c, res):
            print("VIOLATION property=C14 replay=(given)")
            return 1
        print("no violation on this input")
        return 0
    if r.get("kind") == "collide":
        col = common.run_impl("c14_impl", [{"op": "collide", "name": r["name"]}], procs=1)[0]
        print("replay: custom 2.0 object %s" % col["text"][:200])
        print("  handed back without a version: %s; after a custom 2.1 observable of the same name is registered: %s; "
              "then with version='2.0': %s" % (col["before"], col["after"], col["after_named_20"]))
        if not (col["before"][:2] == col["after"][:2] == col["after_named_20"][:2] == ["ok", "same-class"]):
            print("VIOLATION property=C14 replay=(given)")
            return 1
        print("no violation on this input")
        return 0
    if r.get("kind") == "mixed":
        res = common.run_impl("c14_impl", [r["case"]], procs=1)[0]
        print("replay mixed-version store: %s, directory order %s" % (
            {i: short_cls(k) for i, k in res.get("want", {}).items()}, res.get("dir_order")))
        bad = [b for b in mixed_judge(res) if b[0] == r.get("via")] or mixed_judge(res)
        for via, text in bad[:4]:
            print("  through %s without a version: %s" % (via, text))
        if bad:
            print("VIOLATION property=C14 replay=(given)")
            return 1
        print("no violation on this input")
        return 0
    if r.get("kind") == "order":
        c = r["case"]
        alone = common.run_impl("c14_impl", [dict(c, first=c["second"], prime=c["fresh"])], procs=1)[0]
        seq = common.run_impl("c14_impl", [c], procs=1)[0]
        print("replay %s on %s: first parse(.., version=%r) -> %s; then %s(.., version=%r) -> %s" % (
            c["how"], json.dumps(c["seen"])[:160], c["first"], short(seq["prime"]), c["entry"], c["second"], short(seq["after"])))
        print("  the second question asked first, in a fresh interpreter: %s" % short(alone["after"]))
        if not outcomes_equal(seq["after"], alone["after"]):
            print("VIOLATION property=C14 replay=(given)")
            return 1
        print("no violation on this input")
        return 0
    if r.get("kind") == "own":
        c = r["case"]
        res = common.run_impl("c14_impl", [c], procs=1)[0]
        print("replay %s" % json.dumps(c)[:300])
        if not res.get("built"):
            print("  the object can no longer be built: %s" % (res.get("why"),))
            print("no violation on this input")
            return 0
        got = res["via"].get(r["via"])
        print("  serialised as %s" % res["text"][:200])
        print("  through %s without a version: %s (built as %s)" % (r["via"], got, res["class"]))
        if got != ["ok", res["class"]]:
            print("VIOLATION property=C14 replay=(given)")
            return 1
        print("no violation on this input")
        return 0
    print("nothing to replay (no failing input was recorded)")
    return 0

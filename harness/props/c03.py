"""C03 -- every specification-valid object is accepted and its content preserved.

Proof side: coq/Props/C03.v (the table-direction side condition spec_refines: everything the frozen
specification's tables allow is let through by the tables regenerated from /repo, kernel-evaluated;
the interpreter-level theorem spec_complete is stated there and labelled partial).  Tie: tr_tables +
the shared correspondence of Model/Schema.v.  Oracle: objects generated from the FROZEN spec that the
kernel-evaluated validator Spec/StixValid.v accepts are parsed in strict mode alone, inside a bundle
and inside an observed-data container; each must be accepted and every input property must come back
(timestamps as instants), with nothing added but optional properties at their default value.
"""
import datetime
import json
import re
from fractions import Fraction

import common
from common import Broken, Violation
from props import schema_common as sc
import stixgen
import tr_tables

MANIFEST = {
    "text": "PROVED (Coq, closed under the global context; Props/C03.v, 8 theorems), all at the level of ONE class "
            "constructor called with an explicit class id -- parse dispatch, bundles and observed-data containers are "
            "oracle / correspondence only: (1) spec_refines_lib_modulo_failures -- the decidable table "
            "condition 'every value rule / required set / co-constraint of the class tables regenerated from /repo is no "
            "stricter than the frozen specification's', kernel-evaluated on every run, failures named slot by slot; (2) "
            "clean_complete_partial / clean_complete_partial_wide -- for arbitrary tables and every JSON value: a value the "
            "specification's rule accepts is let through by Property.clean in strict mode without custom flag and serializes "
            "back to the same value (timestamps as instants, floats by value), for the kinds named by kind_complete / "
            "kind_complete2 (string-like, fixed, integer, boolean, enumeration, hexadecimal, dictionary, identifier, reference, "
            "selector, timestamp, float, lists of those) and representable values (jin_ok: at most six fraction digits, "
            "|integer given for a float| < 10^16); (3) spec_complete_partial / spec_complete_partial_defaults (+ the "
            "_generated_tables instances) -- for arbitrary tables with spec_refines sp w and a variant with year padding, "
            "upper-case selector segments and the repaired positional __init__ (variant_complete: vr_year_pad, vr_sel_upper, "
            "vr_positional_none): the members of a spec-valid object (any validator fuel, distinct keys) are accepted by the "
            "strict constructor, every given property is stored with the same value (jsame), and every OTHER stored property "
            "is a property with a default holding exactly that default (default_entry: the fixed value / the constructor's "
            "clock reading cleaned for the property's precision / prefix + uuid4 / the constant; for the id of a 2.1 observable "
            "the deterministic type--uuid5) -- the older spec_complete_partial only says 'the slot has some default'. "
            "COVERAGE, both explicit boolean predicates: class_complete = 120 of 123 generated classes (kernel-computed "
            "lib_complete in the evidence; outside: 2.1 Indicator, both MarkingDefinition classes); input_complete = EVERY "
            "given member is of a kind in kind_complete2 (above) -- so an input that gives `hashes` (KHashes), `payload_bin` "
            "(KBinary), `external_references`, `kill_chain_phases`, any other embedded object or list of objects (KEmbedded / "
            "KListOf), an observable container, bundle members, a marking `definition`, `extensions` or `granular_markings`, "
            "or (for a directly constructed 2.0 observable) an object reference, is OUTSIDE the theorem: most real SDOs that "
            "carry external_references or kill_chain_phases are outside; a typical covered input is an SDO / SRO / SCO given "
            "by its scalar, timestamp, reference, vocabulary, string-list and dictionary properties. Example "
            "hypotheses_satisfiable_ipv4 evaluates every hypothesis on a concrete input. CORRESPONDENCE / ORACLE ONLY (not "
            "proved): parse dispatch, bundles and observed-data containers, nested objects of every kind, hashes, binary, "
            "extensions, granular markings, the three uncovered classes.",
    "design_ref": "DESIGN.md 6/C03, Appendix A.7; design_notes/C02-C03.md",
    "note": "Trusted: Coq kernel + vm_compute, tr_tables, the frozen specification tables /verif/spec (seeded from the "
            "pinned library's own tables, audited overrides on top) and Spec/StixValid.v "
            "(valid_obj_x -- valid_obj plus strict base64 for binary properties, no null / empty list inside dictionary "
            "values, definition matching definition_type, STIX 2.0 object references naming a member of their container of "
            "an allowed type -- selects the spec-valid generated candidates; the theorems are stated with valid_obj / "
            "valid_kind, which admit MORE inputs, so they stay true; created <= modified is a co-constraint of the frozen "
            "tables and thus part of both), the preservation comparison of this file (JSON "
            "equality; timestamps as exact rational instants; additions only default-valued optionals, pattern_version "
            "only for STIX patterns), the Python check "
            "that 2.0 object references are well typed. Oracle: ~1400 presentations per quick run (alone / bundle / "
            "observed-data container / call sequences in one process / JSON text and file-object argument forms); the "
            "implementation worker runs under a local time zone 14 h from UTC.",
    "technique": "Coq proof over the shared interpreter model + kernel-evaluated table refinement; oracle on the real "
                 "parse/serialize round trip of generated spec-valid objects; model correspondence on the same calls",
}

U = "8d1c5bdf-5a0e-4b8e-9a3c-1f2e3d4c5b6a"
T0 = "2016-01-01T00:00:00.000Z"
F_FRAC7 = "C03-timestamp-more-than-six-fraction-digits"
F_POS = "C03-positional-argument-falsy-value-dropped"

TS_RE = re.compile(r"^(\d{4})-(\d{2})-(\d{2})T(\d{2}):(\d{2}):(\d{2})(?:\.(\d+))?Z$")


def instant(s):
    m = TS_RE.match(s)
    if not m:
        return None
    y, mo, d, h, mi, se = (int(x) for x in m.groups()[:6])
    try:
        base = datetime.datetime(y, mo, d, h, mi, min(se, 59), tzinfo=datetime.timezone.utc)
    except ValueError:
        return None
    whole = int((base - datetime.datetime(1, 1, 1, tzinfo=datetime.timezone.utc)).total_seconds()) + (se - min(se, 59))
    fr = m.group(7)
    return Fraction(whole) + (Fraction(int(fr), 10 ** len(fr)) if fr else 0)


def default_pairs(spec):
    """(property name, default value as JSON text) for every optional-with-default / fixed slot of the frozen spec."""
    out = set()
    for c in spec["classes"].values():
        for s in c["slots"]:
            d = s["default"]
            if d["d"] == "const":
                out.add((s["name"], json.dumps(d["v"], sort_keys=True)))
            elif d["d"] == "fixed":
                out.add((s["name"], json.dumps(s["kind"]["v"])))
    # STIX 2.1 indicator: pattern_version defaults to the specification version for STIX patterns
    # (the class sets it in __init__, not as a property default)
    out.add(("pattern_version", json.dumps("2.1")))
    return out


def preserved(inp, out, defaults, path=""):
    """None if `out` carries everything of `inp`; else a description of the first loss."""
    if isinstance(inp, dict):
        if not isinstance(out, dict):
            return "%s: object became %s" % (path or ".", type(out).__name__)
        for k, v in inp.items():
            if k not in out:
                return "%s.%s: property lost" % (path, k)
            r = preserved(v, out[k], defaults, path + "." + k)
            if r:
                return r
        for k, v in out.items():
            if k not in inp and (k, json.dumps(v, sort_keys=True)) not in defaults:
                return "%s.%s: property added with a non-default value %s" % (path, k, json.dumps(v)[:80])
            # pattern_version has a default ("2.1", the specification version) only for the STIX pattern language
            if k == "pattern_version" and k not in inp and "pattern_type" in inp and inp["pattern_type"] != "stix":
                return "%s.%s: property added (%s) although pattern_type is %s, which has no such default" % (
                    path, k, json.dumps(v)[:40], json.dumps(inp["pattern_type"])[:40])
        return None
    if isinstance(inp, list):
        if not isinstance(out, list) or len(inp) != len(out):
            return "%s: list changed" % (path or ".")
        for i, (a, b) in enumerate(zip(inp, out)):
            r = preserved(a, b, defaults, "%s[%d]" % (path, i))
            if r:
                return r
        return None
    if isinstance(inp, bool) or isinstance(out, bool):
        return None if inp is out else "%s: %r became %r" % (path, inp, out)
    if inp == out and type(inp) is type(out) or (isinstance(inp, (int, float)) and isinstance(out, (int, float)) and inp == out):
        return None
    if isinstance(inp, str) and isinstance(out, str):
        a, b = instant(inp), instant(out)
        if a is not None and a == b:
            return None
    return "%s: %s became %s" % (path, json.dumps(inp)[:80], json.dumps(out)[:80])


# ---------------------------------------------------------------------------
# generation of spec-valid candidates

def boundary_fill(g, cid, o, rng):
    """Legal value shapes the plain generator rarely hits: boundary numbers, false / 0 / '' values, every
    vocabulary entry, every reference target, sub-second timestamps with up to six digits."""
    c = g.classes[cid]
    x = dict(o)
    for s in c["slots"]:
        k, n = s["kind"], s["name"]
        if n not in x or rng.random() < 0.5:
            continue
        t = k["k"]
        if t == "int":
            # 64-bit integers in STIX 2.0, +-(2**53 - 1) in 2.1: the ends and the first values a double cannot hold
            big = [2 ** 53 + 1, 2 ** 53 - 1, 2 ** 63 - 1, -(2 ** 63), 9007199254740993] if c["ver"] == "2.0" else [2 ** 53 - 1, -(2 ** 53 - 1)]
            cands = [v for v in [k["min"], k["max"], 0] + big
                     if v is not None and (k["min"] is None or v >= k["min"]) and (k["max"] is None or v <= k["max"])]
            if cands:
                x[n] = rng.choice(cands)
        elif t == "float":
            cands = [float(v) for v in (k["min"], k["max"], 0) if v is not None and (k["min"] is None or v >= k["min"]) and (k["max"] is None or v <= k["max"])]
            if cands:
                x[n] = rng.choice(cands)
        elif t == "bool":
            x[n] = False
        elif t == "string" and not s["required"] and n not in ("definition_type", "pattern_version"):
            # (pattern_version names a version of the pattern language: "" / "0" are not certainly legal values, and
            # v21 Indicator.__init__ replaces a falsy one by "2.1")
            x[n] = rng.choice(["", "0", "false", x[n]])
        elif t == "enum":
            x[n] = rng.choice(k["allowed"])
        elif t == "time" and n not in ("created", "modified"):
            pass
        elif t == "binary":
            # RFC 4648 text of every length class (0, 1, 2, 3 bytes), both special alphabet characters
            x[n] = rng.choice(["", "QQ==", "QUI=", "QUJD", "/+8=", "++++", x[n]])
    # the boundary of the common-property rule created <= modified: equal instants
    if stixgen.versioned(c) and isinstance(x.get("created"), str) and "modified" in x and rng.random() < 0.3:
        x["modified"] = x["created"]
    return x


def random_fraction_timestamps(g, cid, o, rng):
    """created/modified (and other timestamps) with random 1..6-digit fractions, order kept."""
    c = g.classes[cid]
    x = dict(o)
    names = [s["name"] for s in c["slots"] if s["kind"]["k"] == "time" and s["name"] in x]
    if not names:
        return None
    base = 1451606400 + rng.randrange(10 ** 8)
    for i, n in enumerate(sorted(names, key=lambda n: x[n])):
        d = datetime.datetime.fromtimestamp(base + 3600 * i, datetime.timezone.utc)
        digits = rng.choice([6, 6, 6, 5, 4, 3, 2, 1])
        frac = "%06d" % rng.randrange(10 ** 6)
        x[n] = d.strftime("%Y-%m-%dT%H:%M:%S") + "." + frac[:digits] + "Z"
    return x


def long_list_marking(g, cid, o, rng):
    """A granular marking addressing a list element with a two-digit index."""
    c = g.classes[cid]
    if not any(s["name"] == "granular_markings" for s in c["slots"]):
        return None
    lists = [s["name"] for s in c["slots"] if s["kind"]["k"] == "list" and s["kind"]["of"]["k"] in ("string", "openvocab")]
    if not lists:
        return None
    n = rng.choice(lists)
    x = dict(o)
    size = rng.choice([12, 12, 101, 102, 256, 1001])
    x[n] = ["item-%04d" % i for i in range(size)]
    idx = rng.choice([10, 11]) if size == 12 else rng.choice([size - 1, size - 2, 100])
    x["granular_markings"] = [{"selectors": ["%s.[%d]" % (n, idx), "%s.[0]" % n], "marking_ref": "marking-definition--" + g.uuid()}]
    return x


def t_required(c, name):
    return any(s["name"] == name and s["required"] for s in c["slots"])


def dict_and_socket_candidates(g, rng):
    """Every dictionary-kind property of every class with a key exactly on the length bounds of ITS specification
    version (2.0: 3 and 256; 2.1: 1 and 250), and socket-ext `options` with every legal key shape (family prefix followed
    by one, two or more underscore-separated parts)."""
    out = []
    for cid, c in g.classes.items():
        for s in c["slots"]:
            k = s["kind"]
            if k["k"] != "dict":
                continue
            refslots = {t["name"] for t in c["slots"] if t["kind"]["k"] == "objref" or
                        (t["kind"]["k"] == "list" and t["kind"]["of"]["k"] == "objref") or t["name"] == "extensions"}
            for n in ((3, 256, 255) if k["ver"] == "2.0" else (1, 250, 249)):
                # (no object references / extensions: the candidate must stay valid inside any container)
                x = {kk: v for kk, v in g.obj(cid, 0, {"safe": True}, optional_p=0.3).items()
                     if kk not in refslots or t_required(c, kk)}
                val = 1 if (c["name"] == "SocketExt" and s["name"] == "options") else "v"
                key = ("SO_" + "k" * (n - 3)) if (c["name"] == "SocketExt" and s["name"] == "options" and n >= 3) else "k" * n
                if c["name"] == "SocketExt" and s["name"] == "options" and n < 3:
                    continue
                if c["name"] == "LanguageContent":
                    continue
                x[s["name"]] = {key: val}
                out.append((cid, x, "dict-key-on-bound"))
        if c["name"] == "SocketExt":
            for i in range(0, len(stixgen.SOCKET_KEYS), 3):
                x = dict(g.obj(cid, 0, {"safe": True}, optional_p=0.3))
                x["options"] = {key: 7 for key in stixgen.SOCKET_KEYS[i:i + 3]}
                out.append((cid, x, "socket-option-keys"))
    return out


TARGETS = {
    "ipv4-addr": {"type": "ipv4-addr", "value": "198.51.100.3"}, "ipv6-addr": {"type": "ipv6-addr", "value": "2001:db8::1"},
    "mac-addr": {"type": "mac-addr", "value": "d2:fb:49:24:37:18"}, "domain-name": {"type": "domain-name", "value": "example.com"},
    "email-addr": {"type": "email-addr", "value": "a@example.com"}, "file": {"type": "file", "name": "a.txt"},
    "directory": {"type": "directory", "path": "/tmp"}, "artifact": {"type": "artifact", "payload_bin": "aGVsbG8="},
    "user-account": {"type": "user-account", "user_id": "1001"}, "software": {"type": "software", "name": "s"},
    "autonomous-system": {"type": "autonomous-system", "number": 15139}, "url": {"type": "url", "value": "https://example.com/"},
    "network-traffic": {"type": "network-traffic", "src_ref": "9", "protocols": ["tcp"]},
    "process": {"type": "process", "pid": 1}, "mutex": {"type": "mutex", "name": "m"},
    "email-message": {"type": "email-message", "is_multipart": False},
    "windows-registry-key": {"type": "windows-registry-key", "key": "HKLM\\\\x"}, "x509-certificate": {"type": "x509-certificate", "serial_number": "01"},
}


def container_for(g, cid, o, rng):
    """A 2.0 observed-data `objects` dictionary around the SCO `o` (key "0") in which every object reference
    of `o` points FORWARD to a member of an allowed type; None when a reference cannot be satisfied."""
    c = g.classes[cid]
    members = {"0": None}
    x = dict(o)
    nxt = [1]

    def target(valid_types):
        pool = [t for t in (valid_types or ["ipv4-addr", "file", "domain-name"]) if t in TARGETS and t != "network-traffic"]
        if not pool:
            return None
        key = str(nxt[0])
        nxt[0] += 1
        members[key] = dict(TARGETS[rng.choice(pool)])
        return key

    for s in c["slots"]:
        k, n = s["kind"], s["name"]
        if n not in x:
            continue
        if k["k"] == "objref":
            t = target(k.get("valid_types"))
            if t is None:
                return None
            x[n] = t
        elif k["k"] == "list" and k["of"]["k"] == "objref":
            ts = [target(k["of"].get("valid_types")) for _ in range(rng.choice([1, 2]))]
            if None in ts:
                return None
            x[n] = ts
        elif k["k"] in ("listof", "embedded", "extensions"):
            # nested references are left to the plain generator (self-contained objects only)
            if "_ref" in json.dumps(x[n]):
                return None
    members["0"] = x
    return members


def refs_well_typed(g, cid, o, container=None):
    """Object references of STIX 2.0 observables (keys into the enclosing `objects` dictionary) exist and point
    to an allowed type -- something the table-driven validator does not look at, so candidates are filtered here."""
    c = g.classes.get(cid)
    if c is None or not isinstance(o, dict):
        return True
    for s in c["slots"]:
        k, n = s["kind"], s["name"]
        if n not in o:
            continue
        v = o[n]
        if k["k"] == "observable" and k["ver"] == "2.0":
            if not isinstance(v, dict):
                return False
            for key, m in v.items():
                mc = g.reg["2.0"]["observables"].get(m.get("type")) if isinstance(m, dict) else None
                if mc is None or not refs_well_typed(g, mc, m, v):
                    return False
        elif k["k"] == "objref" or (k["k"] == "list" and k["of"]["k"] == "objref"):
            if c["ver"] != "2.0":
                continue
            if container is None:
                return False
            allowed = (k if k["k"] == "objref" else k["of"]).get("valid_types")
            for ref in ([v] if k["k"] == "objref" else (v if isinstance(v, list) else [None])):
                t = container.get(ref) if isinstance(ref, str) else None
                if not isinstance(t, dict) or (allowed and t.get("type") not in allowed):
                    return False
        elif k["k"] == "embedded":
            if not refs_well_typed(g, k["cls"], v, container):
                return False
        elif k["k"] == "listof":
            if not isinstance(v, list) or not all(refs_well_typed(g, k["cls"], e, container) for e in v):
                return False
        elif k["k"] == "extensions" and isinstance(v, dict):
            for en, e in v.items():
                ec = g.reg[c["ver"]]["extensions"].get(en)
                if ec and not refs_well_typed(g, ec, e, container):
                    return False
    return True


def wrap_cases(g, cid, o, rng):
    """The contexts one spec-valid candidate is presented in: list of (context, case, extractor path)."""
    c = g.classes[cid]
    ver = c["ver"]
    out = []
    top = sc.is_toplevel(g, cid)
    fam = c["family"]
    if top and not (fam == "sco" and ver == "2.0"):
        out.append(("alone", {"op": "parse", "cid": cid, "data": o, "allow": False, "interop": False}, []))
    elif not top:
        out.append(("alone", {"op": "construct", "cid": cid, "data": o, "allow": False, "interop": False}, []))
    if top and c["type"] != "bundle" and not (fam == "sco" and ver == "2.0"):
        b = {"type": "bundle", "id": "bundle--" + g.uuid(), "objects": [o]}
        if ver == "2.0":
            b["spec_version"] = "2.0"
        out.append(("bundle", {"op": "parse", "cid": ver + "/Bundle", "data": b, "allow": False, "interop": False}, ["objects", 0]))
    if fam == "sco" and top:
        if ver == "2.0":
            members = container_for(g, cid, o, rng)
        else:
            members = {"0": o}
        if members is not None:
            od = {"type": "observed-data", "id": "observed-data--" + g.uuid(), "created": T0, "modified": T0,
                  "first_observed": T0, "last_observed": T0, "number_observed": 1, "objects": members}
            if ver == "2.1":
                od["spec_version"] = "2.1"
            out.append(("observed-data", {"op": "parse", "cid": ver + "/ObservedData", "data": od, "allow": False, "interop": False},
                        ["objects", "0"]))
    return out


def gen_candidates(run, g, per_class):
    rng = run.rng
    cands = []
    for cid in g.classes:
        for i in range(per_class):
            o = g.obj(cid, 0, {"safe": i % 2 == 0}, optional_p=[0.0, 0.35, 0.7, 1.0][i % 4])
            if rng.random() < 0.3:
                g.add_granular_markings(cid, o)
            cands.append((cid, o, "plain"))
            if i % 2 == 1:
                cands.append((cid, boundary_fill(g, cid, o, rng), "boundary"))
        base = g.obj(cid, 0, {"safe": True}, optional_p=0.5)
        x = random_fraction_timestamps(g, cid, base, rng)
        if x:
            cands.append((cid, x, "fractions"))
            x2 = random_fraction_timestamps(g, cid, base, rng)
            cands.append((cid, x2, "fractions"))
        x = long_list_marking(g, cid, base, rng)
        if x:
            cands.append((cid, x, "long-list-marking"))
        # granular markings addressing every path shape of the object itself (top-level, list element, property of an
        # embedded object inside a list, dictionary key, nested)
        rich = g.obj(cid, 0, {"safe": True}, optional_p=0.9)
        x = stixgen.path_marked(g, cid, rich)
        if x:
            cands.append((cid, x, "path-selectors"))
        # legal shapes at unusual sizes: lists of 1..256 elements, strings of length 0 / 1 / 255 / 256, dictionary keys of
        # a bound length, dictionary values nested up to 64 deep
        for lab, _slot, x in stixgen.size_variations(g, cid, base)[:1]:
            cands.append((cid, x, "size"))
        if cid == "2.1/Indicator":
            # pattern languages other than STIX: no pattern validator, no pattern_version default
            for pt, pat in (("snort", 'alert tcp any any -> any any (msg:"x"; sid:1;)'), ("yara", "rule r { condition: true }"),
                            ("pcre", "^a+$"), ("sigma", "title: t"), ("suricata", "alert ip any any -> any any (sid:2;)")):
                x = dict(g.obj(cid, 0, {"safe": True}, optional_p=rng.choice([0.0, 0.5])))
                x["pattern_type"], x["pattern"] = pt, pat
                x.setdefault("valid_from", "2016-01-01T00:00:00Z")
                x.pop("valid_until", None)
                x["created"], x["modified"] = "2016-01-01T00:00:00.000Z", "2016-01-02T00:00:00.123Z"
                x.pop("pattern_version", None)
                if rng.random() < 0.4:
                    x["pattern_version"] = rng.choice(["3.0", "4.2.1", "2.0"])
                cands.append((cid, x, "non-stix-pattern"))
    return cands


def bound_candidates(g, rng):
    """Every declared numeric bound, once: for each distinct (property name, kind, min, max) of the frozen tables an
    object of the first class that has it, with the property exactly ON the bound (inclusive bounds: the poles, the
    antimeridian, precision 0.0, confidence 0 / 100, port 0 / 65535 ...)."""
    seen, out = set(), []
    for cid, c in g.classes.items():
        for s in c["slots"]:
            k = s["kind"]
            if k["k"] not in ("int", "float") or (k.get("min") is None and k.get("max") is None):
                continue
            sig = (s["name"], k["k"], k.get("min"), k.get("max"))
            if sig in seen:
                continue
            seen.add(sig)
            for b in (k.get("min"), k.get("max")):
                if b is None:
                    continue
                for p in (0.8, 0.3):
                    x = dict(g.obj(cid, 0, {"safe": True}, optional_p=p))
                    x[s["name"]] = float(b) if k["k"] == "float" else int(b)
                    if c["name"] == "Location" and s["name"] in ("latitude", "longitude", "precision"):
                        x.setdefault("latitude", 1.5)
                        x.setdefault("longitude", -2.5)
                    out.append((cid, x, "on-bound"))
    return out


def extension_orders(g, rng):
    """2.1 objects with two or three extensions of mixed kinds (unregistered toplevel-property-extension with its
    extra top-level properties, unregistered property-extension, a registered extension) in every order."""
    import itertools
    out = []
    for cid in ("2.1/Identity", "2.1/Malware", "2.1/File", "2.1/Note"):
        base = g.obj(cid, 0, {"safe": True}, optional_p=0.0)
        base.pop("extensions", None)
        top = ("extension-definition--" + g.uuid(), {"extension_type": "toplevel-property-extension"})
        prop = ("extension-definition--" + g.uuid(), {"extension_type": "property-extension", "rating": 3, "note": "x"})
        entries = [top, prop]
        if cid == "2.1/File":
            entries.append(("ntfs-ext", {"sid": "S-1-5-21"}))
        else:
            entries.append(("extension-definition--" + g.uuid(), {"extension_type": "property-extension", "score": 1}))
        for n in (2, 3):
            for combo in itertools.permutations(entries, n):
                x = dict(base)
                x["extensions"] = {k: v for k, v in combo}
                if any(k == top[0] for k, _ in combo):
                    x["rank"] = 5
                    x["toxicity"] = "high"
                out.append((cid, x, "extension-orders"))
    return out


def fraction_sweep(g, rng, n):
    """Small 2.1 objects whose timestamps all carry six random fraction digits (the instants must come back exactly)."""
    out = []
    for i in range(n):
        cid = rng.choice(["2.1/Identity", "2.1/Indicator", "2.1/File", "2.1/Sighting"])
        base = g.obj(cid, 0, {"safe": True}, optional_p=0.0 if cid != "2.1/File" else 0.6)
        if cid == "2.1/Indicator":
            base["valid_until"] = "2031-01-01T00:00:00Z"
        if cid == "2.1/Sighting":
            base["first_seen"] = "2016-01-01T00:00:00Z"
            base["last_seen"] = "2031-01-01T00:00:00Z"
        c = g.classes[cid]
        names = sorted((s["name"] for s in c["slots"] if s["kind"]["k"] == "time" and s["name"] in base), key=lambda k: base[k])
        t0 = 1451606400 + rng.randrange(4 * 10 ** 8)
        for j, k in enumerate(names):
            d = datetime.datetime.fromtimestamp(t0 + 86400 * j, datetime.timezone.utc)
            base[k] = d.strftime("%Y-%m-%dT%H:%M:%S") + ".%06dZ" % rng.randrange(10 ** 6)
        out.append((cid, base, "fraction-sweep"))
    return out


def dig(j, path):
    for p in path:
        j = j[p]
    return j


# ---------------------------------------------------------------------------
# table direction: places where the library's table is stricter than the specification's

ACCEPT_HEADER = ("From Coq Require Import List String.\n"
                 "From V Require Import Base.UString Model.SchemaTypes Spec.SchemaRefine Gen.Tables Gen.SpecTables.\n"
                 "Import ListNotations. Open Scope string_scope.\n")


COVER_HEADER = ("From Coq Require Import List String.\n"
                "From V Require Import Base.UString Model.SchemaTypes Gen.Tables Proofs.SchemaCompC03.\n"
                "Import ListNotations. Open Scope string_scope.\n"
                "Definition names (l : list ustring) : string := fold_right (fun c acc => append (show_ustr c) (append \" \" acc)) EmptyString l.\n")


def coverage_of_theorem():
    lines = sc.sharded_eval("c03c", COVER_HEADER, [
        "append (show_nat (List.length lib_complete)) (append \"|\" (show_nat (List.length (wclasses lib))))",
        "names lib_incomplete"])
    a, n = (int(x) for x in lines[0].split("|"))
    return {"classes": n, "covered_by_spec_complete_partial": a, "not_covered": common.ustr_unescape(lines[1]).split()}


def accept_failures():
    line = sc.sharded_eval("c03r", ACCEPT_HEADER, ["show_failures (accept_failures spec lib)"])[0]
    return [tuple(common.ustr_unescape(x) for x in f.split("|")) for f in line.split(";") if f]


def spec_boundary_values(spec_kind, lib_kind, g):
    """Values the specification's rule allows and the library's (stricter) rule may refuse."""
    sk, lk = spec_kind or {}, lib_kind or {}
    out = []
    if sk.get("k") in ("int", "float"):
        for b in (sk.get("min"), sk.get("max")):
            if b is not None:
                out += [b, b + (1 if b == sk.get("min") else -1)]
        if sk.get("min") is None:
            out += [-1, -(2 ** 40)]
        if sk.get("max") is None:
            out += [2 ** 40, 65536, 65535]
        out += [0, 1]
        if sk["k"] == "float":
            out = [float(v) for v in out]
    elif sk.get("k") == "enum":
        out += [v for v in sk.get("allowed", []) if v not in lk.get("allowed", [])] + list(sk.get("allowed", []))[:3]
    elif sk.get("k") == "openvocab":
        out += list(sk.get("allowed", []))[:4] + ["custom-vocab-value"]
    elif sk.get("k") == "list":
        return [[v] for v in spec_boundary_values(sk["of"], lk.get("of") if lk.get("k") == "list" else None, g)]
    elif sk.get("k") == "ref":
        for _ in range(6):
            try:
                out.append(g.ref_type(sk) + "--" + g.uuid())
            except (IndexError, KeyError):
                pass
    elif sk.get("k") == "hashes":
        out += [{n: stixgen.HASH_VALUES[n]} for n in sk.get("names", []) if n in stixgen.HASH_VALUES]
    elif sk.get("k") == "time":
        out += ["2016-01-01T00:00:00Z", "2016-01-01T00:00:00.5Z", "2016-01-01T00:00:00.123Z", "2016-01-01T00:00:00.123456Z"]
    else:
        try:
            out += [g.value(sk, 1, {"safe": True}) for _ in range(3)]
        except (ValueError, KeyError, IndexError):
            pass
    return out


def failure_candidates(failures, live, g, rng):
    spec = g.spec
    out = []
    for f in failures:
        kind, cid = f[0], f[1] if len(f) > 1 else None
        if cid not in g.classes:
            continue
        bases = [g.obj(cid, 0, {"safe": True}, optional_p=p) for p in (0.0, 0.5, 1.0)]
        label = "|".join(f)
        if kind in ("kind", "unknown-slot"):
            name = f[2]
            ss, ls = c02_slot(spec, cid, name), c02_slot(live, cid, name)
            for i, v in enumerate(spec_boundary_values(ss and ss["kind"], ls and ls["kind"], g)[:14]):
                x = dict(bases[i % len(bases)])
                x[name] = v
                out.append((cid, x, "boundary:" + label, f))
        elif kind == "required":
            name = f[2]
            for b in bases:
                x = dict(b)
                x.pop(name, None)
                out.append((cid, x, "boundary:" + label, f))
        else:
            # a constraint only the library enforces: every property subset the generator produces
            for p in (0.0, 0.2, 0.5, 0.8, 1.0):
                for _ in range(3):
                    out.append((cid, g.obj(cid, 0, {"safe": True}, optional_p=p), "boundary:" + label, f))
    return out


def c02_slot(table, cid, name):
    c = (table or {}).get("classes", {}).get(cid)
    if not c:
        return None
    for s in c["slots"]:
        if s["name"] == name:
            return s
    return None


# ---------------------------------------------------------------------------

def witness_candidates():
    ident = {"type": "identity", "spec_version": "2.1", "id": "identity--" + U, "created": "2016-01-01T00:00:00.1234567Z",
             "modified": "2016-01-01T00:00:00.1234567Z", "name": "n"}
    rel = {"type": "relationship", "spec_version": "2.1", "id": "relationship--" + U, "created": T0, "modified": T0,
           "relationship_type": "", "source_ref": "indicator--" + U, "target_ref": "malware--" + U}
    # (the seven-digit identity is presented by frac7_probe, outside the candidate filter: the validator's
    # created <= modified clause cannot read instants with more than six fraction digits and would drop it)
    return [("2.1/StatementMarking", {"statement": ""}, "witness:empty-statement"),
            ("2.1/Relationship", rel, "witness:empty-relationship-type")]


def frac7_probe(run):
    """The witness of the known finding C03-timestamp-more-than-six-fraction-digits, always presented to the
    implementation: a 2.1 identity whose created / modified carry seven fraction digits (legal: the sub-second part is
    `s+`).  Refused or not preserved => the finding; accepted and preserved => nothing."""
    ident = {"type": "identity", "spec_version": "2.1", "id": "identity--" + U, "created": "2016-01-01T00:00:00.1234567Z",
             "modified": "2016-01-01T00:00:00.1234567Z", "name": "n"}
    case = {"op": "parse", "cid": "2.1/Identity", "data": ident, "allow": False, "interop": False, "meta": {}}
    lines, extra = sc.run_impl_cases([case])
    run.count({k: case[k] for k in ("op", "cid", "data")}, nontrivial=True)
    if lines[0].startswith("OK ") and extra[0] is not None:
        loss = preserved(ident, extra[0]["ser_incl"], default_pairs(stixgen.load_spec()))
        if not loss:
            return
        loss = "content not preserved: " + loss
    else:
        loss = "rejected: " + lines[0]
    rep = {"case": {k: case[k] for k in ("op", "cid", "data", "allow", "interop")}, "context": "alone", "path": [],
           "class": "2.1/Identity", "object": ident, "loss": loss, "origin": "witness:seven-fraction-digits", "finding": F_FRAC7,
           "probe": "frac7"}
    run.violations.append(Violation("spec-valid 2.1/Identity (alone, witness:seven-fraction-digits) %s" % loss, rep, finding=F_FRAC7))


def classify(loss, cid, obj, how):
    """Narrow classes of known defects: only the seven-digit timestamp fraction."""
    def has7(x):
        if isinstance(x, str):
            m = TS_RE.match(x)
            return bool(m and m.group(7) and len(m.group(7)) > 6)
        if isinstance(x, dict):
            return any(has7(v) for v in x.values())
        if isinstance(x, list):
            return any(has7(v) for v in x)
        return False

    def strip7(x):
        if isinstance(x, str):
            m = TS_RE.match(x)
            if m and m.group(7) and len(m.group(7)) > 6:
                return x[:x.index(".") + 7] + "Z"
            return x
        if isinstance(x, dict):
            return {k: strip7(v) for k, v in x.items()}
        if isinstance(x, list):
            return [strip7(v) for v in x]
        return x
    if has7(obj):
        return F_FRAC7, strip7(obj)
    if loss.startswith("rejected") and isinstance(obj, dict):
        if obj.get("type") == "relationship" and obj.get("relationship_type") == "":
            return F_POS, None
        if cid.endswith("/StatementMarking") and obj.get("statement") == "":
            return F_POS, None
        if obj.get("type") == "marking-definition" and isinstance(obj.get("definition"), dict) and obj["definition"].get("statement") == "":
            return F_POS, None
    return None, None


def check(run):
    quick = run.tier == "quick"
    run.coverage["rule"] = (
        "objects of every class of both versions generated from the FROZEN spec tables (optional-property subsets 0..all, boundary "
        "numbers, false/0/'' values, every vocabulary entry, legal reference targets, random 1-6 digit fractions, granular markings "
        "incl. two-digit list indices, forward references inside 2.0 observed-data), kept only when the kernel-evaluated validator "
        "Spec/StixValid.v accepts them; each presented alone, inside a bundle and (SCOs) inside an observed-data container, strict "
        "mode; oracle = accepted + every input property back (timestamps as instants) + additions only default-valued optionals; "
        "non-trivial = spec-valid candidate")
    gen_ok = sc.translate_and_build(run, "Props/C03.v")
    variants = sc.detect_variants(run)
    g = stixgen.Gen(run.rng)
    defaults = default_pairs(g.spec)
    cands = gen_candidates(run, g, 5 if quick else 16)
    cands += fraction_sweep(g, run.rng, 160 if quick else 1500)
    cands += extension_orders(g, run.rng)
    cands += bound_candidates(g, run.rng)
    cands += dict_and_socket_candidates(g, run.rng)
    cands += witness_candidates()
    failures, live = [], None
    if gen_ok:
        try:
            failures = accept_failures()
            live = tr_tables.dump(common.REPO, common.PY)
        except RuntimeError as e:
            run.broken.append(Broken("obligation", "accept_failures spec lib (evaluation)", {"error": str(e)[-1200:]}))
    run.coverage["refinement_failures"] = ["|".join(f) for f in failures]
    if gen_ok:
        try:
            run.coverage["theorem_class_coverage"] = coverage_of_theorem()
        except RuntimeError as e:
            run.notes.append("coverage lists could not be evaluated: %s" % str(e)[-300:])
    fcands = failure_candidates(failures, live, g, run.rng) if failures else []
    allc = [(cid, o, how, None) for cid, o, how in cands] + fcands
    # state kept between calls: the same UUID text under both specification versions, both orders, one process
    seqs = stixgen.uuid_reuse_sequences(g, 10 if quick else 60)
    seq_at = {}
    for k, seq in enumerate(seqs):
        for step, (cid, o) in enumerate(seq):
            seq_at[(k, step)] = len(allc)
            allc.append((cid, o, "sequence", None))
    # which candidates are valid per the frozen specification (kernel-evaluated)
    pats = sc.pattern_lists([{"data": o} for _, o, _, _ in allc])
    verdict = sc.spec_valid_lines([(cid, o) for cid, o, _, _ in allc], pats, tag="c03v")
    valid = [(cid, o, how, f) for (cid, o, how, f), v in zip(allc, verdict)
             if v == "true" and how != "sequence"
             and (g.classes[cid]["ver"] != "2.0" or g.classes[cid]["family"] == "sco" or refs_well_typed(g, cid, o))]
    run.coverage["candidates"] = len(allc)
    run.coverage["spec_valid_candidates"] = len(valid)
    hist = {}
    for cid, o, how, f in allc:
        hist[how.split(":")[0]] = hist.get(how.split(":")[0], 0) + 1
    run.coverage["candidate_kinds"] = hist
    # present each in its contexts
    cases, owner = [], []
    for n, (cid, o, how, f) in enumerate(valid):
        for ctx, case, path in wrap_cases(g, cid, o, run.rng):
            case["meta"] = {"origin": how, "ckind": ctx, "cid": cid}
            cases.append(case)
            owner.append((n, ctx, path))
    for k, seq in enumerate(seqs):
        for step, (cid, o) in enumerate(seq):
            cases.append({"op": "parse", "cid": cid, "data": o, "allow": False, "interop": False, "seq": k,
                          "meta": {"origin": "sequence", "ckind": "sequence", "cid": cid, "step": step}})
            if verdict[seq_at[(k, step)]] == "true":
                valid.append((cid, o, "sequence", None))
                owner.append((len(valid) - 1, "sequence", []))
            else:
                owner.append(None)       # runs (it sets the state) but is not a specification-valid object
    # the same parse calls through the other public argument forms (JSON text, text file object, bytes file object)
    more, more_owner = [], []
    for c, ow in zip(cases, owner):
        if c["op"] == "parse" and c.get("seq") is None and ow is not None and run.rng.random() < 0.12:
            d = dict(c)
            d["form"] = run.rng.choice(["text", "file", "bytes-file"])
            more.append(d)
            more_owner.append(ow)
    cases += more
    owner += more_owner
    impl, extra = sc.run_impl_cases(cases)
    for c, r in zip(cases, impl):
        run.count({k: c[k] for k in ("op", "cid", "data", "form") if k in c}, nontrivial=True)
    for i in (0, len(cases) // 2):
        if cases:
            run.sample({"case": {k: cases[i][k] for k in ("op", "cid")}, "context": cases[i]["meta"]["ckind"],
                        "data": json.dumps(cases[i]["data"])[:300], "impl": impl[i][:200]})
    # correspondence of the model on the same calls
    if gen_ok and cases:
        try:
            model = sc.run_model_cases(cases, variants, sc.pattern_lists(cases), tag="c03m")
            sc.correspond(run, cases, model, impl)
        except RuntimeError as e:
            run.broken.append(Broken("correspondence", "model evaluation failed", {"error": str(e)[-1500:]}))
    # oracle
    explained = set()
    ctxhist = {}
    for i, (c, line) in enumerate(zip(cases, impl)):
        if owner[i] is None:
            continue
        n, ctx, path = owner[i]
        cid, o, how, f = valid[n]
        ctxhist[ctx] = ctxhist.get(ctx, 0) + 1
        loss = None
        if not line.startswith("OK ") or extra[i] is None:
            loss = "rejected: " + line[:120]
        else:
            try:
                # with include_optional_defaults: a given property whose value is the default is not "lost"
                got = dig(extra[i]["ser_incl"], path)
            except (KeyError, IndexError, TypeError):
                got = None
            presented = dig(c["data"], path)     # the object as it was handed over in this context
            loss = "the object is missing from the result" if got is None else preserved(presented, got, defaults)
        if loss is None:
            continue
        if f:
            explained.add(tuple(f))
        fid, _ = classify(loss, cid, dig(c["data"], path), how)
        rep = {"case": {k: c[k] for k in ("op", "cid", "data", "allow", "interop", "form") if k in c}, "context": ctx, "path": path,
               "class": cid, "object": dig(c["data"], path), "loss": loss, "origin": how}
        if c.get("seq") is not None:
            sq = [x for x in cases if x.get("seq") == c["seq"]]
            rep["sequence"] = [{k: x[k] for k in ("op", "cid", "data", "allow", "interop", "seq")} for x in sq]
            rep["step"] = c["meta"]["step"]
        what = "spec-valid %s (%s, %s) %s" % (cid, ctx, how, loss)
        run.violations.append(Violation(what, dict(rep, finding=fid), finding=fid))
    run.coverage["contexts"] = ctxhist
    try:
        frac7_probe(run)
    except RuntimeError as e:
        run.broken.append(Broken("oracle", "known-finding probe did not run", {"error": str(e)[-600:]}))
    for f in failures:
        if tuple(f) not in explained:
            run.broken.append(Broken("obligation", "spec_refines spec lib: " + "|".join(f),
                                     {"note": "the regenerated class table is stricter than the frozen specification table at this "
                                              "place; no rejected specification-valid input was found around it"}))
    run.coverage["trusted_base"] += [
        "translators/tr_tables.py + dump_tables.py (live classes -> Gen/Tables.v; fail-closed)",
        "frozen specification tables /verif/spec (+ audited overrides) -> Gen/SpecTables.v; Spec/StixValid.v selects the spec-valid candidates",
        "the preservation comparison of harness/props/c03.py (JSON equality; timestamps compared as exact rational instants)",
        "2.0 observed-data containers are built so that object references are well typed (the validator does not check reference targets)",
    ]
    run.assumptions += [
        "specification validity = Spec/StixValid.v over the frozen tables (audited / seeded entries as in DESIGN 4)",
        "timestamps with more than six fraction digits cannot be represented by the library's datetime values (known finding)",
    ]


def replay(payload):
    r = payload["replay"]
    c = r["case"]
    spec = tr_tables.load_spec(common.VERIF)
    if r.get("sequence"):
        ls, ex = sc.run_impl_cases([dict(x, meta={}) for x in r["sequence"]])
        for x, l in zip(r["sequence"], ls):
            print("  in sequence: %s %s -> %s" % (x["op"], x.get("cid"), l[:100]))
        lines, extra = [ls[r["step"]]], [ex[r["step"]]]
    else:
        lines, extra = sc.run_impl_cases([dict(c, meta={})])
    print("replay %s %s (%s): %s" % (c["op"], c.get("cid"), r.get("context"), lines[0][:300]))
    # (the seven-digit witness is valid by the timestamp grammar itself; the validator's created <= modified clause
    # cannot read instants with more than six fraction digits)
    v = "true" if r.get("probe") == "frac7" else sc.spec_valid_lines([(r["class"], r["object"])])[0]
    print("the object is %s per the frozen specification" % ("VALID" if v == "true" else "not valid"))
    if v != "true":
        print("no violation on this input")
        return 0
    if not lines[0].startswith("OK ") or extra[0] is None:
        print("rejected in strict mode")
        print("VIOLATION property=C03 replay=(given)")
        return 1
    try:
        got = dig(extra[0]["ser_incl"], r.get("path", []))
    except (KeyError, IndexError, TypeError):
        got = None
    loss = "missing" if got is None else preserved(r["object"], got, default_pairs(spec))
    if loss:
        print("content not preserved: %s" % loss)
        print("VIOLATION property=C03 replay=(given)")
        return 1
    print("accepted and preserved: no violation on this input")
    return 0

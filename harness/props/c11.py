"""C11 -- memory and filesystem stores agree with a plain list over any history.

Model coq/Model/Store.v (hand-written, mirrors memory.py / filesystem.py),
theorems coq/Props/C11.v, correspondence of the model with MemoryStore and
FileSystemStore over generated add/read histories, oracle = a list model
evaluated here directly on the history (independent of the Coq model).

This module also holds what C18 shares: object specs, Coq term printers,
comparison of result lines."""
import os
import sys

import common
from common import Broken, Violation

sys.path.insert(0, os.path.join(common.VERIF, "harness", "impl"))
import storeutil  # noqa: E402

MANIFEST = {
    "text": "Refinement theorems (induction over every add history) of the Gallina models of MemoryStore and "
            "FileSystemStore to a plain list (Spec/StoreSpec.v `refines`): get = an added object of that id with the "
            "greatest modified, all_versions = every added version once, the population queries run over = one copy per "
            "(id, version) added (r_stored_*); filesystem query incl. its type/id search optimiser = filter of that "
            "population as a permutation (the memory query = filter is definitional in the model); stores_agree on "
            "histories without re-additions; the one documented difference (re-adding an existing (id, modified)); no "
            "silent loss; save/load (same newest version; with no re-additions the same objects: save_load_exact); every "
            "input form flattens to the sequence of its objects. Domain predicates: `clean` (modified/created instants or "
            "absent), `uniform` (an id is always or never versioned), filesystem `fs_ok` (id prefix = type, versioned ids "
            "UUID-shaped). For the code as it is (text_mode TextOrder) `clean` excludes text-valued `modified`, so the "
            "theorems cover registered-class objects and dictionary-kept content without `modified`; dictionary-kept "
            "content with a `modified` is covered only under the repaired reading (Chrono) and is the known finding "
            "under TextOrder (refuted by witness). Props/C11Src.v restates the refinement theorems for the instance "
            "denoted by the source text (translators/tr_stores.py -> Gen/StoreFacts.v, fail closed; 18 sites, 14 with "
            "recognised alternatives, 4 fixed-text sites whose obligations are one-constructor equalities whose whole "
            "strength is the translator) and refutes by kernel-evaluated witnesses the alternatives that have a definite "
            "semantics and violate the property: `<` and `<=` in the latest tracking, [0] instead of [-1], no overwrite "
            "refusal, no re.I; not refuted: `>=` (still returns a newest version), KeyOther / SortOther (no semantics). "
            "Naive datetimes and ids used with and without `modified` are refuted outside the domain.",
    "design_ref": "DESIGN.md 6/C11; design_notes/C11-C18.md",
    "note": "Trusted: Coq kernel + vm_compute (coqchk in the thorough tier); the hand-written model coq/Model/Store.v, "
            "tied to the source by (a) the per-run correspondence (same histories through the real stores and the model), "
            "(b) the source-text translator, (c) behaviour probes that must agree with the text. The objects of the "
            "theorems are the abstract record (id, type, modified, created, a content tag, four navigation properties): "
            "equality of real content rests on the correspondence and on the OPTIONAL bridge Props/C11BridgeC01.v "
            "(from property C01's roundtrip_equal_partial / roundtrip_equal_bundle_partial: an object or bundle "
            "re-constructed from its own encoding is the same object, hence has the same store view; classes C01 does "
            "not cover -- ObservedData, 2.1 Indicator -- and the text layer remain an assumption). Assumed: per-object "
            "filter evaluation is an abstract boolean in Props/C11.v (concrete in the OPTIONAL bridge "
            "Props/C11BridgeC12.v importing property C12's files); file names injective in the instant (`ts2fn_inj`): "
            "for the real _timestamp2filename this needs the zero-padded year (C15 variant Pad4, the code since "
            "ea5dd9c; with the unpadded year 0999-01-01T00:00:00.1Z and 9990-10-10T00:00:01Z both give 99901010000001) "
            "and fixed-width fields -- not proved here, checked only through the correspondence; OS directory semantics "
            "not modelled. Optional bridges are built separately: if another builder's file or statement changes they "
            "are reported as a note and not claimed. No axioms.",
    "technique": "Coq proof over a hand-written executable model + source-text translator + per-run correspondence with the implementation",
}

# --------------------------------------------------------------------------
# population: classes, ids, instants

CLASSES = {
    # cls: (type, spec, versioned, registered)
    "identity21": ("identity", "21", True, True), "identity20": ("identity", "20", True, True),
    "campaign21": ("campaign", "21", True, True), "campaign20": ("campaign", "20", True, True),
    "rel21": ("relationship", "21", True, True), "rel20": ("relationship", "20", True, True),
    "marking21": ("marking-definition", "21", False, True), "marking20": ("marking-definition", "20", False, True),
    "sco21": ("domain-name", "21", False, True),
    "lang21": ("language-content", "21", True, True),      # versioned, but neither an SDO nor an SRO class
    "xreg21": ("x-reg", "21", True, True), "xreg20": ("x-reg", "20", True, True),
    "unreg": ("x-unreg", None, True, False),
}
TYPES = ["identity", "campaign", "relationship", "marking-definition", "domain-name", "x-reg", "x-unreg", "x-other",
         "language-content"]
NIDS = 6


def mk_id(typ, n):
    return "%s--%08x-0000-4000-8000-%012x" % (typ, n, n)


POOL = {t: [mk_id(t, k) for k in range(1, NIDS + 1)] for t in TYPES}
# ids that break the hypotheses of the filesystem theorems (only used with dictionary-kept content)
ODD_IDS = ["x-unreg--abc", "x-unreg--0000000A-0000-4000-8000-00000000000A", POOL["x-other"][0], "x-unreg--" + "1" * 8]
# dictionary-kept content is not validated, so its ids may spell the UUID with upper-case hex digits; the stores
# must cope (the directory scan of the filesystem source is case-insensitive): inside the property's domain
HEX_IDS = ["x-unreg--0000000A-0000-4000-8000-00000000000A", "x-unreg--0000000b-0000-4000-8000-00000000000b",
           "x-unreg--ABCDEF01-0000-4000-8000-0000000000Fe"]
OUTSIDE_IDS = {ODD_IDS[0], ODD_IDS[2], ODD_IDS[3]}      # no UUID shape / another type's prefix
ALL_IDS = [i for t in TYPES for i in POOL[t]] + ODD_IDS[:2] + ODD_IDS[3:] + HEX_IDS[1:]
ID_NAME = {i: "i%d" % k for k, i in enumerate(ALL_IDS)}
TYPE_NAME = {t: "t%d" % k for k, t in enumerate(TYPES)}

BASE_US = 1577836800 * 10 ** 6          # 2020-01-01T00:00:00Z
CRE_US = 1420070400 * 10 ** 6           # 2015-01-01T00:00:00Z
OFFSETS = [0, 1, 999, 1000, 1001, 1500, 120000, 250000, 500000, 999999, 10 ** 6, 10 ** 6 + 1000, 1500000, 60 * 10 ** 6,
           86400 * 10 ** 6, -1, -1000, -10 ** 6, -(366 * 86400 * 10 ** 6), 59 * 10 ** 6 + 999000]
STYLES = ["min", "ms", "d6", "d3"]


def header(mode="TextOrder", rm="PerMember"):
    lines = ["From Coq Require Import NArith ZArith List String Bool.",
             "From V Require Import Base.UString Model.Store Model.StoreCases.",
             "Import ListNotations. Open Scope string_scope.",
             "Definition MODE := %s. Definition RM := %s." % (mode, rm),
             "Definition O := mkObj. Definition G := Good.",
             "Definition cre0 := VInst %s." % common.coq_Z(CRE_US)]
    for i, n in ID_NAME.items():
        lines.append("Definition %s := %s." % (n, common.coq_ustr(i)))
    for t, n in TYPE_NAME.items():
        lines.append("Definition %s := %s." % (n, common.coq_ustr(t)))
    return "\n".join(lines) + "\n"


# --------------------------------------------------------------------------
# object specs -> what the model is told about them

def eff_us(cls, us):
    """the instant a registered class keeps: 2.0 truncates to milliseconds"""
    return us - us % 1000 if cls.endswith("20") else us


def spec_instant(o, which):
    """instant (us) denoted by the spec's modified/created as the generator made it, or None"""
    if which == "mod" and o.get("moddt"):
        y, mo, d, h, mi, s, us = o["moddt"]["parts"]
        import datetime
        base = datetime.datetime(y, mo, d, h, mi, s, us)
        t = storeutil.dt_to_us(base)
        if o["moddt"].get("tzmin") is not None:
            t -= o["moddt"]["tzmin"] * 60 * 10 ** 6
        return t
    txt = o.get(which)
    return None if txt is None else storeutil.parse_ts(txt)


# set from a probe of the implementation: does an object constructed from a
# naive datetime keep it naive (True on the pinned tree)
NAIVE_KEPT = [True]


def is_naive(o):
    return bool(NAIVE_KEPT[0] and o.get("moddt") and o["moddt"].get("tzmin") is None)


def model_vkey(o, which, table):
    """Gallina vkey of the spec's modified ('mod') / created ('cre')."""
    txt = o.get(which)
    if txt is None and not (which == "mod" and o.get("moddt")):
        return "VNone"
    if o["cls"] == "unreg":
        us = storeutil.parse_ts(txt)
        if us is not None:
            table[txt] = us
        return "(VText %s)" % common.coq_ustr(txt)
    us = eff_us(o["cls"], spec_instant(o, which))
    if which == "cre" and us == CRE_US:
        return "cre0"
    if which == "mod" and is_naive(o):
        return "(VNaive %s)" % common.coq_Z(us)
    return "(VInst %s)" % common.coq_Z(us)


NAV_KEYS = ["source_ref", "target_ref", "relationship_type", "created_by_ref"]


def coq_id(i):
    return ID_NAME.get(i) or common.coq_ustr(i)


def coq_obj(o, table):
    props = []
    for k in NAV_KEYS:
        v = (o.get("props") or {}).get(k)
        if v is not None:
            props.append("(k_%s, %s)" % (k, coq_id(v) if k != "relationship_type" else common.coq_ustr(v)))
    return "(O %s %s %s %s %s %s)" % (coq_id(o["id"]), TYPE_NAME.get(o["typ"]) or common.coq_ustr(o["typ"]),
                                      model_vkey(o, "mod", table), model_vkey(o, "cre", table),
                                      common.coq_N(o["pay"]), common.coq_list(props))


def flatten(x):
    """tree -> list of (atomic, [item]); item = spec dict or None (Bad)"""
    t = x["t"]
    if t in ("obj", "dict"):
        if x["o"].get("noid"):
            return [(False, ["late"])]
        return [(False, [x["o"]])]
    if t == "bad":
        return [(False, [None])]
    if t == "json":
        return flatten(x["x"])
    if t == "list":
        out = []
        for e in x["xs"]:
            out += flatten(e)
        return out
    if t in ("bundle_obj", "bundle_dict"):
        items = []
        for e in x["xs"]:
            for _, its in flatten(e):
                items += its
        return [(t == "bundle_dict", items)]
    raise ValueError(t)


def coq_segs(x, table):
    segs = []
    for atomic, items in flatten(x):
        segs.append("(%s, %s)" % (common.coq_bool(atomic),
                                  common.coq_list(["Bad" if it is None else ("BadLate" if it == "late" else "G " + coq_obj(it, table)) for it in items])))
    return common.coq_list(segs)


COQ_OP = {"=": "CEq", "!=": "CNe", "<": "CLt", ">": "CGt", "<=": "CLe", ">=": "CGe"}


def coq_filter(f):
    """A harness filter {"k": type|id|pay|prop, "op": one of FILTER_OPS (default "="), "v": value or list for "in"}."""
    k, op = f["k"], f.get("op", "=")
    if k in ("type", "id"):
        name = (lambda v: TYPE_NAME.get(v) or common.coq_ustr(v)) if k == "type" else coq_id
        if op == "=":
            return "%s %s" % ("FType" if k == "type" else "FId", name(f["v"]))
        if op == "!=":
            return "FOther (%s %s)" % ("type_ne" if k == "type" else "oid_ne", name(f["v"]))
        if op == "in":
            return "FOther (%s %s)" % ("type_in" if k == "type" else "oid_in", common.coq_list([name(v) for v in f["v"]]))
        return "FOther (%s %s %s)" % ("type_op" if k == "type" else "oid_op", COQ_OP[op], name(f["v"]))
    if k in ("mod", "cre"):
        return "FOther (%s_op %s %s %s)" % (k, COQ_OP[op], common.coq_Z(storeutil.parse_ts(f["v"])), common.coq_ustr(f["v"]))
    if k == "pay":
        if op == "in":
            return "FOther (pay_in %s)" % common.coq_list([common.coq_N(v) for v in f["v"]])
        if op == "=":
            return "FOther (pay_is %s)" % common.coq_N(f["v"])
        return "FOther (pay_op %s %s)" % (COQ_OP[op], common.coq_N(f["v"]))
    if k == "prop":
        val = (lambda v: coq_id(v)) if f["p"] != "relationship_type" else common.coq_ustr
        if op == "=":
            return "FOther (prop_is k_%s %s)" % (f["p"], val(f["v"]))
        if op == "!=":
            return "FOther (prop_ne k_%s %s)" % (f["p"], val(f["v"]))
        if op == "in":
            return "FOther (prop_in k_%s %s)" % (f["p"], common.coq_list([val(v) for v in f["v"]]))
        raise ValueError(op)
    raise ValueError(k)


def coq_filters(fl):
    return common.coq_list([coq_filter(f) for f in fl])


def coq_table(table):
    return "(inst_tbl %s)" % common.coq_list(["(%s, %s)" % (common.coq_ustr(k), common.coq_Z(v)) for k, v in sorted(table.items())])


def c11_term(case):
    table = {}
    steps = []
    for st in vsteps(case):
        op = st["op"]
        if op in ("add", "load"):
            steps.append("SAdd %s" % coq_segs(st["x"], table))
        elif op == "get":
            steps.append("SGet %s" % coq_id(st["id"]))
        elif op == "all":
            steps.append("SAll %s" % coq_id(st["id"]))
        elif op == "query":
            steps.append("SQuery %s" % coq_filters(st["q"]))
        elif op == "count":
            steps.append("SCount")
        elif op == "saveload":
            steps.append("SSaveLoad")
        else:
            raise ValueError(op)
    fn = "run_mem" if case["store"] == "mem" else "run_fs"
    return "%s MODE %s %s %s" % (fn, coq_table(table), coq_filters(case.get("af", [])), common.coq_list(steps))


# --------------------------------------------------------------------------
# evaluating case terms: one `Eval vm_compute` per case (result strings of a
# whole shard in one term overflow coqc's stack when read back), stack limit
# lifted; otherwise the same as common.coq_eval_lines

import re as _re
import subprocess as _sp
from concurrent.futures import ThreadPoolExecutor as _TPE

_RES_RE = _re.compile(r'^\s*= "([^"]*)"\s*\n\s*: string', _re.M)


def eval_cases(tag, hdr, terms, shard=20, timeout=900):
    cases_dir = os.path.join(common.COQ, "Cases")
    os.makedirs(cases_dir, exist_ok=True)
    jobs = []
    for k in range(0, len(terms), shard):
        name = "%s_%d_%d" % (tag, os.getpid(), k // shard)
        path = os.path.join(cases_dir, name + ".v")
        with open(path, "w", encoding="utf-8") as f:
            f.write(hdr + "\n" + "\n".join("Eval vm_compute in (%s)." % t for t in terms[k:k + shard]) + "\n")
        jobs.append((name, len(terms[k:k + shard])))

    def run(job):
        name, n = job
        cmd = "ulimit -s unlimited 2>/dev/null || ulimit -s 4000000 2>/dev/null; exec timeout %d coqc -Q . V -w none Cases/%s.v" % (timeout, name)
        p = _sp.run(["bash", "-c", cmd], cwd=common.COQ, stdout=_sp.PIPE, stderr=_sp.PIPE, text=True)
        for ext in (".v", ".vo", ".vok", ".vos", ".glob"):
            try:
                os.remove(os.path.join(cases_dir, name + ext))
            except OSError:
                pass
        try:
            os.remove(os.path.join(cases_dir, "." + name + ".aux"))
        except OSError:
            pass
        if p.returncode != 0:
            raise RuntimeError("coqc failed on case file %s:\n%s" % (name, (p.stderr or p.stdout)[-3000:]))
        got = _RES_RE.findall(p.stdout)
        if len(got) != n:
            raise RuntimeError("case file %s: expected %d results, got %d\n%s" % (name, n, len(got), p.stdout[-1500:]))
        return got

    out = []
    with _TPE(max_workers=common.NCPU) as ex:
        for lines in ex.map(run, jobs):
            out.extend(lines)
    return out


def run_coqchk(run, module):
    """thorough tier: re-check the compiled closure of the property file with the independent checker"""
    p = _sp.run(["timeout", "1800", "coqchk", "-silent", "-o", "-Q", ".", "V", module], cwd=common.COQ,
                stdout=_sp.PIPE, stderr=_sp.STDOUT, text=True)
    tail = p.stdout[-1500:]
    ok = p.returncode == 0 and "* Axioms: <none>" in p.stdout
    run.coverage["coqchk"] = {"module": module, "ok": ok, "summary": " ".join(tail.split())[-400:]}
    if not ok:
        run.broken.append(Broken("assumption", "coqchk " + module, {"output": tail}))


# --------------------------------------------------------------------------
# the source text (translators/tr_stores.py -> Gen/StoreFacts.v -> Props/C11Src.v, Props/C18Src.v)

def source_step(run, src_props):
    """Translate the store sources and build the source-tied obligations.  Call inside common.Lock().
    Returns the facts read from the text, or None (translator abort: the obligations count as undischarged)."""
    import tr_stores
    facts = None
    try:
        text, facts = tr_stores.translate(common.REPO, None)
        common.write_if_changed(os.path.join(common.COQ, "Gen", "StoreFacts.v"), text)
    except tr_stores.TranslateError as e:
        run.broken.append(Broken("translator", "tr_stores: " + str(e)[:200], {"error": str(e)}))
    except (OSError, SyntaxError, ValueError, AttributeError, IndexError, KeyError) as e:
        run.broken.append(Broken("translator", "tr_stores", {"error": "%s: %s" % (type(e).__name__, e)}))
    if facts is not None:
        res = common.build_props(src_props)
        run.add_build(res, run.coverage.get("checker_cmd", "") + " ; " + src_props[:-2] + ".vo (source-text instance)")
        run.coverage["source_text_choices"] = dict(facts)
    else:
        run.coverage["obligations"] += len(common.theorems_in(src_props))
    return facts


def optional_bridge(run, props_file, dependency):
    """Build a Props file whose theorems import another builder's files.  Call inside common.Lock().
    When it builds its theorems are counted as obligations (discharged); when it does not -- a file or a
    statement of the other builder changed -- nothing from it is claimed and the check records a note."""
    res = common.build_props(props_file)
    br = run.coverage.setdefault("optional_bridges", {})
    if res["ok"] and not res["bad_axioms"]:
        run.coverage["obligations"] += res["obligations"]
        run.coverage["discharged"] += res["discharged"]
        run.coverage.setdefault("print_assumptions", {}).update(
            {k: (v or "Closed under the global context") for k, v in res["assumptions"].items()})
        br[props_file] = {"built": True, "theorems": res["theorems"], "depends_on": dependency}
    else:
        fa = res.get("failed_at")
        br[props_file] = {"built": False, "depends_on": dependency, "failed_at": list(fa) if fa else None,
                          "log_tail": res["log_tail"][-600:]}
        run.notes.append("optional bridge %s (depends on %s) did not build; its theorems are not claimed in this run"
                         % (props_file, dependency))


def compare_text_and_probe(run, facts, probed):
    """The choices read from the text and those shown by running the witnesses must agree."""
    if facts is None:
        return
    diff = {k: {"text": facts[k], "behaviour": v} for k, v in probed.items() if v is not None and facts.get(k) != v}
    run.coverage["behaviour_probes"] = probed
    if diff:
        run.broken.append(Broken("correspondence", "the source text and the behaviour of the witnesses denote different choices",
                                 {"differences": diff}))


def _spec(cls, typ, oid, mod, pay):
    o = {"cls": cls, "typ": typ, "id": oid, "pay": pay, "cre": "2015-01-01T00:00:00.000Z"}
    if mod is not None:
        o["mod"] = mod
    return o


def probe_cases_c11():
    i = POOL["identity"][0]
    v1 = _spec("identity21", "identity", i, "2020-01-01T00:00:01.000Z", 1)
    v2 = _spec("identity21", "identity", i, "2020-01-01T00:00:02.000Z", 2)
    up_id = HEX_IDS[0]
    uo = _spec("unreg", "x-unreg", up_id, "2020-01-01T00:00:01.000Z", 3)
    add = lambda o: {"op": "add", "x": {"t": "dict", "o": o}}  # noqa: E731
    return [
        {"kind": "c11", "store": "mem", "profile": "probe", "steps": [add(v2), add(v1), {"op": "get", "id": i}]},
        {"kind": "c11", "store": "fs", "profile": "probe", "steps": [add(v1), add(v2), {"op": "get", "id": i}]},
        {"kind": "c11", "store": "fs", "profile": "probe", "steps": [add(v1), add(dict(v1, pay=9)), {"op": "query", "q": []}]},
        {"kind": "c11", "store": "fs", "profile": "probe", "steps": [add(uo), {"op": "get", "id": up_id}]},
    ]


def read_probes_c11(impl):
    def pay(tok):
        return tok[0][2] if isinstance(tok, list) and tok else None
    out = {}
    try:
        out["latest_cmp"] = {2: "CmpGt", 1: "CmpLt"}.get(pay(impl[0][2]))       # >= / <= are told apart by the correspondence only
        out["pick"] = {2: "PickLast", 1: "PickFirst"}.get(pay(impl[1][2]))
        out["overwrite"] = "Refuse" if impl[2][1] == "!DataSourceError" else ("Overwrites" if impl[2][1] == "ok" else None)
        out["dir_case"] = "CaseInsensitive" if pay(impl[3][1]) == 3 else "CaseSensitive"
    except (IndexError, TypeError, KeyError):
        pass
    if out.get("latest_cmp") == "CmpGt":
        out["latest_cmp"] = None if False else "CmpGt"
    return out


# --------------------------------------------------------------------------
# comparing a model line with the implementation's observation

ADD_ERR = {"DataSourceError": "EOverwrite", "AttributeError": "EKind", "TypeError": "EType", "ValueError": "ETime"}
READ_ERR = {"KeyError": "EKey", "TypeError": "EType", "AttributeError": "EAttr", "ValueError": "EValue"}


def canon_impl(tok, is_add):
    if isinstance(tok, str) and tok.startswith("!"):
        cls = tok[1:]
        return "!" + (ADD_ERR.get(cls, "EParse") if is_add else READ_ERR.get(cls, cls))
    if isinstance(tok, list):
        return sorted([[str(a), str(b), str(c)] for a, b, c in tok])
    return str(tok)


def canon_model(tok):
    if tok.startswith("["):
        body = tok[1:-1]
        out = []
        for part in body.split(";"):
            if part:
                i, v, p = part.split(",")
                out.append([common.ustr_unescape(i), common.ustr_unescape(v), p])
        return sorted(out)
    return tok


def compare_line(model_line, impl, add_flags):
    """-> list of (index, model token, impl token) that differ"""
    mt = model_line.split("\\,")
    if mt and mt[-1] == "":
        mt.pop()
    if isinstance(impl, dict):
        return [(-1, "worker", impl)]
    if len(mt) != len(impl):
        return [(-1, "length %d" % len(mt), "length %d" % len(impl))]
    dis = []
    for k, (a, b) in enumerate(zip(mt, impl)):
        ca, cb = canon_model(a), canon_impl(b, add_flags[k])
        if ca != cb:
            dis.append((k, ca, cb))
    return dis


# --------------------------------------------------------------------------
# generator

def make_spec(rng, cls, oid, us, pay, style=None, typ=None, form_obj=False, props=None, cre_us=None):
    typ = typ or CLASSES[cls][0]
    o = {"cls": cls, "typ": typ, "id": oid, "pay": pay}
    versioned = CLASSES[cls][2]
    if cls == "sco21":
        pass
    elif cls.startswith("marking"):
        o["cre"] = storeutil.ts_text(cre_us if cre_us is not None else CRE_US, "ms")
    else:
        # `created` is supposed not to change between versions; the stores must not rely on it
        o["cre"] = storeutil.ts_text(cre_us if cre_us is not None else CRE_US, "ms")
    if versioned and us is not None:
        st = style or rng.choice(STYLES)
        o["mod"] = storeutil.ts_text(us, st)
        if form_obj and cls != "unreg" and rng.random() < 0.3:
            tz = rng.choice([None, 0, 60, -300, 330])
            shifted = us + (tz or 0) * 60 * 10 ** 6
            o["moddt"] = {"parts": storeutil.us_to_parts(shifted), "tzmin": tz}
    if props:
        o["props"] = props
    return o


IN_SIZES = [9, 10, 11, 63, 64, 65, 100, 101]


def vary_op(rng, f, types, ids, maxpay):
    """the same filter with another operator (all of FILTER_OPS that make sense for the property)"""
    k = f["k"]
    r = rng.random()
    if r < 0.5:
        return f
    g = dict(f)
    if k == "pay":
        op = rng.choice(["!=", "<", ">", "<=", ">=", "in"])
        g["op"] = op
        if op == "in":
            g["v"] = sorted(rng.sample(range(1, maxpay + 2), min(maxpay + 1, rng.randint(1, 3))))
            if rng.random() < 0.2:
                g["v"] = sorted(set(g["v"]) | set(range(2000, 2000 + rng.choice(IN_SIZES))))
        return g
    if k in ("mod", "cre"):
        g["op"] = rng.choice(["=", "=", "!=", "<", ">", "<=", ">="])
        return g
    op = rng.choice(["!=", "in", "<", ">", "<=", ">="] if k in ("type", "id") else ["!=", "in"])
    if k == "id" and f["v"] == ODD_IDS[2]:
        return f       # an id whose prefix is another type's: the model's optimiser knows `=` on id only (design note)
    g["op"] = op
    if op == "in":
        pool = types if k == "type" else ([i for i in ids if i != ODD_IDS[2]] if k == "id" else [f["v"], "other-value"])
        g["v"] = sorted(set(rng.sample(pool, min(len(pool), rng.randint(1, 3))) + ([f["v"]] if rng.random() < 0.5 else [])))
        if k in ("type", "id") and rng.random() < 0.3:
            # sizes on both sides of plausible bounds: pad with names nothing is stored under
            n = rng.choice(IN_SIZES)
            typ = (g["v"][0].split("--")[0] if g["v"] else "identity") if k == "id" else None
            fill = [mk_id(typ, 5000 + j) if k == "id" else "x-fill-%d" % j for j in range(max(0, n - len(g["v"])))]
            g["v"] = sorted(g["v"] + fill)
    return g


PROFILES = ["sdo21", "sdo20", "mixed", "custom", "unreg", "unversioned", "everything", "violating"]


def profile_classes(p):
    return {
        "sdo21": ["identity21", "campaign21", "rel21", "lang21"],
        "sdo20": ["identity20", "campaign20", "rel20"],
        "mixed": ["identity21", "identity20", "campaign21", "campaign20", "xreg21", "lang21"],
        "custom": ["xreg21", "xreg20", "unreg", "identity21"],
        "unreg": ["unreg"],
        "unversioned": ["marking21", "marking20", "sco21", "identity21"],
        "everything": list(CLASSES),
        "violating": ["unreg", "identity21", "marking21"],
    }[p]


def gen_tree(rng, store, specs, allow_bad):
    """wrap a list of object specs into one add() argument"""
    def leaf(o):
        if o["cls"] == "unreg":
            return {"t": "dict", "o": o}
        t = rng.choice(["obj", "dict"])
        if t == "dict":
            o.pop("moddt", None)          # moddt present <=> handed over as an object built from a datetime
        return {"t": t, "o": o}

    def maybe_bad(xs):
        if allow_bad and rng.random() < 0.5:
            xs.insert(rng.randrange(len(xs) + 1), {"t": "bad", "kind": rng.choice(["notype", "missing", "badid"])})
        return xs

    if len(specs) == 1 and rng.random() < 0.6:
        x = leaf(specs[0])
        if store == "fs" and x["t"] == "dict" and rng.random() < 0.4:
            x = {"t": "json", "x": x}
        return x
    form = rng.choice(["list", "bundle_dict", "bundle_obj", "list", "nested", "json_bundle"])
    vers = {CLASSES[o["cls"]][1] for o in specs} - {None}
    if form in ("bundle_dict", "bundle_obj", "json_bundle") and len(vers) > 1:
        form = "list"
    if form == "list":
        return {"t": "list", "xs": maybe_bad([leaf(o) for o in specs])}
    if form == "nested":
        k = rng.randrange(len(specs) + 1)
        inner = [leaf(o) for o in specs[k:]]
        return {"t": "list", "xs": [leaf(o) for o in specs[:k]] + ([{"t": "list", "xs": inner}] if inner else [])}
    v = (vers or {"21"}).pop()
    if form == "bundle_obj":
        for o in specs:
            o.pop("moddt", None)
        return {"t": "bundle_obj", "v": v, "xs": [leaf(o) for o in specs]}
    for o in specs:
        o.pop("moddt", None)
    b = {"t": "bundle_dict", "v": v, "xs": maybe_bad([{"t": "dict", "o": o} for o in specs])}
    if form == "json_bundle" and store == "fs":
        return {"t": "json", "x": b}
    return b


def gen_case(rng, store, profile=None, max_adds=10):
    profile = profile or rng.choice(PROFILES)
    classes = profile_classes(profile)
    violating = profile == "violating"
    nids = rng.randint(1, 4)
    actors = []                       # (cls, id, typ)
    for _ in range(nids):
        cls = rng.choice(classes)
        typ = CLASSES[cls][0]
        oid = rng.choice(POOL[typ][:4])
        if cls == "unreg" and rng.random() < 0.3:
            oid = rng.choice(HEX_IDS)
        if violating and cls == "unreg" and rng.random() < 0.5:
            oid = rng.choice(ODD_IDS)
        actors.append((cls, oid, typ))
    palette = [BASE_US + rng.choice(OFFSETS) for _ in range(rng.randint(2, 5))]
    # dictionary-kept content may lack `modified` altogether: such an id is never versioned (inside the domain;
    # it shares its type directory with versioned ids of the same type)
    flat_ids = {a[1] for a in actors if a[0] == "unreg" and rng.random() < 0.3}
    pay = [0]
    idents = [a[1] for a in actors if a[0].startswith("identity")]
    creators = (idents + POOL["identity"][4:6])[:3]

    def one_spec():
        cls, oid, typ = rng.choice(actors)
        us = rng.choice(palette)
        pay[0] += 1
        props = None
        if cls.startswith("rel"):
            ends = [a[1] for a in actors if not a[0].startswith(("rel", "marking", "lang"))] or [POOL["identity"][5]]
            props = {"source_ref": rng.choice(ends), "target_ref": rng.choice(ends), "relationship_type": "related-to"}
        elif cls in ("campaign21", "campaign20", "xreg21", "xreg20", "identity21", "identity20") and rng.random() < 0.45:
            # versions of one id may name different creators ("unmodifiable" properties are not constant for a store)
            props = {"created_by_ref": rng.choice(creators)}
        o = make_spec(rng, cls, oid, us, pay[0], form_obj=True, props=props,
                      cre_us=CRE_US + rng.choice([0, 0, 0, 1000, 86400 * 10 ** 6]))
        if oid in flat_ids:
            o.pop("mod", None)
        if violating and cls == "unreg":
            r = rng.random()
            if r < 0.25:
                o.pop("mod", None)                       # same id with and without modified
            elif r < 0.32:
                o["mod"] = rng.choice(["garbage", "2020-13-01T00:00:00Z", "2020-01-01 00:00:00Z", ""])
            elif r < 0.38:
                o["noid"] = True                         # passes the parser, fails in the store
        return o

    steps = []
    n_adds = rng.randint(1, max_adds)
    all_ids = sorted({a[1] for a in actors}) + [POOL["identity"][5]]
    all_types = sorted({a[2] for a in actors})

    def reads(full):
        out = []
        ids = all_ids if full else rng.sample(all_ids, min(2, len(all_ids)))
        for i in ids:
            out.append({"op": "get", "id": i})
            out.append({"op": "all", "id": i})
        qs = [[]]
        if full or rng.random() < 0.5:
            qs.append([{"k": "type", "v": rng.choice(all_types)}])
            qs.append([{"k": "pay", "v": rng.randint(1, max(1, pay[0]))}])
            qs.append([{"k": "type", "v": rng.choice(all_types)}, {"k": "id", "v": rng.choice(all_ids)}])
            if rng.random() < 0.5:
                qs.append([{"k": "id", "v": rng.choice(all_ids)}, {"k": "id", "v": rng.choice(all_ids)}])
            if rng.random() < 0.3:
                qs.append([{"k": "prop", "p": "relationship_type", "v": "related-to"}])
        if rng.random() < (0.5 if full else 0.2):
            # `in` lists of sizes on both sides of plausible bounds, holding the ids / types actually stored
            n = rng.choice(IN_SIZES)
            some = [i for i in rng.sample(all_ids, rng.randint(1, len(all_ids))) if i != ODD_IDS[2]]
            if some:
                fill = [mk_id(some[0].split("--")[0], 5000 + j) for j in range(max(0, n - len(some)))]
                qs.append([{"k": "id", "op": "in", "v": sorted(some + fill)}])
            if rng.random() < 0.4:
                ts = rng.sample(all_types, rng.randint(1, len(all_types)))
                qs.append([{"k": "type", "op": "in", "v": sorted(ts + ["x-fill-%d" % j for j in range(max(0, n - len(ts)))])}])
        if full or rng.random() < 0.4:
            # properties that are supposed to be constant over the versions of an id
            qs.append([{"k": "prop", "p": "created_by_ref", "v": rng.choice(creators)}])
            qs.append([{"k": "cre", "v": storeutil.ts_text(CRE_US + rng.choice([0, 1000, 86400 * 10 ** 6]), rng.choice(STYLES))}])
        if full or rng.random() < 0.5:
            # `modified` against a timestamp text in every spelling (whole second, .5, .250, 3 and 6 digits)
            for _ in range(rng.choice([1, 2])):
                qs.append([{"k": "mod", "v": storeutil.ts_text(rng.choice(palette), rng.choice(STYLES))}])
            if rng.random() < 0.4:
                qs.append([{"k": "mod", "v": storeutil.ts_text(rng.choice(palette), rng.choice(STYLES))},
                           {"k": "id", "v": rng.choice(all_ids)}])
        for q in qs:
            out.append({"op": "query", "q": [f if "op" in f else vary_op(rng, f, all_types, all_ids, max(1, pay[0])) for f in q]})
        out.append({"op": "count"})
        return out

    for k in range(n_adds):
        specs = [one_spec() for _ in range(rng.choice([1, 1, 1, 2, 3, 4]))]
        if rng.random() < 0.15 and steps:
            # re-add something seen before, same (id, modified), new or same payload
            prev = [s for st in steps if st["op"] in ("add", "load") for _, its in flatten(st["x"]) for s in its if isinstance(s, dict)]
            if prev:
                d = dict(rng.choice(prev))
                d.pop("moddt", None)
                if rng.random() < 0.5:
                    pay[0] += 1
                    d["pay"] = pay[0]
                specs.append(d)
        allow_bad = violating or rng.random() < 0.08
        if store == "mem" and rng.random() < 0.12:
            for o in specs:
                o.pop("moddt", None)
            tree = {"t": "bundle_dict", "v": "21", "xs": [{"t": "dict", "o": o} for o in specs]} \
                if len({CLASSES[o["cls"]][1] for o in specs} - {None}) <= 1 and rng.random() < 0.7 \
                else {"t": "list", "xs": [{"t": "dict", "o": o} for o in specs]}
            if tree["t"] == "bundle_dict":
                tree["v"] = ({CLASSES[o["cls"]][1] for o in specs} - {None} or {"21"}).pop()
            steps.append({"op": "load", "x": tree})
        else:
            steps.append({"op": "add", "x": gen_tree(rng, store, specs, allow_bad)})
        if rng.random() < 0.4:
            rd = reads(False)
            if rng.random() < 0.3:
                rd = rd + rng.sample(rd, min(len(rd), 2))        # the same question asked again
            steps += rd
        if store == "fs" and rng.random() < 0.15:
            steps.append({"op": "chdir"})                         # the process changes its working directory
        if store == "fs" and rng.random() < 0.08:
            steps.append({"op": "reopen"})                        # a fresh store object over the same directory
        if store == "mem" and rng.random() < 0.08:
            steps.append({"op": "saveload", "dir": rng.random() < 0.5})
    if store == "mem" and rng.random() < 0.3:
        steps.append({"op": "saveload", "dir": rng.random() < 0.5})
    steps += reads(True)
    case = {"kind": "c11", "store": store, "steps": steps, "profile": profile}
    if store == "fs" and rng.random() < 0.25:
        case["bundlify"] = True
    if rng.random() < 0.15:
        case["tz"] = rng.choice(["JST-9", "EST5EDT", "NST3:30NDT"])      # the worker process in another POSIX zone
    if store == "fs" and rng.random() < 0.4:
        case["relpath"] = True            # the store directory given relative to the working directory at construction
    if rng.random() < 0.12:
        case["af"] = [rng.choice([{"k": "pay", "v": rng.randint(1, max(1, pay[0]))},
                                  {"k": "type", "v": rng.choice(all_types)}])]
    return case


# the witness of latest_text_refuted: two versions of a dictionary-kept object
def witness_case(store):
    i = POOL["x-unreg"][0]
    a = {"cls": "unreg", "typ": "x-unreg", "id": i, "pay": 1, "cre": "2015-01-01T00:00:00.000Z", "mod": "2020-01-01T00:00:00Z"}
    b = dict(a, pay=2, mod="2020-01-01T00:00:00.5Z")
    return {"kind": "c11", "store": store, "profile": "witness",
            "steps": [{"op": "add", "x": {"t": "dict", "o": a}}, {"op": "add", "x": {"t": "dict", "o": b}},
                      {"op": "get", "id": i}, {"op": "all", "id": i}, {"op": "query", "q": []}, {"op": "count"}]}


SILENT_OPS = ("chdir", "reopen")          # steps that yield no token on either side


def vsteps(case):
    return [st for st in case["steps"] if st["op"] not in SILENT_OPS]


def add_flags(case):
    return [st["op"] in ("add", "load", "saveload") for st in vsteps(case)]


# --------------------------------------------------------------------------
# oracle: the plain-list reading of the property, on the implementation's observations

FINDING_TEXT = "C11-unregistered-modified-compared-as-text"
FINDING_NAIVE = "C11-naive-datetime-modified-not-comparable"


def has_naive(case):
    for st in case["steps"]:
        if st["op"] in ("add", "load"):
            for _, its in flatten(st["x"]):
                for it in its:
                    if isinstance(it, dict) and is_naive(it):
                        return True
    return False


def rec_of(o):
    """(id, instant or None, payload, type, is_text, ok) as the property sees the object"""
    cls = o["cls"]
    inst = None
    if o.get("mod") is not None or o.get("moddt"):
        inst = spec_instant(o, "mod")
        if inst is not None and cls != "unreg":
            inst = eff_us(cls, inst)
    cre = None
    if o.get("cre") is not None:
        cre = storeutil.parse_ts(o["cre"])
        if cre is not None and cls != "unreg":
            cre = eff_us(cls, cre)
    return {"id": o["id"], "inst": inst, "pay": o["pay"], "typ": o["typ"], "text": cls == "unreg", "cre": cre,
            "has_mod": o.get("mod") is not None or bool(o.get("moddt")), "props": o.get("props") or {},
            "naive": is_naive(o)}


def holds(f, r):
    k, op = f["k"], f.get("op", "=")
    if k == "type":
        x = r["typ"]
    elif k == "id":
        x = r["id"]
    elif k == "pay":
        x = r["pay"]
    elif k == "mod":
        if not r["has_mod"] or r["inst"] is None:
            return False
        x = r["inst"]
        f = dict(f, v=storeutil.parse_ts(f["v"]))      # registered classes: the filter text is read as an instant
    elif k == "cre":
        if r.get("cre") is None:
            return False
        x = r["cre"]
        f = dict(f, v=storeutil.parse_ts(f["v"]))
    elif k == "prop":
        x = r["props"].get(f["p"])
        if x is None:
            return False                 # a property the object lacks: every operator answers False
    else:
        raise ValueError(k)
    v = f["v"]
    if op == "=":
        return x == v
    if op == "!=":
        return x != v
    if op == "in":
        return x in v
    if op == "<":
        return x < v
    if op == ">":
        return x > v
    if op == "<=":
        return x <= v
    if op == ">=":
        return x >= v
    raise ValueError(op)


def outside_ids(case):
    """ids of this case that lie outside the property's domain: used with and without `modified`,
    dictionary-kept `modified` that is not a timestamp, no UUID shape or another type's prefix."""
    seen = {}
    bad = set()
    for st in case["steps"]:
        if st["op"] in ("add", "load"):
            for _, its in flatten(st["x"]):
                for it in its:
                    if not isinstance(it, dict):
                        continue
                    i = it["id"]
                    has = it.get("mod") is not None or bool(it.get("moddt"))
                    if seen.setdefault(i, has) != has:
                        bad.add(i)
                    if i in OUTSIDE_IDS or it.get("noid"):
                        bad.add(i)
                    if it["cls"] == "unreg" and it.get("mod") is not None and storeutil.parse_ts(it["mod"]) is None:
                        bad.add(i)
    return bad


def oracle_case(case, impl):
    """-> list of Violation for one C11 case (implementation observations only)."""
    if isinstance(impl, dict):
        return []
    out = []
    outside = outside_ids(case)
    L, maybe = [], []
    af = case.get("af", [])
    store = case["store"]

    # ids on which the memory store raised TypeError while adding a version whose `modified` is a
    # timezone-naive datetime: later reads of exactly these ids may reflect that defect
    tainted = set()

    def classify(textual, ids=()):
        """finding id of a deviation: narrow classes only"""
        if textual:
            return FINDING_TEXT
        if store == "mem" and ids and all(i in tainted for i in ids):
            return FINDING_NAIVE
        return None

    def viol(what, textual, ids=()):
        out.append(Violation("%s store: %s" % (store, what), {"kind": "c11-case", "case": case},
                             finding=classify(textual, ids)))

    def text_id(recs, i):
        """all versions of id i among recs are dictionary-kept (text `modified`)"""
        rs = [r for r in recs if r["id"] == i]
        return bool(rs) and all(r["text"] for r in rs)

    def expected_pairs(recs, mrecs, q):
        """(sure, optional): distinct (id, inst) -> payloads.  sure: some copy was certainly
        stored and every copy (certain or possibly stored) passes q+af, so the pair must be
        returned; optional: some copy passes and some does not or none is certain (which copy a
        store keeps for a re-added pair is the documented difference between the stores)"""
        groups = {}
        for r in recs:
            groups.setdefault((r["id"], r["inst"]), [[], []])[0].append(r)
        for r in mrecs:
            groups.setdefault((r["id"], r["inst"]), [[], []])[1].append(r)
        sure, optional = {}, {}
        for key, (cs, ms) in groups.items():
            ok = [all(holds(f, r) for f in q + af) for r in cs + ms]
            pays = {r["pay"] for r in cs + ms}
            if cs and all(ok):
                sure[key] = pays
            elif any(ok):
                optional[key] = pays
        return sure, optional

    def check_list(what, got, recs, q, mrecs):
        out_ids = set(outside)
        if any(f["k"] in ("mod", "cre") for f in q + af):
            # a timestamp filter on content kept as a dictionary compares text (property C12's finding): not judged here
            out_ids |= {r["id"] for r in recs + mrecs if r["text"]}
        if isinstance(got, str):
            if not out_ids:
                viol("%s raised %s" % (what, got[1:]), False)
            return
        recs = [r for r in recs if r["id"] not in out_ids]
        mrecs = [r for r in mrecs if r["id"] not in out_ids]
        got = [g for g in got if g[0] not in out_ids]
        allr = recs + mrecs
        sure, optional = expected_pairs(recs, mrecs, q)
        seen = set()
        for i, v, p in got:
            key = (i, None if v == "N" else (int(v[1:]) if v.startswith("I") else v))
            if key in seen:
                viol("%s returns version %s of %s more than once" % (what, v, i), text_id(allr, i), [i])
                return
            seen.add(key)
            pays = sure.get(key) or optional.get(key)
            if pays is None:
                viol("%s returns (%s, %s) which the list does not hold under this query" % (what, i, v), False, [i])
                return
            if p not in pays:
                viol("%s returns (%s, %s) with content %s that was never added for it" % (what, i, v, p), False, [i])
                return
        for key in sure:
            if key not in seen:
                viol("%s misses (%s, %s)" % (what, key[0], key[1]), False, [key[0]])
                return

    for st, got in zip(vsteps(case), impl):
        op = st["op"]
        if op in ("add", "load"):
            items = [it for _, its in flatten(st["x"]) for it in its]
            recs = [rec_of(it) for it in items if isinstance(it, dict)]
            if got == "ok":
                if any(not isinstance(it, dict) for it in items):
                    maybe += recs       # a refused item went through: not this property's concern
                else:
                    L += recs
            else:
                has_bad = any(not isinstance(it, dict) for it in items) or any(r["id"] in outside for r in recs)
                dup = False
                keys = {(r["id"], r["inst"]) for r in L + maybe}
                for r in recs:
                    if (r["id"], r["inst"]) in keys:
                        dup = True
                    keys.add((r["id"], r["inst"]))
                if not has_bad and not (store == "fs" and dup and got == "!DataSourceError"):
                    pool = L + maybe + recs
                    mixed = [i for i in sorted({r["id"] for r in recs})
                             if any(r["naive"] for r in pool if r["id"] == i)
                             and any(not r["naive"] and r["has_mod"] for r in pool if r["id"] == i)]
                    if store == "mem" and got == "!TypeError" and mixed:
                        tainted.update(r["id"] for r in recs)
                        viol("add of a version with a timezone-naive datetime next to an aware one raised TypeError",
                             False, mixed)
                    else:
                        viol("add of well-formed objects raised %s" % got[1:], False)
                maybe += recs
        elif op == "saveload":
            if got != "ok" and got != "n/a":
                viol("save_to_file / load_from_file raised %s" % got[1:], False)
        elif op in ("get", "all") and st["id"] in outside:
            continue
        elif op == "get":
            recs = [r for r in L if r["id"] == st["id"]]
            mrecs = [r for r in maybe if r["id"] == st["id"]]
            if isinstance(got, str):
                viol("get(%s) raised %s" % (st["id"], got[1:]), False, [st["id"]])
                continue
            allrecs = recs + mrecs
            textual = bool(allrecs) and all(r["text"] for r in allrecs)
            if not allrecs:
                if got:
                    viol("get(%s) returns an object that was never added" % st["id"], False)
                continue
            passing = [r for r in allrecs if all(holds(f, r) for f in af)]
            if af and len(passing) != len(allrecs):
                continue      # what get means under attached filters that reject some copies is not stated
            if not got:
                if recs and not af:
                    viol("get(%s) returns nothing although versions were added" % st["id"], False, [st["id"]])
                continue
            i, v, p = got[0]
            best = max((r["inst"] for r in recs if r["inst"] is not None), default=None)
            gv = None if v == "N" else (int(v[1:]) if v.startswith("I") else v)
            acceptable = {best} | {r["inst"] for r in mrecs if r["inst"] is not None and (best is None or r["inst"] >= best)}
            if not recs:
                acceptable = {r["inst"] for r in mrecs}
            if gv not in acceptable:
                viol("get(%s) returns version %s, the greatest modified added is %s" % (st["id"], v, best), textual, [st["id"]])
                continue
            if p not in {r["pay"] for r in allrecs if r["inst"] == gv}:
                viol("get(%s) returns content %s that was never added for version %s" % (st["id"], p, v), False, [st["id"]])
        elif op == "all":
            check_list("all_versions(%s)" % st["id"], got, [r for r in L if r["id"] == st["id"]], [],
                       [r for r in maybe if r["id"] == st["id"]])
        elif op == "query":
            check_list("query(%s)" % st["q"], got, L, st["q"], maybe)
        elif op == "count":
            if store == "fs" and not maybe and not outside and isinstance(got, int):
                n = len({(r["id"], r["inst"]) for r in L})
                if got != n:
                    viol("%d files on disk for %d distinct (id, modified) added" % (got, n), False)
    return out


def safe_oracle(fn, kind, case, *args):
    """the oracle must never stop the check: an exception inside it is reported as a replayable case"""
    try:
        return fn(case, *args)
    except Exception as e:  # noqa: BLE001
        return [Violation("the oracle raised %s: %s on this case" % (type(e).__name__, str(e)[:200]),
                          {"kind": kind, "case": case}, finding="oracle-error")]


def nontrivial(case, impl):
    if isinstance(impl, dict):
        return False
    n_multi = 0
    seen = {}
    for st in case["steps"]:
        if st["op"] in ("add", "load"):
            for _, its in flatten(st["x"]):
                for it in its:
                    if isinstance(it, dict):
                        seen.setdefault(it["id"], set()).add(it.get("mod"))
    n_multi = sum(1 for v in seen.values() if len(v) >= 2)
    nonempty = any(isinstance(g, list) and g for st, g in zip(vsteps(case), impl) if st["op"] in ("get", "all", "query"))
    return n_multi >= 1 and nonempty


# --------------------------------------------------------------------------

def detect_mode(impl_w):
    """which variant the code matches: run the witness of latest_text_refuted"""
    try:
        got = impl_w[2]
        return "TextOrder" if got and got[0][1] == "I%d" % BASE_US else "Chrono"
    except Exception:  # noqa: BLE001
        return "TextOrder"


def check(run):
    quick = run.tier == "quick"
    n_cases = 340 if quick else 1800
    max_adds = 10 if quick else 40
    run.coverage["rule"] = (
        "histories of 1..%d add/load calls (objects, dictionaries, lists, nested lists, Bundle objects, dictionary "
        "bundles, JSON text for the filesystem store, load_from_file for the memory store; STIX 2.0 and 2.1 SDOs/SROs, "
        "marking definitions, SCOs, a registered custom type, unregistered dictionary-kept content; 1-4 ids with "
        "2-5 instants drawn from a boundary palette in four spellings and as datetime objects in several zones; "
        "upper-case hex ids for dictionary-kept content; dictionary-kept ids that never carry `modified`; versions of one id "
        "differing in created / created_by_ref; re-adds; malformed items; a hypothesis-violating stream judged per id; "
        "filesystem stores opened with an absolute or a relative directory, with chdir and reopen steps; 15%% of the cases "
        "with the worker under another POSIX time zone; queries with every operator on type / id / x_pay / modified / "
        "created / created_by_ref incl. `in` lists of 9..101 names and every timestamp spelling) interleaved with get/all_versions/query/count and "
        "save/load, run on MemoryStore and FileSystemStore (temp dir, with and without bundlify) and on the Coq model; "
        "non-trivial = some id has two or more versions and some read returns an object" % max_adds)
    with common.Lock():
        res = common.build_props("Props/C11.v", extra_targets=["Model/StoreCases.vo"])
        run.add_build(res, "make -C coq Props/C11.vo (coqc 8.16.1, full .vo) + Print Assumptions per theorem"
                           + ("" if quick else " + coqchk -o V.Props.C11"))
        if not quick and res["ok"]:
            run_coqchk(run, "V.Props.C11")
        facts = source_step(run, "Props/C11Src.v")
        optional_bridge(run, "Props/C11BridgeC12.v", "property C12: Model/Filters.v, Proofs/FiltersBasics.v, FiltersOpt.v, FiltersStoreLink.v")
        optional_bridge(run, "Props/C11BridgeC01.v", "property C01: Model/Schema.v, Proofs/C01Roundtrip.v and what it imports")
    probe = common.run_impl("c11_impl", [{"kind": "probe"}], procs=1)[0]
    NAIVE_KEPT[0] = bool(probe.get("naive_kept", True))
    run.coverage["naive_datetime_kept"] = NAIVE_KEPT[0]
    cases = [witness_case("mem"), witness_case("fs")]
    for k in range(n_cases):
        store = "mem" if k % 2 == 0 else "fs"
        cases.append(gen_case(run.rng, store, max_adds=max_adds))
    impl = common.run_impl("c11_impl", cases)
    pimpl = common.run_impl("c11_impl", probe_cases_c11(), procs=1)
    probed = read_probes_c11(pimpl)
    if facts is not None and facts.get("latest_cmp") in ("CmpGe", "CmpLe"):
        probed["latest_cmp"] = None
    compare_text_and_probe(run, facts, probed)
    mode = detect_mode(impl[0])
    mode_fs = detect_mode(impl[1])
    run.coverage["variant_selected"] = {"memory": mode, "filesystem": mode_fs}
    if mode != mode_fs:
        run.notes.append("memory and filesystem stores match different text-order variants")
    hist = {}
    for c, i in zip(cases, impl):
        run.count(c, nontrivial=nontrivial(c, i))
        hist[c["profile"] + "/" + c["store"]] = hist.get(c["profile"] + "/" + c["store"], 0) + 1
    run.coverage["distribution"] = hist
    exc = {}
    for c, i in zip(cases, impl):
        if isinstance(i, list):
            for t in i:
                if isinstance(t, str) and t.startswith("!"):
                    exc[t[1:]] = exc.get(t[1:], 0) + 1
    run.coverage["exceptions_observed"] = exc
    run.sample({"case": cases[0], "impl": impl[0]})
    run.sample({"case": cases[5], "impl": impl[5]})
    # correspondence
    broke = False
    try:
        lines = eval_cases("c11", header(mode), [c11_term(c) for c in cases], shard=16)
        dis = []
        for c, i, m in zip(cases, impl, lines):
            d = compare_line(m, i, add_flags(c))
            if d:
                dis.append({"case": c, "first_difference": d[0], "impl": i, "model": m})
        run.coverage["correspondence_cases"] = len(cases)
        run.coverage["correspondence_disagreements"] = len(dis)
        if dis:
            broke = True
            run.broken.append(Broken("correspondence", "Model/Store.v vs MemoryStore/FileSystemStore",
                                     {"first": dis[:3], "count": len(dis)}))
    except RuntimeError as e:
        broke = True
        run.broken.append(Broken("correspondence", "model evaluation failed", {"error": str(e)[-1500:]}))
    # oracle
    for c, i in zip(cases, impl):
        run.violations += safe_oracle(oracle_case, "c11-case", c, i)
    if (broke or run.broken) and not [v for v in run.violations if v.finding is None]:
        # search harder on the implementation alone
        extra = [gen_case(run.rng, "mem" if k % 2 == 0 else "fs", max_adds=14) for k in range(1500)]
        eimpl = common.run_impl("c11_impl", extra)
        for c, i in zip(extra, eimpl):
            run.violations += safe_oracle(oracle_case, "c11-case", c, i)
        run.coverage["search_cases"] = len(extra)
    run.coverage["trusted_base"] += [
        "coq/Model/Store.v is hand-written; its tie to stix2/datastore is the per-run correspondence above and, for the "
        "choices listed in source_text_choices, the source text itself read by translators/tr_stores.py (fail closed)",
        "encoding of a generated object into the model's record (instant in microseconds, 2.0 truncation to "
        "milliseconds, text for dictionary-kept content) is done by the harness from the generator's own instants",
    ]
    run.assumptions += [
        "per-object filter evaluation is an abstract boolean function in the theorems (property C12)",
        "reading back a written file yields the stored object (property C01); OS directory semantics not modelled",
        "theorems assume each id is consistently versioned or unversioned, ids carry their type as prefix and "
        "versioned ids have the UUID shape (filesystem), file names are injective in the instant (years 1000-9999)",
    ]


def replay(payload):
    r = payload["replay"]
    case = r["case"]
    probe = common.run_impl("c11_impl", [{"kind": "probe"}], procs=1)[0]
    NAIVE_KEPT[0] = bool(probe.get("naive_kept", True))
    impl = common.run_impl("c11_impl", [case], procs=1)[0]
    print("replay C11 %s store, %d steps" % (case["store"], len(case["steps"])))
    for st, g in zip(vsteps(case), impl if isinstance(impl, list) else []):
        print("  %s -> %s" % ({k: v for k, v in st.items() if k != "x"} if st["op"] not in ("add", "load") else
                              (st["op"], [(isinstance(it, dict) and (it["id"], it.get("mod"), it["pay"])) for _, its in flatten(st["x"]) for it in its]), g))
    vs = oracle_case(case, impl)
    want = payload.get("finding_class")
    vs = [v for v in vs if v.finding == want]     # the class this replay was written for (None = unclassified)
    if vs:
        print("  " + vs[0].what)
        print("VIOLATION property=C11 replay=(given)")
        return 1
    print("no violation on this input")
    return 0

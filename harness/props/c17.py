"""C17 -- bad input is reported only through the library's error family.

Model: coq/Model/Errors.v (exception-flow skeleton of everything that runs
outside _check_property's generic wrapper, set-valued, property cleaning a
black box) instantiated with class tables REGENERATED from the live classes
(translators/tr_c17classes.py -> coq/Gen/C17Classes.v).  Theorems:
coq/Props/C17.v.  Tie: refinement correspondence -- on every generated input
the implementation's outcome (Ok / escaping exception class) must be a member
of the outcome set the model computes for that input, with the variant (which
sites are guarded) detected at run time by running the `_refuted` witnesses on
the implementation.  Oracle: whatever escapes must be a STIXError, ValueError
or TypeError; registries never change; a failed construction leaves the store
unchanged."""
import copy
import json
import os
import re
import subprocess
from concurrent.futures import ThreadPoolExecutor

import common
from common import Broken, Violation

MANIFEST = {
    "text": "23 theorems (all closed) about a set-valued exception-flow model of everything that runs outside "
            "_check_property's generic wrapper, for ALL JSON inputs, all json.loads behaviours, both interoperability values, "
            "every mode of the code under check (15 guardable sites, refuse-unrequested-custom, strict unregistered "
            "extension) and EVERY well-behaved black-box property cleaner (raises any Exception class, known or "
            "user-derived, whose __str__ returns): wrapper_total / wrapper_only / wrapper_str_failure_escapes; an "
            "exception outside {STIXError, ValueError, TypeError} can only originate at an unguarded site "
            "(nonfamily_only_at_unguarded_sites), hence family_only for parse, parse of a file, parse_observable, "
            "dict_to_stix2 and direct construction; each of the 15 sites refuted by a concrete input on the live class "
            "tables; the evaluated (set-valued and structural) models cover every black box. CLOSED-WORLD: in the model a "
            "non-family class can only be produced at one of the enumerated sites, so family_only* / "
            "nonfamily_only_at_unguarded_sites check the model's own labelling; that the code has no further site rests on "
            "(a) the correspondence run and the oracle and (b) the generated obligation source_flow_inventory_closed: "
            "tr_c17flow walks the AST of the 20 mirrored functions of the code under check and requires every "
            "subscript / attribute access / call / raise (294 on HEAD) to be covered by an automatic rule, by an entry of a "
            "HAND-REVIEWED table (trusted; its completeness is what is machine-checked) or to be the operation of a model "
            "site; the same walk reads each site's guard off the source (current_source_all_guarded, "
            "current_source_family_only) and the harness cross-checks it with the witness probes. Functions outside "
            "that list (property cleaners, serialization, stores) are not inventoried. The store/registry clause is DEFINITIONAL in the model "
            "(store_add_one returns the old store next to an escaping exception; registries are read-only parameters) and "
            "is checked on the code only by the oracle's deep snapshots. 'Terminates' and 'returns a fully validated "
            "object' have NO Coq counterpart (Gallina is total, clean_struct takes fuel, acceptance of an invalid embedded "
            "value is correspondence-derived). Class tables (library and after user registrations) and the "
            "library's exception message templates are REGENERATED from the code under check on every run (AST walk of "
            "every __init__/_check_object_constraints override and of stix2/exceptions.py; an unknown shape fails an "
            "obligation).",
    "design_ref": "DESIGN.md 6/C17, A.8; design_notes/C17.md",
    "note": "Tie = refinement correspondence: on every generated input the implementation's outcome (Ok:obj / Ok:dict / "
            "escaping class) must be a member of the outcome set of the model evaluated with the STRUCTURAL cleaner "
            "(embedded objects, lists of embedded objects, extensions, bundle members, observed-data members and plain "
            "dictionaries followed with the same model; other property types {Ok, InvalidValueError}); coverage predicate: "
            "every class x every top-level slot / embedded path (depth<=3) / extension entry / dictionary key x 23 JSON kinds "
            "incl. format-hostile text, names at the edges of the naming rules (empty, one character, 300 characters), required "
            "slots dropped, unknown/reserved keys, deep values (300..3000 levels) at every nesting site x entry point x "
            "with/without id, via parse / text / file / "
            "dict_to_stix2 / parse_observable / construction / MemoryStore.add, raw JSON values and texts, a worker with "
            "user-registered classes (forked per case; deep snapshot incl. Property-object state; history pairs: a failed call under "
            "one flag combination, then another, against a pristine process), huge integers at id-contributing positions, deep nesting; quick samples 14 000 + 1 377, thorough ~222 000. "
            "ORACLE-only (model-independent): family membership of whatever escapes, deep registry snapshot unchanged by a "
            "failing call, store unchanged by a failing add, deep-nesting inputs. An implementation Ok where the structural "
            "model has no successful outcome is reported as a violation of 'returns a fully validated object' "
            "(correspondence-derived). ASSUMED: cleaned values have the slot's type when constraint hooks read them; "
            "__str__ of builtin/third-party exceptions and stix2patterns.run_validator are total; user classes wrapped by "
            "the custom builders have no __init__ of their own; interpreter stack depth is outside the model. Trusted: Coq "
            "kernel + vm_compute, the translator and worker, python's json as decoder. No axioms.",
    "technique": "Coq proof over a set-valued exception-flow model + generated class tables + refinement correspondence",
}

UUID4 = "8e2e2d2b-17d4-4cbf-938f-98ee46b3cd3f"
UUID4B = "c5a5d1a1-3e2b-4b0c-9f6e-2d7f1a9b8c7d"
TS = "2020-01-01T00:00:00.000Z"

FAMILY_NAMES = None   # filled from the worker's observation (`family` flag); the oracle never uses the model

JUNK = {"a": {"b": [None, {"c": []}, 1.5]}, "d": [[], {}]}
KINDS = [None, 0, 5, -1, 1.5, 0.0, "", "abc", [], [1], ["a"], [[]], {}, {"a": 1}, True, False, JUNK, [{"type": 5}], "2.1",
         {"type": "identity"}]
FEW_KINDS = [None, 5, "abc", [1], {"a": 1}, JUNK]
# text that is hostile to message formatting (str.format fields, % conversions, lone braces)
HOSTILE = ["{x}", "{0}", "{0.a}", "%s", "%(a)s", "{", "}", "{0[a]}", "%"]
KINDS += ["{x}", "%(a)s", {"{0.a}": 1}]
# an integer beyond the range of an IEEE double (JSON text may carry any number of digits)
HUGE = 10 ** 400
KINDS += [HUGE]
# near-valid shapes of structured special properties, with leaves of other JSON kinds
NEAR_VALID = {
    "granular_markings": [[{"selectors": sel, "marking_ref": "marking-definition--" + UUID4B}]
                          for sel in (["type"], ["nope"], [5], [None], [["type"]], [{"a": 1}], [True], ["type", 5], [], 5, "type", None,
                                      {"type": 1}, [""], ["a.b"], ["type.[0]"])]
                         + [[{"selectors": ["type"]}, 5], [{"selectors": ["type"], "marking_ref": 5}], [{"marking_ref": "x"}]],
    "extensions": [{"extension-definition--" + UUID4B: {"extension_type": et}} for et in ("property-extension", 5, None, ["x"], {"a": 1})],
    "object_marking_refs": [["marking-definition--" + UUID4B], [5], [None], "marking-definition--" + UUID4B, [["x"]]],
}
# property / key / type names at the edges of the naming rules
ODD_NAMES = ["", "a", "_", "0", "1_2", "__", "-", "x" * 300]

SPECIAL_KEYS = ["extensions", "granular_markings", "custom_properties", "_valid_refs", "spec_version", "type", "id",
                "objects", "definition", "definition_type", "created", "pattern", "pattern_type", "object_marking_refs"]

SITE_TAGS = ["init-extensions-nondict", "init-extension-entry-nondict", "init-toplevel-props-missing",
             "init-custom-properties-falsy-nondict", "constraints-custom-granular-markings", "v20-marking-created-precision",
             "dict-to-stix2-extensions-nondict", "dict-to-stix2-extension-entry-nondict", "detect-bundle-without-objects",
             "detect-nested-object-without-type", "tlp-without-definition", "indicator20-empty-pattern-validator-crash",
             "indicator21-empty-pattern-validator-crash", "json-text-nesting-depth", "generate-id-huge-integer-overflowerror"]


# ----------------------------------------------------------------------------
# witnesses (the same inputs as Proofs/ErrorsWitness.v)

def identity21(**extra):
    d = {"type": "identity", "spec_version": "2.1", "id": "identity--" + UUID4, "created": TS, "modified": TS, "name": "n"}
    d.update(extra)
    return d


def witnesses():
    edk = "extension-definition--" + UUID4
    return {
        "init-extensions-nondict": {"op": "parse", "data": identity21(extensions="abc")},
        "init-extension-entry-nondict": {"op": "parse", "data": identity21(extensions={"foo-ext": 5})},
        "init-toplevel-props-missing": {"op": "parse", "data": {
            "type": "file", "spec_version": "2.1", "id": "file--" + UUID4, "name": "x",
            "extensions": {"ntfs-ext": {"extension_type": "toplevel-property-extension", "sid": "1"}}}},
        "init-custom-properties-falsy-nondict": {"op": "parse", "data": identity21(custom_properties=0)},
        "constraints-custom-granular-markings": {"op": "parse", "allow_custom": True, "data": {
            "type": "bundle", "id": "bundle--" + UUID4, "objects": [identity21()], "granular_markings": [5]}},
        "v20-marking-created-precision": {"op": "parse", "data": {
            "type": "marking-definition", "id": "marking-definition--" + UUID4, "created": 5,
            "definition_type": "statement", "definition": {"statement": "s"}}},
        "dict-to-stix2-extensions-nondict": {"op": "parse", "data": {
            "type": "x-foo", "id": "x-foo--" + UUID4, "extensions": "abc"}},
        "dict-to-stix2-extension-entry-nondict": {"op": "parse", "data": {
            "type": "x-foo", "id": "x-foo--" + UUID4, "extensions": {edk: 5}}},
        "detect-bundle-without-objects": {"op": "parse", "data": {"type": "bundle", "id": "bundle--" + UUID4}},
        "detect-nested-object-without-type": {"op": "parse", "data": {
            "type": "bundle", "id": "bundle--" + UUID4, "objects": [{"id": "x"}]}},
        "tlp-without-definition": {"op": "parse", "data": {
            "type": "marking-definition", "spec_version": "2.1", "id": "marking-definition--" + UUID4, "created": TS,
            "definition_type": "tlp", "extensions": {edk: {"extension_type": "property-extension"}}}},
        "indicator20-empty-pattern-validator-crash": {"op": "parse", "data": {
            "type": "indicator", "id": "indicator--" + UUID4, "created": TS, "modified": TS, "pattern": "",
            "valid_from": TS, "labels": ["x"]}},
        "indicator21-empty-pattern-validator-crash": {"op": "parse", "data": {
            "type": "indicator", "spec_version": "2.1", "id": "indicator--" + UUID4, "created": TS, "modified": TS,
            "pattern": "", "pattern_type": "stix", "valid_from": TS}},
        "json-text-nesting-depth": {"op": "deep", "deep": {"shape": "list", "depth": 100000, "text": True}},
        "generate-id-huge-integer-overflowerror": {"op": "parse", "data": {
            "type": "autonomous-system", "spec_version": "2.1", "number": 10 ** 400}},
    }


# ----------------------------------------------------------------------------
# case materialisation (mirror of c17_impl.materialise for base/subst/drop cases)

def set_path(obj, path, val):
    if not path:
        return val
    obj = copy.copy(obj)
    k = path[0]
    if isinstance(obj, list):
        obj[k] = set_path(obj[k], path[1:], val)
    else:
        obj[k] = set_path(obj.get(k), path[1:], val) if len(path) > 1 else val
    return obj


def materialise(case, desc):
    if "base" in case:
        data = copy.deepcopy(desc["classes"][case["base"]]["base"])
        for path, val in case.get("subst", []):
            data = set_path(data, path, val)
        for k in case.get("drop", []):
            data.pop(k, None)
        return data
    return case.get("data")


# ----------------------------------------------------------------------------
# generation

def sub_paths(value, prefix, depth):
    """paths to every embedded value (dict members, first and last list elements), to a bounded depth"""
    out = []
    if depth <= 0:
        return out
    if isinstance(value, dict):
        for k, v in value.items():
            out.append(prefix + [k])
            out += sub_paths(v, prefix + [k], depth - 1)
    elif isinstance(value, list) and value:
        idxs = [0] if len(value) == 1 else [0, len(value) - 1]
        for i in idxs:
            out.append(prefix + [i])
            out += sub_paths(value[i], prefix + [i], depth - 1)
    return out


def dict_paths(value, prefix, depth):
    """paths to every dictionary inside value (not the top-level object itself): [(path, dict)]"""
    out = []
    if depth <= 0:
        return out
    if isinstance(value, dict):
        if prefix:
            out.append((prefix, value))
        for k, v in value.items():
            out += dict_paths(v, prefix + [k], depth - 1)
    elif isinstance(value, list):
        for i, v in enumerate(value[:2]):
            out += dict_paths(v, prefix + [i], depth - 1)
    return out


def reachable(desc):
    """class keys reachable through parse(): (key, category)"""
    out = []
    for ver in sorted(desc["registry"]):
        for cat in ("objects", "observables"):
            for t, key in sorted(desc["registry"][ver].get(cat, {}).items()):
                if key in desc["classes"]:
                    out.append((key, cat))
    return out


def gen_slot_cases(run, desc):
    rng = run.rng
    thorough = run.tier == "thorough"
    cases = []
    reach = reachable(desc)
    reach_keys = {k for k, _ in reach}
    for key, c in desc["classes"].items():
        base = c["base"]
        is_reach = key in reach_keys
        ops = []
        if is_reach:
            ops.append("parse")
        ops.append("construct")
        top = [k for k in base.keys()]
        slot_names = [s["name"] for s in c["slots"]]
        absent = [n for n in slot_names if n not in base]
        specials = [k for k in SPECIAL_KEYS if k in slot_names or k in ("custom_properties", "granular_markings", "extensions", "_valid_refs")]
        for op in ops:
            mk = (lambda **kw: dict({"op": op, "base": key}, **({"cls": key} if op == "construct" else {}), **kw))
            # the unmodified base (must construct)
            cases.append(mk())
            # top-level slots
            for name in top + absent:
                if name == "_valid_refs" and op == "parse" and False:
                    continue
                ks = KINDS if (thorough or name in specials) else rng.sample(KINDS, 3 if op == "parse" else 2)
                for v in ks:
                    cases.append(mk(subst=[[[name], v]]))
            # format-hostile text as a value of every string-ish slot and as a KEY of every dictionary found in the base
            # (dictionary-valued properties, hashes, extensions), as an unknown property name and as type / id text
            for name in top:
                if isinstance(base[name], str):
                    for h in (HOSTILE if thorough or name in ("type", "id") else rng.sample(HOSTILE, 2)):
                        cases.append(mk(subst=[[[name], h]]))
                        if name == "id" and "--" in base[name]:
                            cases.append(mk(subst=[[[name], base[name].split("--")[0] + "--" + h]]))
            for pth, dval in dict_paths(base, [], 4):
                sample = next(iter(dval.values())) if dval else "v"
                for h in (HOSTILE if thorough else rng.sample(HOSTILE, 3)):
                    cases.append(mk(subst=[[pth + [h], sample]], allow_custom=rng.random() < 0.3))
            for h in HOSTILE:
                for ac in (False, True):
                    cases.append(mk(subst=[[[h], 1]], allow_custom=ac))
                cases.append(mk(subst=[[["custom_properties"], {h: 1}]], allow_custom=rng.random() < 0.5))
            for nm in ODD_NAMES:
                for ac in (False, True):
                    cases.append(mk(subst=[[["custom_properties"], {nm: 1}]], allow_custom=ac))
                    cases.append(mk(subst=[[["custom_properties"], {nm: None}]], allow_custom=ac))
            for pth, dval in dict_paths(base, [], 4):
                sample = next(iter(dval.values())) if dval else "v"
                for nm in (ODD_NAMES if thorough else rng.sample(ODD_NAMES, 2)):
                    cases.append(mk(subst=[[pth + [nm], sample]], allow_custom=rng.random() < 0.5))
            # a huge integer at every position of an id-less 2.1 observable (its id is computed from the cleaned values)
            if c.get("id_contrib") and "id" in base:
                for pth in [[n] for n in top if n not in ("type", "id", "spec_version")] + [p for p, _ in dict_paths(base, [], 3)]:
                    p2 = pth if len(pth) == 1 else pth + ["n"]
                    cases.append(mk(subst=[[p2, HUGE]], drop=["id"]))
                    cases.append(mk(subst=[[p2, -HUGE]], drop=["id"]))
            # a list value with one more element of another kind (a valid element followed by junk)
            for name in top:
                if isinstance(base[name], list) and base[name]:
                    for v in (KINDS if thorough else rng.sample(KINDS, 2)):
                        cases.append(mk(subst=[[[name], list(base[name]) + [v]]]))
            for name in specials:
                if name in top or name in absent:
                    continue
                for v in (KINDS if thorough else FEW_KINDS + rng.sample(KINDS, 2)):
                    ac = rng.random() < 0.5
                    cases.append(mk(subst=[[[name], v]], allow_custom=ac))
                # a value of the shape the library's own property of that name has, with leaves of other kinds: it
                # stays uncleaned on a class that does not define the property
                for v in NEAR_VALID.get(name, []):
                    for ac in (True, False):
                        cases.append(mk(subst=[[[name], v]], allow_custom=ac))
            # required slots dropped
            for s in c["slots"]:
                if s["required"] and s["name"] in base:
                    cases.append(mk(drop=[s["name"]]))
            # unknown keys (also the empty name, one character, digits / underscores only, very long)
            for name in ("foo", "x_foo", "Foo", "0abc") + tuple(ODD_NAMES):
                for ac in (False, True):
                    cases.append(mk(subst=[[[name], rng.choice(KINDS)]], allow_custom=ac))
            if op == "parse":
                for name in ("allow_custom", "interoperability", "self"):
                    cases.append(mk(subst=[[[name], rng.choice([True, False, 5])]], allow_custom=rng.random() < 0.5))
            # embedded values and extension entries
            emb = []
            for name in top:
                emb += sub_paths(base[name], [name], 3)
            if not thorough:
                emb_s = [p for p in emb if p[0] in ("extensions", "granular_markings", "definition", "objects")]
                rest = [p for p in emb if p not in emb_s]
                emb = emb_s + rng.sample(rest, min(len(rest), 6 if op == "parse" else 3))
            for pth in emb:
                ks = KINDS if thorough else rng.sample(KINDS, 2 if pth[0] in ("extensions", "granular_markings") else 1)
                for v in ks:
                    cases.append(mk(subst=[[pth, v]]))
            # extension entries of every kind under a fresh key and under a registered extension name
            if "extensions" not in slot_names:
                # no `extensions` property: the pre-clean scan still reads the value
                for ek in ("foo-ext", "extension-definition--" + UUID4B):
                    for et in ("toplevel-property-extension", "property-extension", 5):
                        for ac in (False, True):
                            cases.append(mk(subst=[[["extensions"], {ek: {"extension_type": et}}], [["x_toplevel"], 1]], allow_custom=ac))
            if "extensions" in slot_names:
                edk = "extension-definition--" + UUID4B
                for ek in (edk, "foo-ext", "ntfs-ext", "x-bar-ext"):
                    for v in (KINDS if thorough else rng.sample(KINDS, 3)):
                        cases.append(mk(subst=[[["extensions"], {ek: v}]]))
                    for et in ("toplevel-property-extension", "property-extension", "new-sdo", 5, None, ["x"]):
                        cases.append(mk(subst=[[["extensions"], {ek: {"extension_type": et, "x_p": 1}}], [["x_toplevel"], 1]],
                                        allow_custom=rng.random() < 0.3))
            # two faults at once
            for _ in range(4 if thorough else 1):
                if len(top) >= 2:
                    a, b = rng.sample(top, 2)
                    cases.append(mk(subst=[[[a], rng.choice(KINDS)], [[b], rng.choice(KINDS)]]))
    for c in cases:
        if rng.random() < 0.15:
            c["interoperability"] = True
    # parse_observable on the observable classes
    for key, cat in reach:
        if cat != "observables":
            continue
        c = desc["classes"][key]
        base = c["base"]
        ver = c["version"]
        for vr in ([], None, {"*": "*"}, {"0": "file"}, ["0"], "0", 5):
            cases.append({"op": "parse_observable", "base": key, "drop": ["_valid_refs"], "valid_refs": vr, "version": ver})
        for name in list(base.keys()):
            if name == "_valid_refs":
                continue
            for v in (KINDS if thorough else rng.sample(KINDS, 2)):
                cases.append({"op": "parse_observable", "base": key, "drop": ["_valid_refs"], "subst": [[[name], v]],
                              "valid_refs": base.get("_valid_refs"), "version": rng.choice([ver, None]),
                              "allow_custom": rng.random() < 0.3})
    return cases


def gen_raw_cases(run):
    """raw JSON values as parser input, as Python values and as JSON text"""
    rng = run.rng
    vals = [None, True, False, 0, 5, 1.5, "", "abc", "type", "{", "[1,", [], [1], ["type"], [["type", "identity"]],
            [["type", "identity"], ["id", "identity--" + UUID4]], ["ab"], [["a"]], [[1, 2]], {}, {"a": 1}, {"id": "x"},
            {"type": "identity"}, {"type": "bundle"}, {"type": "bundle", "id": "bundle--" + UUID4},
            {"type": "bundle", "id": "bundle--" + UUID4, "objects": []},
            {"type": "bundle", "id": "bundle--" + UUID4, "objects": "ab"},
            {"type": "bundle", "id": "bundle--" + UUID4, "objects": {"a": 1}},
            {"type": "bundle", "id": "bundle--" + UUID4, "objects": 5},
            {"type": "bundle", "id": "bundle--" + UUID4, "objects": [5]},
            {"type": "bundle", "id": "bundle--" + UUID4, "objects": [{"type": "identity", "id": "x", "spec_version": 5}]},
            {"type": "bundle", "id": "bundle--" + UUID4, "objects": [{"type": "identity", "id": "x", "spec_version": "2.1"},
                                                                        {"type": "identity", "id": "x", "spec_version": [1]}]},
            {"type": "bundle", "id": "bundle--" + UUID4, "objects": [{"type": "file", "id": "x"}, {"type": "identity", "id": "y"}]},
            {"type": "bundle", "id": "bundle--" + UUID4, "objects": [{"type": "bundle", "id": "b"}]},
            {"type": "bundle", "id": "bundle--" + UUID4, "objects": [{"type": "bundle", "id": "b", "objects": [{"id": 1}]}]},
            {"type": "bundle", "id": "bundle--" + UUID4, "spec_version": "2.0"},
            {"type": "x-foo", "id": "x-foo--" + UUID4}, {"type": "x-foo"},
            {"type": "x-foo", "id": "x", "extensions": {"extension-definition--" + UUID4: {"extension_type": "new-sdo"}}},
            {"type": "x-foo", "id": "x", "extensions": {"extension-definition--" + UUID4: {"extension_type": "property-extension"}}},
            {"type": "x-foo", "id": "x", "extensions": {"extension-definition--" + UUID4: {}}},
            {"type": "x-foo", "id": "x", "extensions": {"other": 5}},
            ]
    for k in KINDS:
        vals.append({"type": k})
        vals.append({"type": k, "id": "x"})
        vals.append({"type": "identity", "id": "identity--" + UUID4, "spec_version": k})
        vals.append({"type": "x-foo", "id": "x", "extensions": k})
        vals.append({"type": "x-foo", "id": "x", "extensions": {"extension-definition--" + UUID4: k}})
        vals.append({"type": "x-foo", "id": "x", "extensions": {"extension-definition--" + UUID4: {"extension_type": k}}})
        vals.append({"type": "bundle", "id": "bundle--" + UUID4, "objects": [k]})
        vals.append({"type": "bundle", "id": "bundle--" + UUID4, "objects": k})
    for nm in ODD_NAMES:
        vals.append({"type": nm})
        vals.append({"type": nm, "id": nm + "--" + UUID4})
        vals.append({"type": "x-foo", "id": "x", "extensions": {nm: {"extension_type": "new-sdo"}}})
        vals.append({"type": "identity", "spec_version": "2.1", "id": "identity--" + UUID4, "name": "n", nm: 1})
        vals.append({"type": "identity", "spec_version": "2.1", "id": "identity--" + UUID4, "name": "n", "custom_properties": {nm: 1}})
        vals.append({"type": "identity", "spec_version": "2.1", "id": "identity--" + UUID4, "name": "n", "extensions": {nm: {"a": 1}}})
    for h in HOSTILE:
        vals.append({"type": h})
        vals.append({"type": h, "id": h + "--" + UUID4})
        vals.append({"type": "x-foo", "id": "x", "extensions": {h: {"extension_type": "new-sdo"}}})
        vals.append({"type": "x-foo", "id": "x", "extensions": {"extension-definition--" + UUID4: {"extension_type": h}}})
        vals.append({"type": "bundle", "id": "bundle--" + UUID4, "objects": [{"type": h, "id": "x"}]})
        vals.append({h: h})
    cases = []
    for v in vals:
        for ac in (False, True):
            for ver in (None, "2.0", "2.1"):
                if ver is not None and rng.random() < 0.5 and run.tier != "thorough":
                    continue
                cases.append({"op": "parse", "data": v, "allow_custom": ac, "version": ver})
                cases.append({"op": "dict_to_stix2", "data": v, "allow_custom": ac, "version": ver})
                if not isinstance(v, str):
                    cases.append({"op": "parse_text", "data": v, "allow_custom": ac, "version": ver})
                    cases.append({"op": "parse_file", "data": v, "allow_custom": ac, "version": ver,
                                  "interoperability": rng.random() < 0.3})
        if isinstance(v, (dict, str)) or v is None or isinstance(v, list):
            cases.append({"op": "parse_observable", "data": v, "valid_refs": [], "version": rng.choice([None, "2.0", "2.1"])})
    # texts that are not JSON
    for t in ["", " ", "{", "}", "{'type': 'identity'}", "nul", "\ufeff{}", "[1,]", "{\"type\":}", "NaN", "Infinity", "1e999", "\"\\ud800\""]:
        cases.append({"op": "parse", "data": t})
        cases.append({"op": "parse_file", "data": t})
    return cases


def gen_marking_cases(run, desc):
    """marking definitions: the __init__ overrides read definition_type / definition / created before cleaning"""
    rng = run.rng
    out = []
    edk = "extension-definition--" + UUID4B
    for key in ("v20.common.MarkingDefinition", "v21.common.MarkingDefinition"):
        if key not in desc["classes"]:
            continue
        for dt in ("tlp", "statement", "x-other", "", 5, None, ["tlp"], {"a": 1}, True):
            for defn in ({"tlp": "white"}, {"tlp": "purple"}, {"tlp": 5}, {"statement": "s"}, {}, {"foo": 1}, '{"tlp": "red"}',
                         '{"statement": "s"}', "[1]", "5", "{", "", None, 5, [["tlp", "green"]], [1], True, JUNK):
                for op in ("parse", "construct"):
                    c = {"op": op, "base": key, "subst": [[["definition_type"], dt], [["definition"], defn]]}
                    if op == "construct":
                        c["cls"] = key
                    if rng.random() < 0.5 or run.tier == "thorough":
                        out.append(c)
            for ext in (None, {}, {edk: {"extension_type": "property-extension"}}, "abc"):
                c = {"op": "parse", "base": key, "subst": [[["definition_type"], dt]] + ([[["extensions"], ext]] if ext is not None else []),
                     "drop": ["definition"], "allow_custom": key.startswith("v20") and ext is not None}
                out.append(c)
        for cr in KINDS + ["2020-01-01T00:00:00Z", "2020-01-01T00:00:00.000Z", "x.y"]:
            for dt, defn in (("tlp", {"tlp": "white"}), ("statement", {"statement": "s"})):
                out.append({"op": "parse", "base": key, "subst": [[["created"], cr], [["definition_type"], dt], [["definition"], defn]]})
        # the predefined TLP markings must still parse
        for color, mid in (("white", "613f2e26-407d-48c7-9eca-b8e91df99dc9"), ("green", "34098fce-860f-48ae-8e50-ebd3cc5e41da")):
            d = {"type": "marking-definition", "id": "marking-definition--" + mid, "created": "2017-01-20T00:00:00.000Z",
                 "definition_type": "tlp", "definition": {"tlp": color}}
            if key.startswith("v21"):
                d.update(spec_version="2.1", name="TLP:" + color.upper())
            out.append({"op": "parse", "data": d})
            out.append({"op": "parse", "data": dict(d, id="marking-definition--" + UUID4)})
    return out


EXT_A = "extension-definition--11111111-1111-4111-8111-111111111111"
EXT_B = "extension-definition--22222222-2222-4222-8222-222222222222"
EXT_C = "extension-definition--33333333-3333-4333-8333-333333333333"
EXT_D = "extension-definition--44444444-4444-4444-8444-444444444444"


def gen_custom_registry_cases(run, desc):
    """run in a worker process in which user classes were registered through the public decorators
    (c17_impl.register_custom): objects carrying none / one / several registered extensions, the custom
    types themselves, valid and wrong-kind values for the extension-defined properties.  Observed: the
    escaping class and a DEEP snapshot of the registries (class objects, property tables) around each call."""
    rng = run.rng
    tl = {"extension_type": "toplevel-property-extension"}
    hosts = [identity21(),
             {"type": "file", "spec_version": "2.1", "id": "file--" + UUID4, "name": "x"},
             {"type": "x-c17-thing", "spec_version": "2.1", "id": "x-c17-thing--" + UUID4, "created": TS, "modified": TS, "size": 3,
              "extensions": {EXT_D: {"extension_type": "new-sdo"}}},
             {"type": "x-c17-obs", "spec_version": "2.1", "id": "x-c17-obs--" + UUID4, "val": "v"},
             {"type": "marking-definition", "spec_version": "2.1", "id": "marking-definition--" + UUID4, "created": TS,
              "definition_type": "x-c17-marking", "definition": {"note": "n"}},
             {"type": "x-c17-thing", "id": "x-c17-thing--" + UUID4, "created": TS, "modified": TS, "size": 3}]
    ext_sets = [[], [EXT_A], [EXT_B], [EXT_A, EXT_B], [EXT_B, EXT_A], [EXT_A, EXT_C], [EXT_A, EXT_B, EXT_C], [EXT_A, "foo-ext"],
                [EXT_A, "extension-definition--" + UUID4B]]
    tl_vals = {"a_note": ["x"] + KINDS, "b_rank": [3, -3] + KINDS, "b_tags": [["t"]] + KINDS}
    out = []
    kinds = KINDS if run.tier == "thorough" else FEW_KINDS
    for h in hosts:
        for es in ext_sets:
            exts = dict(h.get("extensions", {}))
            for e in es:
                exts[e] = {"extension_type": "property-extension", "c_val": "c"} if e == EXT_C else dict(tl)
            base = dict(h)
            if exts:
                base["extensions"] = exts
            props = (["a_note"] if EXT_A in es else []) + (["b_rank", "b_tags"] if EXT_B in es else [])
            variants = [dict(base)]
            good = dict(base)
            for pn in props:
                good[pn] = tl_vals[pn][0]
            variants.append(good)
            for pn in ("a_note", "b_rank", "b_tags"):
                for v in (tl_vals[pn] if run.tier == "thorough" else tl_vals[pn][:2] + rng.sample(KINDS, 3)):
                    variants.append(dict(good, **{pn: v}))
            # a failing slot elsewhere, with the extensions in place
            for k in list(h.keys()):
                if k != "extensions":
                    variants.append(dict(good, **{k: rng.choice(kinds)}))
            for e in es:
                for v in rng.sample(KINDS, 2):
                    ex2 = dict(exts)
                    ex2[e] = v
                    variants.append(dict(good, extensions=ex2))
            for d in variants:
                out.append({"op": "parse", "data": d, "allow_custom": rng.random() < 0.2})
    return out


def gen_history_cases(run, desc):
    """history: a call that FAILS under one combination of flags, then a call on the same questionable value under
    another combination; the second outcome must equal what a pristine process gives (a failed construction leaves
    no trace: registries, class tables, Property objects, caches)"""
    rng = run.rng
    nil = "00000000-0000-0000-0000-000000000000"
    v1 = "a8098c1a-f86e-11da-bd1a-00112444be1e"
    hosts = [(identity21(), "name"),
             ({"type": "identity", "id": "identity--" + UUID4, "created": TS, "modified": TS, "name": "n", "identity_class": "individual"}, "name"),
             ({"type": "file", "spec_version": "2.1", "id": "file--" + UUID4, "name": "x"}, "name"),
             ({"type": "x-c17-thing", "spec_version": "2.1", "id": "x-c17-thing--" + UUID4, "created": TS, "modified": TS, "size": 3,
               "extensions": {EXT_D: {"extension_type": "new-sdo"}}}, "size")]
    out = []
    flags = [(ac, io) for ac in (False, True) for io in (False, True)]
    for host, req in hosts:
        t = host["type"]
        variants = [dict(host, id=t + "--" + u) for u in (nil, v1, UUID4.upper(), UUID4.replace("-", ""))]
        variants += [dict(host, x_c17=1), dict(host, custom_properties={"x_c17": 1}), dict(host, created="2020-01-01T00:00:00Z"),
                     dict(host, extensions={"x-unknown-ext": {"a": 1}})]
        for v in variants:
            broken = {k: x for k, x in v.items() if k != req}
            for fa in flags:
                for fb in (flags if run.tier == "thorough" else rng.sample(flags, 2)):
                    if fa == fb:
                        continue
                    first = {"op": "parse", "data": broken, "allow_custom": fa[0], "interoperability": fa[1]}
                    then = {"op": "parse", "data": v, "allow_custom": fb[0], "interoperability": fb[1]}
                    out.append({"op": "history", "first": first, "then": then})
                    out.append({"op": "history", "first": dict(first, op="construct_by_type"), "then": then}) if False else None
    return [c for c in out if c]


def gen_store_cases(run, desc):
    rng = run.rng
    out = []
    good21 = identity21()
    good20 = {"type": "identity", "id": "identity--" + UUID4B, "created": TS, "modified": TS, "name": "n", "identity_class": "individual"}
    bads = [identity21(name=5), identity21(extensions="abc"), identity21(created="x"), dict(good20, labels=5),
            {"type": "indicator", "id": "indicator--" + UUID4, "created": TS, "modified": TS, "pattern": "", "valid_from": TS, "labels": ["x"]},
            {"type": "marking-definition", "id": "marking-definition--" + UUID4, "created": 5, "definition_type": "statement",
             "definition": {"statement": "s"}},
            identity21(custom_properties=0), identity21(id=5), identity21(modified=None, created=[1])]
    for b in bads:
        out.append({"op": "store_add", "data": b, "pre": []})
        out.append({"op": "store_add", "data": b, "pre": [good20]})
        out.append({"op": "store_add", "data": [good21, b], "pre": []})
        out.append({"op": "store_add", "data": [good20, b, good21], "pre": []})
    out.append({"op": "store_add", "data": good21, "pre": []})
    out.append({"op": "store_add", "data": [good21, good20], "pre": []})
    keys = [k for k, cat in reachable(desc) if cat == "objects" and not k.endswith("Bundle")]
    for key in (keys if run.tier == "thorough" else rng.sample(keys, min(12, len(keys)))):
        base = desc["classes"][key]["base"]
        for name in rng.sample(list(base.keys()), min(3, len(base))):
            out.append({"op": "store_add", "base": key, "subst": [[[name], rng.choice(KINDS)]], "pre": [good20]})
    return out


def gen_huge_number_cases(run, desc):
    """an integer beyond the range of a double at every id-contributing position of every 2.1 observable given without
    an id (the deterministic id is computed from the cleaned values, outside the property wrapper), through every entry
    point; never sampled away"""
    edk = "extension-definition--" + UUID4B
    out = []
    for key, c in desc["classes"].items():
        if not (key.startswith("v21.observables.") and c.get("id_contrib") and "id" in c["base"]):
            continue
        base = c["base"]
        variants = []
        for name in c["id_contrib"]:
            for h in (HUGE, -HUGE):
                variants.append([[[name], h]])
            if name == "extensions":
                variants.append([[[name], {edk: {"extension_type": "property-extension", "n": HUGE}}]])
                variants.append([[[name], {edk: {"extension_type": "property-extension", "n": [1, {"m": -HUGE}]}}]])
            if isinstance(base.get(name), dict):
                variants.append([[[name, "n"], HUGE]])
            if isinstance(base.get(name), list):
                variants.append([[[name], list(base[name]) + [HUGE]]])
        for sub in variants:
            for op in ("parse", "construct", "parse_observable", "dict_to_stix2"):
                cse = {"op": op, "base": key, "subst": sub, "drop": ["id"] + (["_valid_refs"] if op == "parse_observable" else [])}
                if op == "construct":
                    cse["cls"] = key
                if op == "parse_observable":
                    cse["valid_refs"] = base.get("_valid_refs")
                    cse["version"] = "2.1"
                out.append(cse)
    return out


def gen_deep_sites(run):
    """a deep value at every nesting site (extension content, dictionary-valued property, hashes, observed-data
    member, embedded object, custom property) x entry point (parse, dict_to_stix2, constructor, parse_observable)
    x with / without id for 2.1 observables"""
    edk = "extension-definition--" + UUID4B
    file21 = {"type": "file", "spec_version": "2.1", "name": "a.txt"}
    proc21 = {"type": "process", "spec_version": "2.1", "pid": 5}
    nt21 = {"type": "network-traffic", "spec_version": "2.1", "src_ref": "ipv4-addr--" + UUID4B, "protocols": ["tcp"]}
    em21 = {"type": "email-message", "spec_version": "2.1", "is_multipart": False}
    wrk21 = {"type": "windows-registry-key", "spec_version": "2.1", "key": "HKLM"}
    file20 = {"type": "file", "name": "a.txt"}
    od20 = {"type": "observed-data", "id": "observed-data--" + UUID4, "created": TS, "modified": TS, "first_observed": TS,
            "last_observed": TS, "number_observed": 1, "objects": {"0": {"type": "file", "name": "x"}}}
    sites = [
        # (class key, host, path of the deep value, the dicts along the path are already present)
        ("v21.observables.File", dict(file21, extensions={edk: {"extension_type": "property-extension"}}), ["extensions", edk, "payload"]),
        ("v21.observables.File", dict(file21, extensions={"ntfs-ext": {"sid": "1"}}), ["extensions", "ntfs-ext", "sid"]),
        ("v21.observables.File", dict(file21, hashes={"MD5": "d41d8cd98f00b204e9800998ecf8427e"}), ["hashes", "MD5"]),
        ("v21.observables.File", dict(file21), ["x_deep"]),
        ("v21.observables.Process", dict(proc21, environment_variables={"abc": "v"}), ["environment_variables", "abc"]),
        ("v21.observables.NetworkTraffic", dict(nt21, ipfix={"abc": "v"}), ["ipfix", "abc"]),
        ("v21.observables.NetworkTraffic", dict(nt21, extensions={edk: {"extension_type": "property-extension"}}), ["extensions", edk, "p"]),
        ("v21.observables.EmailMessage", dict(em21, additional_header_fields={"abc": ["v"]}), ["additional_header_fields", "abc"]),
        ("v21.observables.WindowsRegistryKey", dict(wrk21, values=[{"name": "n"}]), ["values", 0, "data"]),
        ("v20.observables.File", dict(file20, extensions={"ntfs-ext": {"sid": "1"}}), ["extensions", "ntfs-ext", "sid"]),
        ("v20.sdo.ObservedData", od20, ["objects", "0", "name"]),
        ("v20.sdo.ObservedData", od20, ["objects", "0", "extensions"]),
        ("v21.sdo.Identity", identity21(extensions={edk: {"extension_type": "property-extension"}}), ["extensions", edk, "p"]),
        ("v21.sdo.Identity", identity21(external_references=[{"source_name": "s", "url": "u"}]), ["external_references", 0, "hashes"]),
    ]
    out = []
    for depth in (300, 700, 1100, 3000):
        for shape in ("list", "dict"):
            for key, host, at in sites:
                hosts = [host]
                if key.startswith("v21.observables."):
                    hosts.append(dict(host, id=host["type"] + "--" + UUID4))
                for h in hosts:
                    d = {"shape": shape, "depth": depth, "within": h, "at": at}
                    ac = at == ["x_deep"]
                    for via in (None, "dict_to_stix2", "construct") + (("parse_observable",) if ".observables." in key else ()):
                        c = {"op": "deep", "deep": d, "allow_custom": ac}
                        if via:
                            c["via"] = via
                        if via == "construct":
                            c["cls"] = key
                        if via == "parse_observable":
                            c["version"] = "2.0" if key.startswith("v20") else "2.1"
                        out.append(c)
    return out


def gen_deep_cases(run):
    """deep nesting: exercised on the implementation only (except JSON text depth, a modelled site)"""
    w = identity21()
    out = gen_deep_sites(run)
    for depth in (400, 3000, 100000):
        out.append({"op": "deep", "deep": {"shape": "list", "depth": depth, "text": True}})
        out.append({"op": "deep", "deep": {"shape": "dict", "depth": depth, "text": True}})
        out.append({"op": "deep", "via": "file", "deep": {"shape": "list", "depth": depth, "text": True}})
    for depth in (400, 3000):
        out.append({"op": "deep", "deep": {"shape": "list", "depth": depth, "within": w, "at": ["labels"]}})
        out.append({"op": "deep", "deep": {"shape": "dict", "depth": depth, "within": w, "at": ["extensions"]}})
        out.append({"op": "deep", "deep": {"shape": "dict", "depth": depth, "within": w, "at": ["x_custom"]}, "allow_custom": True})
        out.append({"op": "deep", "deep": {"shape": "dict", "depth": depth, "within": {"type": "x-foo", "id": "x"}, "at": ["v"]},
                    "allow_custom": True})
        out.append({"op": "deep", "deep": {"shape": "dict", "depth": depth, "within": {"id": "x"}, "at": ["v"]}})
        out.append({"op": "deep", "deep": {"shape": "bundle", "depth": depth}})
        out.append({"op": "deep", "via": "dict_to_stix2", "deep": {"shape": "bundle", "depth": depth}})
        out.append({"op": "deep", "via": "dict_to_stix2", "deep": {"shape": "dict", "depth": depth, "within": {"id": "x"}, "at": ["v"]}})
        out.append({"op": "deep", "via": "parse_observable", "version": "2.0",
                    "deep": {"shape": "dict", "depth": depth, "within": {"type": "file", "name": "x"}, "at": ["extensions"]}})
    return out


# ----------------------------------------------------------------------------
# the model side

PRELUDE = """From Coq Require Import NArith ZArith List String Bool.
From V Require Import Base.UString Base.Json Model.Errors Model.ErrorsCases Gen.C17Classes.
Import ListNotations. Open Scope string_scope.
Definition CL (k : string) : cls := match class_named k all_classes with Some c => c
  | None => {| c_key := k; c_ver20 := false; c_kind := BPlain; c_slots := []; c_pre := [PreUnknown]; c_cons := [] |} end.
"""


def ident(key):
    return "B_" + "".join(ch if ch.isalnum() else "_" for ch in key)


class Interner:
    """per case file: every distinct string / JSON value / base object is defined once in the header and referred
    to by name (elaborating string literals is what costs time, not evaluating the model)"""

    def __init__(self, desc):
        self.desc = desc
        self.names = {}
        self.defs = []

    def _get(self, kind, key, ty, mk):
        k = (kind, key)
        if k not in self.names:
            name = "%s%d" % (kind, len(self.names))
            self.names[k] = name
            self.defs.append("Definition %s : %s := %s." % (name, ty, mk()))
        return self.names[k]

    def u(self, s):
        return self._get("s", s, "ustring", lambda: common.coq_ustr(s))

    def j(self, v):
        return self._get("j", json.dumps(v), "jvalue", lambda: common.coq_jvalue(v))

    def base(self, key):
        k = ("B", key)
        if k not in self.names:
            self.names[k] = ident(key)
            self.defs.append("Definition %s : jvalue := %s." % (ident(key), common.coq_jvalue(self.desc["classes"][key]["base"])))
        return self.names[k]

    def raw(self, kind, key, ty, text):
        return self._get(kind, key, ty, lambda: text)


def coq_path(path, I):
    return "[" + "; ".join(("PK %s" % I.u(p)) if isinstance(p, str) else ("PI %d" % p) for p in path) + "]"


def value_term(case, I):
    """Gallina term of the input value of a base/subst/drop or data case"""
    if "base" in case:
        t = I.base(case["base"])
        for path, val in case.get("subst", []):
            t = "(set_path %s %s %s)" % (coq_path(path, I), I.j(val), t)
        if case.get("drop"):
            t = "(drop_keys %s %s)" % (common.coq_list([I.u(k) for k in case["drop"]]), t)
        return t
    return I.j(case.get("data"))


def text_result(text, I):
    try:
        return "(TDecoded %s)" % I.j(json.loads(text))
    except RecursionError:
        return "TTooDeep"
    except ValueError:
        return "TBad"
    except TypeError:
        return "TBad"


def dec_term(data, I):
    """decoder table for the texts the code may json.loads inside the value: marking `definition` strings"""
    if isinstance(data, dict) and isinstance(data.get("definition"), str):
        s = data["definition"]
        return "(dec_table [(%s, %s)])" % (I.u(s), text_result(s, I))
    return "nodec"


def ver_term(v, I):
    return "None" if v is None else "(Some %s)" % I.u(v)


def model_term(case, desc, I):
    op = case["op"]
    ac = common.coq_bool(bool(case.get("allow_custom", False))) + " " + common.coq_bool(bool(case.get("interoperability", False)))
    ver = ver_term(case.get("version"), I)
    data = materialise(case, desc) if op != "deep" else None
    if op == "deep":
        d = case["deep"]
        if d.get("text") and "within" not in d and not case.get("via"):
            # a JSON text nested `depth` deep: what json.loads does is observed on this interpreter
            n = d["depth"]
            text = ("[" * n + "1" + "]" * n) if d["shape"] == "list" else ('{"a":' * n + "1" + "}" * n)
            try:
                json.loads(text)
                return None      # decodable here: the value is too large for a case file; implementation only
            except RecursionError:
                return "PT TTooDeep %s %s" % (ac, ver)
        return None
    if op == "parse":
        if isinstance(data, str):
            return "PT %s %s %s" % (text_result(data, I), ac, ver)
        return "PV %s %s %s %s" % (dec_term(data, I), value_term(case, I), ac, ver)
    if op == "dict_to_stix2":
        return "PD %s %s %s" % (value_term(case, I), ac, ver)
    if op in ("parse_text", "parse_file"):
        tr = text_result(data, I) if isinstance(data, str) else "(TDecoded %s)" % value_term(case, I)
        return "%s %s %s %s" % ("PT" if op == "parse_text" else "PF", tr, ac, ver)
    if op == "construct":
        return "PC %s %s %s %s" % (dec_term(data, I), I.raw("c", case["cls"], "cls", "CL %s" % common.coq_str(case["cls"])), ac,
                                   value_term(case, I))
    if op == "parse_observable":
        vr = I.j(case.get("valid_refs"))
        if isinstance(data, str):
            return "POT %s %s %s %s" % (text_result(data, I), vr, ac, ver)
        return "PO %s %s %s %s %s" % (dec_term(data, I), value_term(case, I), vr, ac, ver)
    if op == "store_add":
        if isinstance(data, list):
            return "show_store_outcomes (store_add_list VAR REG CLN SX RF nodec [] %s %s)" % (
                common.coq_list([I.j(x) for x in data]), ver)
        return "show_store_outcomes (store_add_one VAR REG CLN SX RF %s [] %s %s)" % (dec_term(data, I), value_term(case, I), ver)
    return None


HELPERS = """Definition nodec : decoder := dec_table [].
Definition tkey : ustring := u "t".
Definition PV dec x ac io ver := show_MP (parse VAR REG CLN SX RF dec x ac io ver).
Definition PT tr ac io ver := show_MP (parse VAR REG CLN SX RF (fun _ => tr) (JStr tkey) ac io ver).
Definition PD x ac io ver := show_MP (dict_to_stix2 VAR REG CLN SX RF nodec x false ac io ver).
Definition PF tr ac io ver := show_MP (parse_file VAR REG CLN SX RF nodec tr ac io ver).
Definition PC dec c ac io x := show_MU (call_check (kw_of x) false ;;; construct VAR REG CLN SX dec c ac io (kw_of x)).
Definition PO dec x vr ac io ver := show_MP (parse_observable VAR REG CLN SX RF dec x vr ac io ver).
Definition POT tr vr ac io ver := show_MP (parse_observable VAR REG CLN SX RF (fun _ => tr) (JStr tkey) vr ac io ver).
"""


def eval_model(tag, cases, desc, unguarded, shard=400, timeout=900, refuse=False, registry="live"):
    """evaluate the model on the cases (None for cases without a model term); per-shard headers carry the base objects"""
    var = ("Definition VAR : variant := unguarded_at (sites_named %s).\nDefinition RF : bool := %s.\nDefinition REG : registry := %s.\nDefinition SX : bool := %s.\n"
           "Definition CLN : cleaner := clean_struct 6 VAR REG SX RF %s.\n") % (
        common.coq_list([common.coq_str(t) for t in unguarded]), common.coq_bool(refuse), registry,
        common.coq_bool(MODE["strict_unregistered_extension"]),
        "all_classes_custom" if registry == "live_custom" else "all_classes")
    cases_dir = os.path.join(common.COQ, "Cases")
    os.makedirs(cases_dir, exist_ok=True)
    jobs = []
    k = 0
    i = 0
    while i < len(cases):
        I = Interner(desc)
        chunk = []
        while i < len(cases) and len(chunk) < shard:
            t = model_term(cases[i], desc, I)
            if t is not None:
                chunk.append((i, t))
            i += 1
        if not chunk:
            continue
        name = "%s_%d_%d" % (tag, os.getpid(), k)
        k += 1
        path = os.path.join(cases_dir, name + ".v")
        with open(path, "w", encoding="utf-8") as f:
            f.write(PRELUDE + var + HELPERS + "\n".join(I.defs) + "\nEval vm_compute in (render_lines [\n%s\n]).\n"
                    % ";\n".join(t for _, t in chunk))
        jobs.append((name, path, chunk))

    def runjob(job):
        name, path, chunk = job
        p = subprocess.run(["bash", "-c", "ulimit -s unlimited 2>/dev/null || ulimit -s 1000000; exec timeout %d coqc -Q . V -w none %s"
                            % (timeout, os.path.join("Cases", name + ".v"))],
                           cwd=common.COQ, stdout=subprocess.PIPE, stderr=subprocess.PIPE, text=True)
        err = None
        if p.returncode != 0:
            err = "coqc failed on case file %s:\n%s" % (name, (p.stderr or p.stdout)[-3000:])
            try:
                os.replace(path, os.path.join(common.scratch(), name + ".v"))
            except OSError:
                pass
        for ext in (".v", ".vo", ".vok", ".vos", ".glob"):
            try:
                os.remove(os.path.join(cases_dir, name + ext))
            except OSError:
                pass
        try:
            os.remove(os.path.join(cases_dir, "." + name + ".aux"))
        except OSError:
            pass
        if err:
            raise RuntimeError(err)
        lines = common._parse_eval_output(p.stdout)
        if len(lines) != len(chunk):
            raise RuntimeError("case file %s: expected %d result lines, got %d" % (name, len(chunk), len(lines)))
        return lines

    out = [None] * len(cases)
    with ThreadPoolExecutor(max_workers=common.NCPU) as ex:
        for job, lines in zip(jobs, ex.map(runjob, jobs)):
            for (i, _), line in zip(job[2], lines):
                out[i] = line
    return out


def parse_set(line):
    """'Ok:obj;InvalidValueError@lib;...' -> set of (name, site)"""
    out = set()
    for part in line.split(";"):
        if not part:
            continue
        if "@" in part:
            n, s = part.split("@", 1)
            out.add((n, s))
        else:
            out.add((part, None))
    return out


def parse_store_set(line):
    out = set()
    for part in line.split(";"):
        if not part:
            continue
        head, n = part.rsplit("/", 1)
        if "@" in head:
            nm, s = head.split("@", 1)
            out.add((nm, s, int(n)))
        else:
            out.add((head, None, int(n)))
    return out


# ----------------------------------------------------------------------------
# comparing

def impl_label(case, r):
    if r["out"] == "Ok":
        if case["op"] in ("parse", "parse_text", "parse_file", "parse_observable", "deep", "dict_to_stix2"):
            return "Ok:" + ("obj" if r.get("ret") == "obj" else "dict")
        return "Ok"
    return r.get("cls")


def refines(case, r, mset):
    """is the implementation's outcome a member of the model's outcome set"""
    if r["out"] not in ("Ok", "Raise"):
        return True
    lab = impl_label(case, r)
    names = {n for n, _ in mset}
    if lab in names:
        return True
    if r["out"] == "Ok" and case["op"] == "construct":
        return "Ok" in names
    return False


SITE_FNS = {
    "init-extensions-nondict": {"base._STIXBase.__init__"},
    "init-extension-entry-nondict": {"base._STIXBase.__init__"},
    "init-toplevel-props-missing": {"base._STIXBase.__init__"},
    "init-custom-properties-falsy-nondict": {"base._STIXBase.__init__"},
    "constraints-custom-granular-markings": {"base._STIXBase._check_object_constraints"},
    "v20-marking-created-precision": {"v20.common._should_set_millisecond"},
    "dict-to-stix2-extensions-nondict": {"parsing.dict_to_stix2"},
    "dict-to-stix2-extension-entry-nondict": {"parsing.dict_to_stix2"},
    "detect-bundle-without-objects": {"utils.detect_spec_version"},
    "detect-nested-object-without-type": {"utils.detect_spec_version"},
    "tlp-without-definition": {"markings.utils.check_tlp_marking", "base._STIXBase.__getitem__"},
    "indicator20-empty-pattern-validator-crash": {"v20.sdo.Indicator._check_object_constraints"},
    "indicator21-empty-pattern-validator-crash": {"v21.sdo.Indicator._check_object_constraints"},
    "json-text-nesting-depth": {"utils._get_dict"},
    "generate-id-huge-integer-overflowerror": {"canonicalization.NumberToJson.convert2Es6Format"},
}

MODE = {"refuse_custom": False, "strict_unregistered_extension": False}
SIGNATURES = {}     # (class, function, source line, normalised message) of each witness's escape -> finding id


def signature(r):
    msg = re.sub(r"'\w+' object", "object", r.get("msg") or "")
    msg = re.sub(r"type object '\w+'", "type object", msg)
    return (r.get("cls"), r.get("fn"), r.get("line"), msg[:60])


def classify(case, r, mset):
    """finding id of a non-family outcome: the unguarded site the model attributes it to (the function on the
    traceback must be that site's); without a model set, the exact signature of a witness's escape"""
    cls = r.get("cls")
    if cls == "OverflowError" and (r.get("fn") or "").startswith("canonicalization."):
        # float(huge int) in the canonicaliser, reached from _generate_id of an id-less 2.1 observable
        return "C17-generate-id-huge-integer-overflowerror"
    if cls == "RecursionError":
        sites = [s for n, s in (mset or ()) if n == "RecursionError" and s and s != "lib"]
        if sites:
            return "C17-" + sites[0]
        if r.get("fn") == "utils._get_dict":          # json.load on a file-like object: same site, not a model op
            return "C17-json-text-nesting-depth"
        fn = r.get("fn") or "interpreter"
        if case.get("via") == "dict_to_stix2":
            # the secondary entry point stix2.parsing.dict_to_stix2 called directly (parse() guards its own call)
            if "detect_spec_version" in fn:
                return "C17-recursion-direct-dict-to-stix2-nested-bundles"
            if fn == "parsing.dict_to_stix2":
                return "C17-recursion-direct-dict-to-stix2-no-type-message"
        fn = fn.replace(".", "-").replace("_", "-").replace("<", "").replace(">", "").strip("-").lower()
        return "C17-recursion-" + re.sub("-+", "-", fn)
    sites = sorted(s for n, s in (mset or ()) if n == cls and s and s != "lib")
    # (DataStoreMixin.add catches an AttributeError of the sink and raises a new one itself)
    via_store = case["op"] == "store_add" and r.get("fn") == "datastore.DataStoreMixin.add" and cls == "AttributeError"
    sites = [s for s in sites if via_store or r.get("fn") in SITE_FNS.get(s, ())]
    if sites:
        return "C17-" + sites[0]
    if not mset or all(s in (None, "lib") for _, s in mset):
        return SIGNATURES.get(signature(r))
    return None


def oracle_one(case, r, mset):
    """the property on one observation; returns list of Violation"""
    out = []
    if r["out"] == "HarnessError":
        return out
    if r["out"] == "History":
        if r.get("differs") and (r.get("first") or {}).get("out") == "Raise":
            out.append(Violation(
                "after a FAILED %s (%s), %s gives %s but a pristine process gives %s: the failed construction left a trace" % (
                    short(case["first"]), r["first"].get("cls"), short(case["then"]),
                    r["after"].get("cls") or r["after"].get("out"), r["alone"].get("cls") or r["alone"].get("out")),
                {"kind": "history", "case": case}))
        return out
    if r["out"] == "Raise" and not r.get("family"):
        fid = classify(case, r, mset)
        out.append(Violation(
            "%s on %s raised %s (%s) from %s: %s" % (case["op"], short(case), r.get("cls"), "outside the documented family",
                                                     r.get("fn"), (r.get("msg") or "")[:80]),
            {"kind": "family", "case": case}, finding=fid))
    if r.get("reg_same") is False and r["out"] == "Raise":
        out.append(Violation("%s on %s failed (%s) and changed the class registries (deep snapshot: class objects / property "
                             "tables of a registered class differ)" % (case["op"], short(case), r.get("cls")),
                             {"kind": "registry", "case": case, "custom_registry": bool(case.get("_custom"))}))
    if case["op"] == "store_add" and r["out"] == "Raise" and r.get("construct_failed") and r.get("store_same") is False \
            and not isinstance(case.get("data"), list):
        out.append(Violation("store.add of %s failed (%s) but changed the store" % (short(case), r.get("cls")),
                             {"kind": "store", "case": case}))
    return out


def short(case):
    if "base" in case:
        return "%s%s%s" % (case["base"], "".join(" %s:=%s" % ("/".join(map(str, p)), json.dumps(v)[:40]) for p, v in case.get("subst", [])),
                           (" drop " + ",".join(case["drop"])) if case.get("drop") else "")
    if "deep" in case:
        return "deep %s" % json.dumps(case["deep"])[:80]
    return json.dumps(case.get("data"))[:100]


# ----------------------------------------------------------------------------

def run_witnesses():
    ws = witnesses()
    tags = list(ws)
    probe = {"op": "parse", "allow_custom": False, "data": identity21(custom_properties={"x_a": 1})}
    # base.py (fix 2c41d60): an unregistered toplevel-property-extension vouches for extra properties only on a class
    # that has an `extensions` property -- probed on a 2.0 identity
    probe2 = {"op": "parse", "allow_custom": False, "data": {
        "type": "identity", "id": "identity--" + UUID4, "created": TS, "modified": TS, "name": "n", "identity_class": "individual",
        "extensions": {"foo-ext": {"extension_type": "toplevel-property-extension"}}}}
    res = common.run_impl("c17_impl", [ws[t] for t in tags] + [probe, probe2], procs=2)
    pr2 = res.pop()
    MODE["strict_unregistered_extension"] = pr2["out"] == "Raise" and pr2.get("cls") == "ExtraPropertiesError"
    pr = res.pop()
    # parsing._refuse_unrequested_custom (present from fix c6e00f7 on): a mode of the model, not a defect site
    MODE["refuse_custom"] = pr["out"] == "Raise" and pr.get("cls") == "CustomContentError"
    unguarded = []
    for t, r in zip(tags, res):
        if r["out"] == "Raise" and not r.get("family"):
            unguarded.append(t)
            if r.get("cls") != "RecursionError":
                SIGNATURES[signature(r)] = "C17-" + t
    return unguarded, dict(zip(tags, res))


def check(run):
    import tr_c17classes
    run.coverage["rule"] = (
        "for every class of stix2.v20/v21 a maximal valid base object (built by trial construction on the real code); cases = "
        "that object with one (or two) values replaced by another JSON kind (null, numbers, strings, lists, objects, nested "
        "junk) at every top-level slot, at embedded paths (depth<=3) and in extensions entries, required slots dropped, "
        "unknown/reserved keys added, via parse / direct construction / parse_observable / MemoryStore.add; plus raw JSON "
        "values and texts as parser input and deep-nesting inputs.  quick samples kinds per slot, thorough takes all. "
        "A case is non-trivial unless it is an unmodified base object.")
    desc = None
    gen_ok = False
    with common.Lock():
        try:
            text, extra = tr_c17classes.translate(common.REPO, common.PY)
            desc = extra["describe"]
            common.write_if_changed(os.path.join(common.COQ, "Gen", "C17Classes.v"), text)
            gen_ok = True
            if extra["unknown_hooks"]:
                run.notes.append("classes with an __init__/_check_object_constraints override of a shape the translator "
                                 "does not understand: %s" % extra["unknown_hooks"])
            run.coverage["fingerprints"] = extra["fingerprints"]
        except (tr_c17classes.TranslateError, OSError, ValueError, subprocess.SubprocessError) as e:
            run.broken.append(Broken("translator", "tr_c17classes", {"error": "%s: %s" % (type(e).__name__, str(e)[-1500:])}))
        if gen_ok:
            res = common.build_props("Props/C17.v", extra_targets=["Model/ErrorsCases.vo"])
            run.add_build(res, "make -C coq Props/C17.vo (coqc 8.16.1, full .vo) + Print Assumptions per theorem")
            model_ok = res["ok"]
            if not res["ok"]:
                # a proof broke: the model itself may still evaluate (Model/ files contain no proofs)
                model_ok, _ = common.make(["Model/ErrorsCases.vo", "Gen/C17Classes.vo"])
        else:
            run.coverage["obligations"] += len(common.theorems_in("Props/C17.v"))
            model_ok = False
    if desc is None:
        # the class tables could not even be read: nothing to generate from
        return

    unguarded, wres = run_witnesses()
    flow = extra.get("flow") if gen_ok else None
    if flow:
        run.coverage["flow_inventory"] = {k: flow[k] for k in ("occurrences", "auto", "reviewed", "unmatched")}
        src_unguarded = sorted(t for t, v in flow["sites"].items() if v is False)
        if src_unguarded != sorted(unguarded) and all(v is not None for v in flow["sites"].values()):
            run.broken.append(Broken("translator", "tr_c17flow: guards read off the source disagree with the witness probes",
                                     {"source_unguarded": src_unguarded, "probed_unguarded": sorted(unguarded)}))
    run.coverage["variant"] = {"unguarded_sites": unguarded, "guarded_sites": [t for t in SITE_TAGS if t not in unguarded],
                               "refuse_unrequested_custom": MODE["refuse_custom"],
                               "strict_unregistered_extension": MODE["strict_unregistered_extension"]}

    cases = gen_slot_cases(run, desc) + gen_raw_cases(run) + gen_marking_cases(run, desc) + gen_store_cases(run, desc)
    ws = witnesses()
    # witnesses, huge numbers at id-contributing positions and deep-nesting inputs are never sampled away
    tail = [ws[t] for t in ws] + gen_huge_number_cases(run, desc) + gen_deep_cases(run)
    if run.tier != "thorough" and len(cases) > 13600:
        idx = sorted(run.rng.sample(range(len(cases)), 13600))      # keep the grouping by class (case-file headers)
        cases = [cases[i] for i in idx]
    cases += tail
    impl = common.run_impl("c17_impl", cases)
    for c, r in zip(cases, impl):
        run.count(c, nontrivial=not ("base" in c and not c.get("subst") and not c.get("drop")))
    hist = {}
    for c, r in zip(cases, impl):
        k = "%s/%s" % (c["op"], r.get("cls") if r["out"] == "Raise" else r["out"])
        hist[k] = hist.get(k, 0) + 1
    run.coverage["outcome_histogram"] = dict(sorted(hist.items()))
    bad_bases = [k for k, c in desc["classes"].items() if not c.get("base_valid")]
    if bad_bases:
        run.notes.append("no valid base object could be built for: %s" % bad_bases)

    msets = [None] * len(cases)
    if model_ok:
        try:
            lines = eval_model("c17", cases, desc, unguarded, refuse=MODE["refuse_custom"])
            dis = []
            n_model = 0
            for i, (c, r, line) in enumerate(zip(cases, impl, lines)):
                if line is None:
                    continue
                n_model += 1
                if c["op"] == "store_add":
                    sset = parse_store_set(line)
                    msets[i] = {(n, s) for n, s, _ in sset}
                    lab = "Added" if r["out"] == "Ok" else r.get("cls")
                    if r["out"] in ("Ok", "Raise") and lab not in {n for n, _, _ in sset}:
                        dis.append((c, r, line))
                    continue
                mset = parse_set(line)
                msets[i] = mset
                if not refines(c, r, mset):
                    dis.append((c, r, line))
                    if r["out"] == "Ok" and not any(n.startswith("Ok") for n, _ in mset):
                        # "returns a fully validated object": the model (embedded objects constructed structurally)
                        # has no successful outcome for this input, yet the implementation returned an object
                        run.violations.append(Violation(
                            "%s on %s returned an object although an embedded value cannot be constructed / a required check "
                            "must fail (model outcomes: %s)" % (c["op"], short(c), line[:120]),
                            {"kind": "accepted", "case": c}))
            run.coverage["correspondence_cases"] = n_model
            run.coverage["correspondence_disagreements"] = len(dis)
            if dis:
                run.broken.append(Broken("correspondence", "implementation outcome outside the model's outcome set",
                                         {"first": [{"case": c, "impl": {k: r.get(k) for k in ("out", "cls", "fn", "line", "msg", "ret")},
                                                     "model": line} for c, r, line in dis[:8]], "count": len(dis)}))
            for i in (0, 5, len(cases) // 2):
                if lines[i] is not None:
                    run.sample({"case": short(cases[i]), "op": cases[i]["op"], "impl": impl_label(cases[i], impl[i]), "model": lines[i][:300]})
        except RuntimeError as e:
            run.broken.append(Broken("correspondence", "model evaluation failed", {"error": str(e)[-2000:]}))

    for c, r, mset in zip(cases, impl, msets):
        run.violations += oracle_one(c, r, mset)
    # user-registered classes (public decorators) in a separate worker process: oracle only
    ccases = gen_custom_registry_cases(run, desc) + gen_history_cases(run, desc)
    for c in ccases:
        c["_custom"] = True
    cimpl = common.run_impl("c17_impl", ccases, procs=2, args=("custom",))
    run.coverage["custom_registry_cases"] = len(ccases)
    chist = {}
    cmsets = [None] * len(ccases)
    if model_ok:
        try:
            clines = eval_model("c17c", ccases, desc, unguarded, refuse=MODE["refuse_custom"], registry="live_custom")
            cdis = []
            for i, (c, r, line) in enumerate(zip(ccases, cimpl, clines)):
                if line is None:
                    continue
                cmsets[i] = parse_set(line)
                if not refines(c, r, cmsets[i]):
                    cdis.append((c, r, line))
            run.coverage["custom_registry_correspondence_cases"] = sum(1 for l in clines if l is not None)
            run.coverage["custom_registry_disagreements"] = len(cdis)
            if cdis:
                run.broken.append(Broken("correspondence", "custom registry: implementation outcome outside the model's outcome set",
                                         {"first": [{"case": c, "impl": {k: r.get(k) for k in ("out", "cls", "fn", "line", "msg", "ret")},
                                                     "model": line} for c, r, line in cdis[:8]], "count": len(cdis)}))
        except RuntimeError as e:
            run.broken.append(Broken("correspondence", "model evaluation failed (custom registry)", {"error": str(e)[-2000:]}))
    for c, r, ms in zip(ccases, cimpl, cmsets):
        run.count(c)
        k = r.get("cls") if r["out"] == "Raise" else r["out"]
        chist[k] = chist.get(k, 0) + 1
        run.violations += oracle_one(c, r, ms)
    run.coverage["custom_registry_histogram"] = chist
    herr = [r for r in list(impl) + list(cimpl) if r["out"] == "HarnessError"]
    if herr:
        run.notes.append("%d harness errors in the worker, e.g. %s" % (len(herr), herr[0].get("msg")))

    # something broke and no failing input yet: search wider (every slot x every kind, all classes)
    if run.broken and not [v for v in run.violations if v.finding is None] and run.tier != "thorough":
        class _T:
            pass
        wide = _T()
        wide.rng, wide.tier = run.rng, "thorough"
        # the FULL generator (every slot x every kind, raw inputs, marking, store, huge numbers, deep sites), thorough settings
        more = gen_slot_cases(wide, desc)
        run.rng.shuffle(more)
        more = more[:60000] + gen_raw_cases(wide) + gen_marking_cases(wide, desc) + gen_store_cases(wide, desc) \
            + gen_huge_number_cases(wide, desc) + gen_deep_cases(wide)
        mimpl = common.run_impl("c17_impl", more)
        run.coverage["search_cases"] = len(more)
        for c, r in zip(more, mimpl):
            run.count(c)
            try:
                run.violations += oracle_one(c, r, None)
            except Exception as e:  # noqa: BLE001  -- the oracle must never crash the check
                run.violations.append(Violation("oracle failed on a case: %s: %s" % (type(e).__name__, e), {"kind": "family", "case": c}))

    run.coverage["trusted_base"] += [
        "translators/tr_c17classes.py + harness/impl/c17_impl.py describe (class tables read from the live classes; AST walk of "
        "every constraint/__init__ override, unknown shapes fail the obligation live_registry_known)",
        "coq/Model/Errors.v: hand reading of the pre-clean code paths (validated by the refinement correspondence each run)",
        "python's json module as the text decoder (the model takes the decoder as a parameter)",
    ]
    run.assumptions += [
        "property cleaners raise only Exception subclasses (KeyboardInterrupt/SystemExit pass through the wrapper by design)",
        "str(exc) of whatever clean() raises returns normally (the wrapper calls it inside its handler): checked for the "
        "library's own classes by the obligation library_exception_str_templates_constant, assumed for builtin and "
        "third-party exception classes; exercised with format-hostile keys and values",
        "constraint hooks read CLEANED values of the slot's type (C02's territory); stix2patterns.run_validator returns a list "
        "on every non-empty string",
        "termination / interpreter stack depth is outside the model (partial): deep inputs are exercised on the implementation",
    ]


def replay(payload):
    r = payload["replay"]
    case = r["case"]
    res = common.run_impl("c17_impl", [case], procs=1, args=(("custom",) if case.get("_custom") else ()))[0]
    print("replay %s %s -> %s %s (family=%s) from %s" % (case["op"], short(case), res.get("out"), res.get("cls", ""),
                                                          res.get("family"), res.get("fn")))
    bad = False
    if r.get("kind") == "family":
        bad = res["out"] == "Raise" and not res.get("family")
    elif r.get("kind") == "history":
        bad = bool(res.get("differs")) and (res.get("first") or {}).get("out") == "Raise"
    elif r.get("kind") == "accepted":
        bad = res["out"] == "Ok"
    elif r.get("kind") == "registry":
        bad = res.get("reg_same") is False and res["out"] == "Raise"
    elif r.get("kind") == "store":
        bad = res["out"] == "Raise" and res.get("store_same") is False
    if bad:
        print("VIOLATION property=C17 replay=(given)")
        return 1
    print("no violation on this input")
    return 0

"""C05 -- new versions are strictly newer, identity-preserving and exact.

Model: coq/Model/Versioning.v (hand-written, mirrors stix2/versioning.py, the
object-marking clients of new_version and the utils they call; timestamps by
the C15 model) over the tables translators/tr_versioning.py regenerates from
/repo on every run (coq/Gen/VersioningTables.v).  Theorems: coq/Props/C05.v.
Correspondence: chains of new_version / revoke / marking operations on real
objects and dicts of every versionable type of both spec versions, with the
clock stix2.versioning.get_timestamp replaced by a scripted one, compared
operation by operation with the model.  Oracle: the property text evaluated
on the implementation's observed versions with independent integer arithmetic.
"""
import json
import os
from fractions import Fraction

import common
import stixgen
from common import Broken, Violation
from props import c15

MANIFEST = {
    "text": "30 theorems (Props/C05.v) about a hand-written Gallina model of stix2/versioning.py over ALL clock readings (Z microseconds), all "
            "objects/dicts (association lists), all change sets, all operation chains and an ARBITRARY class constructor "
            "(any acceptance test, any per-property cleaning): the serialized modified time of a new version is strictly later "
            "than the original's at the spec version's precision whatever the clock reads (fudge_strict_20/21, nv_strict), no "
            "clock reading can make the operation fail (nv_succeeds), strictly increasing along every chain of "
            "new_version/revoke/marking operations by induction over the chain (chain_increasing; for dicts under the one "
            "hypothesis that no change set rewrites spec_version, shown necessary by chain_spec_version_rewrite_refuted), "
            "type/id/created/created_by_ref are kept (nv_identity), exactly the requested changes are applied and None removes, "
            "for objects up to the constructor's cleaning (nv_exact, nv_exact_dict), unmodifiable and SCO-id-contributing "
            "properties, non-later supplied modified times and revoked objects are refused (nv_unmodifiable, nv_sco_locked, "
            "supplied_modified_strict, revoked_final, revoked_chain_ends) with the exception named when the earlier checks pass "
            "(revoked_raises, revoke_revoked_raises, unmodifiable_raises, supplied_not_later_raises), ser_value is what the C15-written text denotes "
            "(ser_is_serialized_text, nv_strict_text), and the generated tables agree with the frozen specification tables.",
    "design_ref": "DESIGN.md 6/C05, Appendix A.1; design_notes/C15-C05.md",
    "note": "Plus 13 source-text obligations (Props/C05Src.v) on a record read from the ast of stix2/versioning.py on every run "
            "(translators/tr_versioning_src.py, fail-closed): the comparisons and constants of _fudge_modified as written give "
            "strictly later serialized times, the supplied-modified test as written refuses every non-later time, new_version "
            "tests revoked / unmodifiable and SCO-locked properties in the order the refusal theorems rely on, the timestamp "
            "arguments, revoke and _check_versionable_object are the ones the model mirrors, and the model's fudge computes the "
            "arithmetic of the text; the real _fudge_modified is probed at run time against the recorded constants. "
            "Trusted: Coq kernel + vm_compute; translators/tr_versioning.py (live tables of /repo) and tr_versioning_src.py; the "
            "hand model is tied to /repo by a correspondence run on every check with a scripted clock substituted from the worker "
            "process (no repo hook): quick 675 chains / ~6 400 operations, thorough 3 375 chains / ~35 000 operations, on objects "
            "and dicts of all 37 versionable types of both spec versions. The class constructor is abstract in the theorems "
            "(arbitrary acceptance test and cleaning); the correspondence uses legal, already clean change sets. "
            "Correspondence/oracle-only: 'original untouched' (observed on every operation; C13 proves it); Mappings that are not "
            "dicts (collections.UserDict; versioned like dicts since fix baebc51, earlier finding "
            "C05-non-dict-mapping-mixed-precision-rules) are run on the implementation and judged by the oracle only -- the model "
            "has no such carrier; a share of the chains is run again in workers whose process time zone is not UTC (TZ=JST-9, "
            "EST5EDT), and again twice in one interpreter (forward, reversed), and must give the same outcomes. Aware values are "
            "compared by their UTC instant (which offset carries it is not compared). Version times that are zone-aware datetimes "
            "in the second reading of a repeated DST hour (fold=1): the model works with the value's true fixed offset; code "
            "whose push-ahead arithmetic forgets the fold (C05-fudge-modified-resets-fold, fixed by 8678306) is detected by a "
            "probe and such chains are then judged by the oracle only; the current code pushes on the UTC time line and all "
            "chains go through the correspondence. The model "
            "takes uuid.UUID() to accept the canonical 36-character form only. Assumed: keyword "
            "arguments and dict keys distinct; spec versions 2.0 and 2.1; for dict chains no change set rewrites spec_version "
            "(shown necessary); timestamps within years 1..9999. No axioms.",
    "technique": "Coq proof over a hand-written executable model + generated tables + source-text record + per-run correspondence with the implementation",
}

HEADER = """From Coq Require Import ZArith List String.
From V Require Import Model.Versioning Gen.VersioningTables.
Import ListNotations. Open Scope Z_scope.
"""

SPEC = None
T2020 = 63713433600000000          # 2020-01-01T00:00:00Z in microseconds since 0001-01-01
DAY = 86400000000
UNMOD_SPEC = ["type", "id", "created", "created_by_ref"]
OFFSETS = [-1000000, -1, 0, 1, 999, 1000, 1001, 1000000]
MARKS = ["marking-definition--613f2e26-407d-48c7-9eca-b8e91df99dc9", "marking-definition--34098fce-860f-48ae-8e50-ebd3cc5e41da",
         "marking-definition--f88d31f6-486f-44da-b317-01333bde0b82", "marking-definition--5e57c739-391a-4eb3-b6be-7d15ca92d5ed"]
import random as _random
_g = stixgen.Gen(_random.Random(20260929), spec={"classes": {}, "registries": {}})
MARKS = MARKS + ["marking-definition--%s" % _g.uuid(4) for i in range(70)]        # version-4 UUIDs (2.0 requires them)
MARK_SIZES = [1, 1, 1, 1, 2, 2, 2, 2, 3, 3, 9, 10, 11, 64, 65]        # both sides of plausible bounds
FINDING_NAIVE = "C05-naive-datetime-cannot-be-versioned"
FINDING_MAPPING = "C05-non-dict-mapping-mixed-precision-rules"
FINDING_FOLD = "C05-fudge-modified-resets-fold"


def spec():
    global SPEC
    if SPEC is None:
        SPEC = stixgen.load_spec()
    return SPEC


def slots_of(ver, ty):
    reg = spec()["registries"].get(ver)
    if reg is None:
        return None, None, None
    for cat in ("objects", "observables", "markings", "extensions"):
        if ty in reg[cat]:
            return {s["name"]: s for s in spec()["classes"][reg[cat][ty]]["slots"]}, reg[cat][ty], cat
    return None, None, None


def versionable_types(ver):
    out = []
    for ty, cid in spec()["registries"][ver]["objects"].items():
        names = {s["name"] for s in spec()["classes"][cid]["slots"]}
        if {"created", "modified", "revoked"} <= names:
            out.append((ty, cid))
    return out


# --------------------------------------------------------------------------
# values

def J(x):
    return {"j": x}


def DT(local, off):
    return {"dt": [local, off]}


SRC_UNIT = {("second", "exact"): 1000000, ("millisecond", "exact"): 1000}


def SDT(local, off, prec, cons):
    """a STIXdatetime taken from another object's timestamp property (cleaned there at prec / cons)"""
    return {"sdt": [local, off, prec, cons]}


def sdt_fields(v):
    """(local fields as stored, offset) of an SDT value: truncated once, where it was first cleaned"""
    local, off, prec, cons = v["sdt"]
    u = SRC_UNIT.get((prec, cons), 1)
    return local // u * u, off


ZDT_ZONES = ["Europe/Berlin", "America/New_York", "Australia/Lord_Howe", "Europe/London", "Pacific/Auckland"]
# UTC instants inside the SECOND reading of a repeated hour (fold=1) of those zones, 2021
REPEATED_HOURS = [("Europe/Berlin", (2021, 10, 31, 1, 30)), ("America/New_York", (2021, 11, 7, 6, 30)),
                  ("Australia/Lord_Howe", (2021, 4, 3, 15, 15)), ("Europe/London", (2021, 10, 31, 1, 30)),
                  ("Pacific/Auckland", (2021, 4, 3, 14, 30))]
_E = __import__("datetime").datetime(1, 1, 1)


def ZDT(us, zone):
    """the UTC instant `us` as an aware datetime in a zoneinfo zone (fields, zone, fold as Python computes them)"""
    import datetime as dt
    import zoneinfo
    d = (_E + dt.timedelta(microseconds=us)).replace(tzinfo=dt.timezone.utc).astimezone(zoneinfo.ZoneInfo(zone))
    return {"zdt": [d.year, d.month, d.day, d.hour, d.minute, d.second, d.microsecond, zone, d.fold]}


def zdt_fields(v):
    """(local fields as an instant, true UTC offset, offset for fold=0) of a ZDT value, by the standard library"""
    y, m, d, hh, mm, ss, us, zone, fold = v["zdt"]
    o, o0 = c15.zone_offsets([y, m, d, hh, mm, ss, us], zone, fold)
    local = int(c15.instant(y, m, d, hh, mm, ss, None)) + us
    return local, o, o0


def ts_text(us, digits):
    """canonical text of an instant with `digits` fractional digits (truncating)."""
    import datetime as dt
    d = dt.datetime(1, 1, 1) + dt.timedelta(microseconds=us)
    s = d.strftime("%Y-%m-%dT%H:%M:%S")
    s = "%04d" % d.year + s[s.index("-"):]
    if digits:
        s += "." + ("%06d" % d.microsecond)[:digits]
    return s + "Z"


def ts_value(rng, us, allow_naive=True, allow_date=False):
    """A property value denoting the instant `us` (UTC): text or datetime in several forms."""
    r = rng.random()
    if r < 0.45:
        return J(ts_text(us, 6 if us % 1000 else rng.choice([3, 6]) if us % 1000000 else rng.choice([0, 3, 6])))
    if r < 0.75:
        return DT(us, 0)
    if r < 0.85:
        off = rng.choice([19800, -28800, 3600, 45900, -12600]) * 1000000
        return DT(us + off, off)
    if r < 0.93 and 59958144000000000 < us < 66269664000000000:          # years 1901..2100
        return ZDT(us, rng.choice(ZDT_ZONES))
    if allow_naive:
        return DT(us, None)
    return DT(us, 0)


def instant_of_value(v):
    """UTC instant (int/Fraction microseconds) a timestamp-valued property denotes; None if it is not one."""
    if v is None:
        return None
    if "dt" in v:
        return v["dt"][0] - (v["dt"][1] or 0)
    if "sdt" in v:
        l, o = sdt_fields(v)
        return l - o
    if "zdt" in v:
        l, o, _ = zdt_fields(v)
        return l - o
    if "date" in v:
        return c15.instant(*v["date"], 0, 0, 0, None)
    if isinstance(v.get("j"), str):
        m = c15.LENIENT_IN.match(v["j"])
        if m:
            g = m.groups()
            try:
                return c15.instant(*[int(x) for x in g[:6]], g[6])
            except ValueError:
                return None
    return None


def ser(ver, inst):
    """The instant as serialized at the spec version's precision (2.0: milliseconds, truncating; 2.1: as is)."""
    if inst is None:
        return None
    return (inst // 1000) * 1000 if ver == "2.0" else inst


def sget(state, k):
    for kk, v in state:
        if kk == k:
            return None if v == {"j": None} else v
    return None


def truthy(v):
    if v is None:
        return False
    if "j" in v:
        return bool(v["j"])
    return True


def version_time(state):
    m = sget(state, "modified")
    return m if truthy(m) else sget(state, "created")


# --------------------------------------------------------------------------
# generator

def uuid_of(rng, version):
    return stixgen.Gen(rng, spec()).uuid(version)


def legal_changes(rng, ver, ty, carrier, state_keys):
    """(changes, allow_custom): a change set every class accepts unchanged."""
    slots, _, _ = slots_of(ver, ty)
    slots = slots or {}
    ch = []
    n = rng.choice([0, 1, 1, 1, 2, 3])
    allow_custom = None
    menu = []
    if "description" in slots:
        menu += [("description", J(rng.choice(["d", "new description", "café \U0001F600"]))), ("description", J(None))]
    if "name" in slots and slots["name"]["kind"]["k"] == "string":
        menu += [("name", J(rng.choice(["n2", "renamed", "x"])))]
    if "labels" in slots and ty not in ("indicator", "malware", "report", "threat-actor", "tool") or ("labels" in slots and ver == "2.1"):
        menu += [("labels", J(rng.choice([["l1"], ["l1", "l2"]])))]
    if "confidence" in slots:
        menu += [("confidence", J(rng.choice([0, 50, 100]))), ("confidence", J(None))]
    if "lang" in slots:
        menu += [("lang", J(rng.choice(["en", "fr"])))]
    if "external_references" in slots:
        menu += [("external_references", J([{"source_name": "src", "external_id": "e-1"}])), ("external_references", J(None))]
    if "object_marking_refs" in slots:
        menu += [("object_marking_refs", J(rng.sample(MARKS, rng.choice(MARK_SIZES))))]
    if "revoked" in slots:
        menu += [("revoked", J(False))]
    menu += [("x_verif_note", J(rng.choice(["note", 7, ["a", "b"], {"k": 1}]))), ("x_verif_note", J(None))]
    if carrier == "dict":
        menu += [("anything", J(rng.choice([None, 1.5, {"a": [1, None]}, "s"]))), ("x_when", DT(T2020 + rng.randrange(DAY), 0))]
    seen = set()
    for _ in range(n):
        k, v = rng.choice(menu)
        if k in seen:
            continue
        seen.add(k)
        ch.append([k, v])
        if k.startswith("x_") or k == "anything":
            allow_custom = True
    return ch, allow_custom


class Predictor:
    """Third, tiny implementation of the timestamp rule, used ONLY to aim clock readings at the
    interesting offsets; a wrong prediction merely makes the readings less targeted."""

    def __init__(self, ver, carrier, stored):
        self.ver, self.carrier, self.stored = ver, carrier, stored

    def base(self):
        return self.stored if self.stored is not None else T2020

    def clock(self, rng):
        b = self.base()
        if self.ver == "2.0" and rng.random() < 0.5:
            b = b // 1000 * 1000
        r = rng.random()
        if r < 0.8:
            return b + rng.choice(OFFSETS)
        if r < 0.9:
            return b + rng.randint(-2500, 2500)
        return b + rng.randint(-DAY, DAY)

    def advance(self, now):
        o = self.base()
        if self.ver == "2.0":
            o = o // 1000 * 1000
            n = o + 1000 if now - o < 1000 else now
            self.stored = n // 1000 * 1000 if self.carrier == "object" else n
        else:
            self.stored = now if now > o else o + 1

    def supplied(self, us):
        self.stored = (us // 1000 * 1000) if (self.ver == "2.0" and self.carrier == "object") else us


def gen_chain(rng, case, ty, pred, max_ops, marking_ok=True):
    ver, carrier = case["ver"], case["carrier"]
    ops = []
    if max_ops > 40:
        n = rng.choice([2, 3, 5, 8, 13, 21, 50, max_ops])
    else:
        n = rng.choice([2, 3, 5, 8, 13, 21, max_ops, max_ops]) if max_ops > 13 else rng.randint(1, max_ops)
    n = min(n, max_ops)
    revoked = False
    marks = set()
    for i in range(n):
        r = rng.random()
        now = pred.clock(rng)
        was_revoked = revoked
        if revoked and rng.random() < 0.5:
            break
        if r < 0.50:
            ch, ac = legal_changes(rng, ver, ty, carrier, None)
            op = {"op": "new", "changes": ch, "now": now, "allow_custom": ac, "legal": True}
            if rng.random() < 0.3:
                op["api"] = rng.choice(["function", "toplevel"])      # another public entry point to the same code
            for k, v in ch:
                if k == "object_marking_refs":
                    marks = set(v["j"] or [])
            if not revoked:
                pred.advance(now)
        elif r < 0.62:      # caller-supplied modified
            us = pred.clock(rng)
            ch, ac = legal_changes(rng, ver, ty, carrier, None)
            ch = [c for c in ch if c[0] != "modified"][:1]
            if rng.random() < 0.4:
                # a timestamp OBJECT taken from a peer of either spec version (a STIXdatetime carrying its own
                # precision), often inside the original's own millisecond with sub-millisecond digits
                if rng.random() < 0.6:
                    us = pred.base() // 1000 * 1000 + rng.choice([1, 250, 400, 999, 1000, 1250, 1999])
                prec, cons = rng.choice([("millisecond", "min"), ("millisecond", "min"), ("any", "exact"), ("millisecond", "exact"),
                                         ("second", "min")])
                off = rng.choice([0, 0, 0, 19800000000, -18000000000])
                sv = SDT(us + off, off, prec, cons)
                us = instant_of_value(sv)
            else:
                sv = ts_value(rng, us, allow_naive=False)
            ch.insert(rng.randint(0, len(ch)), ["modified", sv])
            op = {"op": "new", "changes": ch, "now": now, "allow_custom": ac, "legal": True}
            b = pred.base()
            if not revoked and ser(ver, us) > ser(ver, b):
                pred.supplied(us)
        elif r < 0.72:      # attempt on an unmodifiable property
            k = rng.choice(UNMOD_SPEC)
            cur = dict((a, b) for a, b in case["init"]).get(k)
            v = rng.choice([J("identity--" + uuid_of(rng, 4)), J(None), cur or J("x"), J("x-other")])
            if k == "created" and rng.random() < 0.7:
                v = ts_value(rng, pred.base() - rng.choice([0, 1, 1000000]))
            ch, ac = legal_changes(rng, ver, ty, carrier, None)
            ch = [c for c in ch if c[0] != k][:1] + [[k, v]]
            op = {"op": "new", "changes": ch, "now": now, "allow_custom": ac, "legal": False}
        elif r < 0.80 and marking_ok:
            kind = rng.choice(["add_mark", "add_mark", "remove_mark", "clear_mark", "set_mark"])
            op = {"op": kind, "now": now, "legal": True}
            if kind != "clear_mark":
                pool = sorted(marks) if (kind == "remove_mark" and marks and rng.random() < 0.8) else MARKS
                op["ms"] = rng.sample(pool, min(len(pool), rng.choice(MARK_SIZES)))
            if kind == "remove_mark":
                op["legal"] = set(op["ms"]) <= marks or not marks
                if marks and set(op["ms"]) <= marks and not revoked:
                    marks -= set(op["ms"])
                    pred.advance(now)
            elif kind == "add_mark":
                marks |= set(op["ms"])
                if not revoked:
                    pred.advance(now)
            elif kind == "clear_mark":
                marks = set()
                if not revoked:
                    pred.advance(now)
            else:
                if not revoked:
                    pred.advance(now)
                    op["now2"] = pred.clock(rng)
                    pred.advance(op["now2"])
                else:
                    op["now2"] = pred.clock(rng)
                marks = set(op["ms"])
        elif r < 0.84:
            op = {"op": "revoke", "now": now, "legal": True}
            if rng.random() < 0.3:
                op["api"] = rng.choice(["function", "toplevel"])
            if not revoked:
                pred.advance(now)
                revoked = True
        else:
            ch, ac = legal_changes(rng, ver, ty, carrier, None)
            op = {"op": "new", "changes": ch, "now": now, "allow_custom": ac, "legal": True}
            if not revoked:
                pred.advance(now)
        if was_revoked:
            op["legal"] = False
        ops.append(op)
    return ops


LAST_ZONE = [None]


def base_instant(rng):
    r = rng.random()
    LAST_ZONE[0] = None
    if r < 0.08:            # inside the second reading of a repeated hour of a DST zone
        LAST_ZONE[0], (y, m, d, hh, mm) = rng.choice(REPEATED_HOURS)
        return int(c15.instant(y, m, d, hh, mm, 0, None)) + rng.choice([0, 1000, 123456])
    if r < 0.7:
        return T2020 + rng.randrange(0, 3650) * DAY + rng.randrange(DAY // 1000000) * 1000000
    if r < 0.8:
        return 31536000000000 * 5 + rng.randrange(DAY)           # year 6
    if r < 0.9:
        return T2020 + rng.randrange(DAY) - 7000 * DAY * 10         # around year 1828
    return T2020 + 2000 * 365 * DAY + rng.randrange(DAY)            # around year 4018


def gen_cases(run, n_chains, max_ops):
    rng = run.rng
    g = stixgen.Gen(rng, spec())
    cases = []
    v20 = versionable_types("2.0")
    v21 = versionable_types("2.1")
    pool = [("2.0", t, c) for t, c in v20] + [("2.1", t, c) for t, c in v21]
    for i in range(n_chains):
        ver, ty, cid = pool[i % len(pool)] if i < 2 * len(pool) else rng.choice(pool)
        carrier = "object" if (i // len(pool)) % 2 == 0 and i < 2 * len(pool) else rng.choice(["object", "dict", "dict"])
        o = g.obj(cid, optional_p=rng.choice([0.0, 0.3, 0.55]))
        o.pop("granular_markings", None)
        if rng.random() < 0.8:
            o.pop("object_marking_refs", None)
        t0 = base_instant(rng)
        sub = rng.choice([0, 0, 1000, 1500, 999, 123456, 999999, 500000])
        created = t0
        modified = t0 + rng.choice([0, 0, 1, 1000, 86400000000]) + sub
        if rng.random() < 0.5:
            created = modified
        if ver == "2.0" and carrier == "object" and rng.random() < 0.7:
            modified = modified // 1000 * 1000
            created = created // 1000 * 1000
        init = [[k, J(v)] for k, v in o.items()]
        d = dict((k, i2) for i2, (k, _) in enumerate(init))
        naive = rng.random() < 0.06
        cv = DT(created, None) if naive else ts_value(rng, created, allow_naive=False)
        mv = DT(modified, None) if naive else ts_value(rng, modified, allow_naive=False)
        if LAST_ZONE[0] and not naive and rng.random() < 0.85:
            # the version time as an aware datetime of that zone: the second reading of the repeated hour (fold=1)
            cv, mv = ZDT(created, LAST_ZONE[0]), ZDT(modified, LAST_ZONE[0])
        init[d["created"]][1] = cv
        if "modified" in d:
            init[d["modified"]][1] = mv
        if carrier == "dict":
            r = rng.random()
            if r < 0.05 and "modified" in d:          # only `created` present
                init = [kv for kv in init if kv[0] not in ("modified", "revoked")]
            elif r < 0.12 and "modified" in d:        # `created` and `revoked` but no `modified`
                init = [kv for kv in init if kv[0] not in ("modified", "revoked")]
                init.append(["revoked", J(rng.choice([False, False, True]))])
            elif r < 0.18:
                init.append(["revoked", J(False)])
        case = {"carrier": carrier, "ver": ver, "init": init, "allow_custom": False, "ty": ty, "kind": "versionable",
                "naive": naive}
        if carrier == "dict" and ver == "2.1" and "spec_version" not in o:
            case["ver"] = "2.0"       # detected as 2.0 by the library: that is the dict's version
        pred = Predictor(case["ver"], carrier, modified if "modified" in dict((k, 1) for k, _ in init) else created)
        case["ops"] = gen_chain(rng, case, ty, pred, max_ops)
        cases.append(case)
    cases += special_cases(run, max(20, n_chains // 8))
    cases += mapping_cases(run, max(24, n_chains // 20))
    return cases


def mapping_cases(run, n):
    """Mappings that are not dicts (collections.UserDict) holding versionable content with all three versioning
    properties: run on the implementation and judged by the oracle only (the model has no such carrier)."""
    rng = run.rng
    g = stixgen.Gen(rng, spec())
    out = []
    pool = [("2.0", t, c) for t, c in versionable_types("2.0")] + [("2.1", t, c) for t, c in versionable_types("2.1")]
    for i in range(n):
        ver, ty, cid = rng.choice(pool)
        o = g.obj(cid, optional_p=0.2)
        o.pop("granular_markings", None)
        o.pop("object_marking_refs", None)
        t0 = base_instant(rng)
        modified = t0 + rng.choice([0, 1000, 123456, 999999, 500, 1500])
        init = [[k, J(v)] for k, v in o.items() if k != "revoked"]
        d = dict((k, j) for j, (k, _) in enumerate(init))
        init[d["created"]][1] = ts_value(rng, t0, allow_naive=False)
        init[d["modified"]][1] = ts_value(rng, modified, allow_naive=False)
        init.append(["revoked", J(False)])
        case = {"carrier": "mapping", "ver": ver, "init": init, "allow_custom": True, "ty": ty, "kind": "versionable", "naive": False}
        pred = Predictor(ver, "dict", modified)
        case["ops"] = gen_chain(rng, case, ty, pred, 6, marking_ok=False)
        out.append(case)
    return out


def special_cases(run, n):
    """Refusal paths of _check_versionable_object, SCO-locked properties, unregistered types, other spec_version values."""
    rng = run.rng
    out = []
    g = stixgen.Gen(rng, spec())

    def chain(case, ty, stored, max_ops=4, marking_ok=False):
        pred = Predictor(case["ver"], case["carrier"], stored)
        case["ops"] = gen_chain(rng, case, ty, pred, max_ops, marking_ok)
        return case

    for i in range(n):
        k = i % 9
        t0 = base_instant(rng) + rng.choice([0, 1500, 999999])
        if k == 0:      # 2.1 SCO dict carrying the versioning properties, deterministic (v5) or random (v4) id
            v5 = rng.random() < 0.7
            init = [["type", J("file")], ["spec_version", J("2.1")], ["id", J("file--" + g.uuid(5 if v5 else 4))],
                    ["name", J("a.txt")], ["size", J(10)], ["created", ts_value(rng, t0, False)], ["modified", ts_value(rng, t0, False)],
                    ["revoked", J(False)]]
            if rng.random() < 0.3:
                init = [kv for kv in init if kv[0] != "spec_version"]
            case = {"carrier": "dict", "ver": "2.1", "init": init, "ty": "file", "kind": "sco-dict", "allow_custom": True}
            ops = []
            for _ in range(rng.randint(1, 4)):
                key, val = rng.choice([("name", J("b.txt")), ("size", J(rng.randint(0, 99))), ("hashes", J({"MD5": "f9e40b9aa5464f3dae711ca524fceb63"})),
                                       ("name_enc", J("utf-8")), ("extensions", J(None)), ("parent_directory_ref", J(None))])
                locked = v5 and key in ("hashes", "name", "parent_directory_ref", "extensions")
                ops.append({"op": "new", "changes": [[key, val]], "now": t0 + rng.choice(OFFSETS), "allow_custom": None, "legal": not locked})
            case["ops"] = ops
            out.append(case)
        elif k == 1:    # marking definitions and SCOs are not versionable
            ver = rng.choice(["2.0", "2.1"])
            carrier = rng.choice(["object", "dict"])
            if rng.random() < 0.5:
                o = g.obj(spec()["registries"][ver]["objects"]["marking-definition"])
                ty = "marking-definition"
            else:
                ty = rng.choice(["ipv4-addr", "domain-name", "url", "mutex"])
                o = {"type": ty, "value": "198.51.100.7" if ty == "ipv4-addr" else "example.com" if ty == "domain-name" else "https://example.com/" if ty == "url" else None}
                if ty == "mutex":
                    o = {"type": ty, "name": "m"}
                if ver == "2.1":
                    o["id"] = ty + "--" + g.uuid(5)
                    o["spec_version"] = "2.1"
            init = [[kk, J(v)] for kk, v in o.items()]
            case = {"carrier": carrier, "ver": ver, "init": init, "ty": ty, "kind": "not-versionable", "allow_custom": False}
            case["ops"] = [{"op": "new", "changes": [["x_a", J(1)]] if rng.random() < 0.5 else [], "now": t0, "allow_custom": None, "legal": False},
                           {"op": "revoke", "now": t0 + 5, "legal": False}]
            out.append(case)
        elif k == 2:    # unregistered type: lax
            init = [["type", J("x-verif-thing")], ["id", J("x-verif-thing--" + g.uuid(4))], ["created", ts_value(rng, t0, False)], ["foo", J("bar")]]
            if rng.random() < 0.5:
                init.insert(1, ["spec_version", J("2.1")])
            if rng.random() < 0.5:
                init.append(["modified", ts_value(rng, t0 + 1500, False)])
            ver = "2.1" if any(kk == "spec_version" for kk, _ in init) else "2.0"
            case = {"carrier": "dict", "ver": ver, "init": init, "ty": "x-verif-thing", "kind": "unregistered", "allow_custom": True}
            out.append(chain(case, "x-verif-thing", t0 + (1500 if any(kk == "modified" for kk, _ in init) else 0), 6))
        elif k == 3:    # registered versionable type, but no `created`
            ver = rng.choice(["2.0", "2.1"])
            init = [["type", J("identity")], ["id", J("identity--" + g.uuid(4))], ["name", J("n")]]
            if ver == "2.1":
                init.insert(1, ["spec_version", J("2.1")])
            if rng.random() < 0.5:
                init.append(["modified", ts_value(rng, t0, False)])
            case = {"carrier": "dict", "ver": ver, "init": init, "ty": "identity", "kind": "no-created", "allow_custom": False}
            case["ops"] = [{"op": "new", "changes": [["name", J("m")]], "now": t0 + 1, "allow_custom": None, "legal": False},
                           {"op": "revoke", "now": t0 + 2, "legal": False}]
            out.append(case)
        elif k == 4:    # not a mapping
            case = {"carrier": "nonmapping", "ver": "2.1", "init": [], "ty": None, "kind": "non-mapping", "allow_custom": False}
            case["ops"] = [{"op": "new", "changes": [["name", J("m")]], "now": t0, "allow_custom": None, "legal": False},
                           {"op": "revoke", "now": t0, "legal": False}]
            out.append(case)
        elif k == 5:    # other spec_version values (correspondence only)
            sv = rng.choice(["2.2", "1.0", "2.10"])
            init = [["type", J("identity")], ["spec_version", J(sv)], ["id", J("identity--" + g.uuid(4))], ["created", ts_value(rng, t0, False)],
                    ["modified", ts_value(rng, t0 + 1500, False)], ["name", J("n")]]
            case = {"carrier": "dict", "ver": sv, "init": init, "ty": "identity", "kind": "other-version", "allow_custom": False}
            out.append(chain(case, "identity", t0 + 1500, 5))
        elif k == 6:    # already revoked
            ver = rng.choice(["2.0", "2.1"])
            carrier = rng.choice(["object", "dict"])
            init = [["type", J("identity")], ["id", J("identity--" + g.uuid(4))], ["created", ts_value(rng, t0, False)],
                    ["modified", ts_value(rng, t0 + 1000, False)], ["name", J("n")], ["revoked", J(True)]]
            if ver == "2.1":
                init.insert(1, ["spec_version", J("2.1")])
            else:
                init.append(["identity_class", J("individual")])
            if carrier == "dict":                 # any subset of the other two versioning properties may be missing
                drop = rng.choice([(), (), ("modified",), ("created",), ("modified", "created")])
                init = [kv for kv in init if kv[0] not in drop]
            case = {"carrier": carrier, "ver": ver, "init": init, "ty": "identity", "kind": "revoked", "allow_custom": False}
            case["ops"] = [{"op": "new", "changes": [["name", J("m")]], "now": t0 + DAY, "allow_custom": None, "legal": False},
                           {"op": "revoke", "now": t0 + DAY, "legal": False},
                           {"op": "add_mark", "ms": MARKS[:1], "now": t0 + DAY, "legal": False}]
            out.append(case)
        elif k == 7:    # timestamp values of the wrong kind / unparseable in a dict
            bad = rng.choice([J(5), J("not a timestamp"), J(["2020-01-01T00:00:00Z"]), J(True), J(""), J(None), {"date": [2020, 2, 29]}])
            init = [["type", J("identity")], ["id", J("identity--" + g.uuid(4))], ["created", ts_value(rng, t0, False)],
                    ["modified", bad], ["revoked", J(False)], ["name", J("n")]]
            case = {"carrier": "dict", "ver": "2.0", "init": init, "ty": "identity", "kind": "odd-timestamp", "allow_custom": False}
            b = t0 if bad in (J(""), J(None)) else int(instant_of_value(bad) or t0)
            case["ops"] = [{"op": "new", "changes": [["name", J("m")]], "now": b + rng.choice(OFFSETS), "allow_custom": None, "legal": None},
                           {"op": "new", "changes": [["modified", J(None)]], "now": b, "allow_custom": None, "legal": None},
                           {"op": "new", "changes": [["modified", rng.choice([J(7), J("x"), DT(b + 5000, None)])]], "now": b, "allow_custom": None, "legal": None}]
            out.append(case)
        elif k == 8 and i % 2 == 0:     # `revoked` present with a falsy or a truthy non-boolean value (dict carriers)
            val = rng.choice([J(0), J(""), J([]), J(None), J({}), J(0.0), J(1), J("yes"), J([0]), J(-1)])
            ver = rng.choice(["2.0", "2.1"])
            init = [["type", J("identity")], ["id", J("identity--" + g.uuid(4))], ["created", ts_value(rng, t0, False)],
                    ["modified", ts_value(rng, t0 + 1000, False)], ["name", J("n")], ["revoked", val]]
            if ver == "2.1":
                init.insert(1, ["spec_version", J("2.1")])
            case = {"carrier": "dict", "ver": ver, "init": init, "ty": "identity", "kind": "revoked-variant", "allow_custom": False}
            lg = not bool(val["j"])
            case["ops"] = [{"op": "new", "changes": [["name", J("m")]], "now": t0 + 2000 + rng.choice(OFFSETS), "allow_custom": None, "legal": lg},
                           {"op": "revoke", "now": t0 + DAY, "legal": lg},
                           {"op": "revoke", "now": t0 + 2 * DAY, "legal": False}]
            out.append(case)
        else:           # dict without type
            init = [["id", J("identity--" + g.uuid(4))], ["created", ts_value(rng, t0, False)], ["modified", ts_value(rng, t0, False)],
                    ["revoked", J(False)]]
            case = {"carrier": "dict", "ver": "2.0", "init": init, "ty": None, "kind": "no-type", "allow_custom": False}
            case["ops"] = [{"op": "new", "changes": [], "now": t0 + 1, "allow_custom": None, "legal": None}]
            out.append(case)
    return out


# --------------------------------------------------------------------------
# model terms

def coq_val(v):
    if "j" in v:
        return "(PJ %s)" % common.coq_jvalue(v["j"])
    if "sdt" in v:
        local, off = sdt_fields(v)
        return "(PDt %s (Some %s))" % (common.coq_Z(local), common.coq_Z(off))
    if "zdt" in v:
        local, off, _ = zdt_fields(v)
        return "(PDt %s (Some %s))" % (common.coq_Z(local), common.coq_Z(off))
    if "dt" in v:
        local, off = v["dt"]
        return "(PDt %s %s)" % (common.coq_Z(local), "None" if off is None else "(Some %s)" % common.coq_Z(off))
    return "(PDate %s)" % " ".join(common.coq_Z(x) for x in v["date"])


def coq_pdict(kvs):
    return common.coq_list(["(%s, %s)" % (common.coq_ustr(k), coq_val(v)) for k, v in kvs])


def coq_marks(ms):
    return common.coq_list([common.coq_jvalue(m) for m in ms])


def coq_op(op):
    k = op["op"]
    if k == "new":
        return "OpNew %s %s" % (coq_pdict(op["changes"]), common.coq_Z(op["now"]))
    if k == "revoke":
        return "OpRevoke %s" % common.coq_Z(op["now"])
    if k == "add_mark":
        return "OpAddMark %s %s" % (coq_marks(op["ms"]), common.coq_Z(op["now"]))
    if k == "remove_mark":
        return "OpRemoveMark %s %s" % (coq_marks(op["ms"]), common.coq_Z(op["now"]))
    if k == "clear_mark":
        return "OpClearMark %s" % common.coq_Z(op["now"])
    return "OpSetMark %s %s %s" % (coq_marks(op["ms"]), common.coq_Z(op["now"]), common.coq_Z(op["now2"]))


def coq_carrier(case):
    if case["carrier"] == "object":
        return "(CObject %s)" % ("V20" if case["ver"] == "2.0" else "V21")
    return "CDict" if case["carrier"] == "dict" else "CNonMapping"


def model_term(case, init, nm):
    return "show_chain live_tables %s %s %s %s" % (nm, coq_carrier(case), coq_pdict(init),
                                                   common.coq_list(["(%s)" % coq_op(o) for o in case["ops"]]))


def canon_marks(line):
    """object_marking_refs is built through a Python set by add_markings: compare it as a set."""
    import re

    def fix(m):
        items = sorted(x for x in m.group(2).split(",") if x)
        return m.group(1) + "[" + "".join(i + "," for i in items) + "]"
    return re.sub(r"(object_marking_refs=)\[([^\]]*)\]", fix, line)


# --------------------------------------------------------------------------
# the property, evaluated on what the implementation did

def sco_contrib(ty):
    reg = spec()["registries"]["2.1"]["observables"]
    if ty in reg:
        return list(spec()["classes"][reg[ty]].get("id_contrib") or [])
    return None


def is_uuid5(idv):
    h = idv[-36:]
    return len(h) == 36 and h[14] == "5" and h[19] in "89abAB"


def expected_changes(op, old_state):
    """{key: val-or-None} the operation asks for (None = the property must be absent afterwards);
    for marking operations on the set of object markings."""
    k = op["op"]
    if k == "new":
        return {kk: (None if v == {"j": None} else v) for kk, v in op["changes"]}
    if k == "revoke":
        return {"revoked": J(True)}
    cur = (sget(old_state, "object_marking_refs") or {"j": []})["j"] or []
    if k == "add_mark":
        return {"object_marking_refs": ("set", set(cur) | set(op["ms"]))}
    if k == "set_mark":
        return {"object_marking_refs": ("set", set(op["ms"]))}
    if k == "clear_mark":
        return {"object_marking_refs": None}
    rest = [x for x in cur if x not in op["ms"]]
    return {"object_marking_refs": ("set", set(rest)) if rest else None}


def time_of_text(text):
    if text is None:
        return None
    _, t, _ = c15.read_written(text)
    return t


def oracle_case(case, res):
    """Violations of the property on one chain; the oracle never stops the check: a chain it cannot judge is
    reported as a replayable case."""
    try:
        return oracle_case_(case, res)
    except Exception as e:  # noqa: BLE001
        return [Violation("the oracle could not judge this chain (%s: %s)" % (type(e).__name__, e),
                          {"case": {k: v for k, v in case.items() if k != "_state_before"}, "check": "oracle error"}, None)]


def oracle_case_(case, res):
    out = []
    ver, carrier = case["ver"], case["carrier"]
    if "badcase" in res or ver not in ("2.0", "2.1") or carrier == "nonmapping":
        return out
    state = res["init"]
    cur_text_t = time_of_text(res.get("init_ser"))
    if cur_text_t is None:
        cur_text_t = ser(ver, instant_of_value(version_time(state)))
    chain_sers = []
    naive_in = any("dt" in v and v["dt"][1] is None for _, v in case["init"])
    # narrow class of the fold defect: the version time is a zone-aware datetime in the second reading of a repeated
    # hour (fold=1 and the offset differs from the fold=0 one); the push-ahead arithmetic forgets the fold
    fold_class = any("zdt" in v and v["zdt"][8] == 1 and zdt_fields(v)[1] != zdt_fields(v)[2] for _, v in case["init"])

    def viol(i, what, finding=None):
        sub = dict(case)
        sub["ops"] = case["ops"][:i + 1]
        sub["_state_before"] = state          # lets the check try a one-operation replay
        out.append(Violation("%s [%s %s %s, operation %d: %s]" % (what, ver, carrier, case.get("ty"), i, json.dumps(case["ops"][i])[:300]),
                             {"case": sub, "check": what}, finding))

    for i, (op, st) in enumerate(zip(case["ops"], res["steps"])):
        if not st["orig_untouched"]:
            viol(i, "the original was modified by the operation")
        revoked = truthy(sget(state, "revoked"))
        exp = expected_changes(op, state)
        old_t = ser(ver, instant_of_value(version_time(state)))
        touches_unmod = [k for k in exp if k in UNMOD_SPEC and (exp[k] != sget(state, k))]
        locked = []
        ty = (sget(state, "type") or {}).get("j")
        idv = (sget(state, "id") or {}).get("j")
        if ver == "2.1" and isinstance(ty, str) and isinstance(idv, str) and sco_contrib(ty) is not None and is_uuid5(idv):
            locked = [k for k in exp if k in sco_contrib(ty) and exp[k] != sget(state, k)]
        supplied = exp.get("modified") if op["op"] == "new" and any(k == "modified" for k, _ in op["changes"]) else None
        sup_t = ser(ver, instant_of_value(supplied)) if supplied is not None else None
        if st["ok"]:
            new = st["state"]
            if st["same"]:
                # remove_markings on an unmarked object hands back the object itself: no new version was made
                continue
            if revoked:
                viol(i, "a revoked object was versioned or revoked again")
            if touches_unmod:
                viol(i, "an unmodifiable property was changed: %s" % touches_unmod)
            if locked:
                viol(i, "an identifier-contributing property of a deterministic-id SCO was changed: %s" % locked)
            for k in UNMOD_SPEC:
                if sget(new, k) != sget(state, k):
                    viol(i, "the new version does not keep %s" % k)
            keys = [k for k, _ in state] + [k for k, _ in new] + list(exp)
            for k in dict.fromkeys(keys):
                if k == "modified":
                    continue
                want = exp[k] if k in exp else sget(state, k)
                got = sget(new, k)
                if isinstance(want, tuple):
                    ok = got is not None and isinstance(got.get("j"), list) and set(got["j"]) == want[1] and len(got["j"]) == len(want[1])
                else:
                    ok = got == want
                if not ok:
                    viol(i, "property %s of the new version is %s, the requested change set gives %s" % (k, json.dumps(got)[:120], str(want)[:120]))
            new_t = ser(ver, instant_of_value(sget(new, "modified")))
            if new_t is None or old_t is None or not new_t > old_t:
                viol(i, "modified of the new version (%s us serialized) is not strictly later than the original's (%s us)" % (new_t, old_t),
                     FINDING_MAPPING if (carrier == "mapping" and supplied is None) else FINDING_FOLD if fold_class else None)
            if sup_t is not None and old_t is not None and not sup_t > old_t:
                viol(i, "a caller-supplied modified time that is not strictly later was accepted")
            if sup_t is not None and new_t != sup_t:
                viol(i, "the caller-supplied modified time was not applied")
            tt = time_of_text(st["ser"])
            if st["ser"] is not None:
                if tt is None or (cur_text_t is not None and not tt > cur_text_t):
                    viol(i, "serialized modified %r is not strictly later than the previous version's" % st["ser"],
                         FINDING_MAPPING if (carrier == "mapping" and supplied is None) else FINDING_FOLD if fold_class else None)
                cur_text_t = tt
            chain_sers.append(new_t)
            state = new
        else:
            must_refuse = revoked or touches_unmod or locked or (sup_t is not None and old_t is not None and not sup_t > old_t)
            if op["op"] == "remove_mark":
                curm = (sget(state, "object_marking_refs") or {"j": []})["j"] or []
                if curm and not set(op["ms"]) <= set(curm):
                    must_refuse = True        # MarkingNotFoundError: nothing to remove
            if op.get("legal") is True and not must_refuse and case["kind"] in ("versionable", "unregistered", "sco-dict", "revoked-variant"):
                f = FINDING_NAIVE if (naive_in and st["exc"] == "TypeError") else None
                if carrier == "mapping" and supplied is not None and st["exc"] == "InvalidValueError":
                    f = FINDING_MAPPING       # same cause: the supplied time is compared after millisecond truncation
                viol(i, "a legal operation on a versionable %s was refused with %s" % (carrier, st["exc"]), f)
    for a, b in zip(chain_sers, chain_sers[1:]):
        if not b > a:
            out.append(Violation("serialized modified times do not strictly increase along the chain (%s then %s)" % (a, b),
                                 {"case": case, "check": "chain"},
                                 FINDING_MAPPING if carrier == "mapping" else FINDING_FOLD if fold_class else None))
            break
    return out


# --------------------------------------------------------------------------

NAIVE_PROBE = {"k": "parse", "p": "any", "c": "exact", "in": {"dt": [2020, 1, 2, 3, 4, 5, 6], "off": None, "tz": "std"}}


def select_variant(run):
    res = common.run_impl("c15_impl", [NAIVE_PROBE], procs=1)[0]
    parts = res.split(" || ")[0].split(" ")
    if len(parts) >= 3 and parts[0] == "OK" and parts[2] == "naive":
        return "NaiveKept"
    if len(parts) >= 3 and parts[0] == "OK" and parts[2] == "0":
        return "NaiveUtc"
    run.broken.append(Broken("correspondence", "naive-datetime probe matches neither variant", {"observed": res}))
    return "NaiveUtc"


FOLD_PROBE = None


def fold_probe_case():
    """the witness of the fold defect: a 2.1 identity whose version time is the second reading of a repeated hour"""
    m = ZDT(int(c15.instant(2021, 10, 31, 1, 30, 0, None)), "Europe/Berlin")
    init = [["type", J("identity")], ["spec_version", J("2.1")], ["id", J("identity--311b2d2d-f010-4473-83ec-1edf84858f4c")],
            ["created", m], ["modified", m], ["name", J("x")]]
    return {"carrier": "object", "ver": "2.1", "init": init, "allow_custom": False, "ty": "identity", "kind": "versionable",
            "ops": [{"op": "new", "changes": [["name", J("y")]], "now": int(c15.instant(2021, 10, 30, 0, 0, 0, None)),
                     "allow_custom": None, "legal": True}]}


def select_fold_variant(run):
    """Does the push-ahead arithmetic keep the instant of a zone-aware value in a repeated hour ("utc"), or does it
    forget the fold ("fold_reset", the defective variant the model cannot express: such chains are then reported by
    the oracle and left out of the correspondence)?"""
    c = fold_probe_case()
    r = common.run_impl("c05_impl", [c], procs=1)[0]
    st = (r.get("steps") or [{}])[0]
    t = instant_of_value(sget(st.get("state") or [], "modified")) if st.get("ok") else None
    want = int(c15.instant(2021, 10, 31, 1, 30, 0, None)) + 1
    if t == want:
        return "utc"
    if t == want - 3600000000:
        return "fold_reset"
    run.broken.append(Broken("correspondence", "fold probe matches neither variant", {"observed": r.get("line", r)}))
    return "utc"


def in_fold_class(case):
    return any("zdt" in v and v["zdt"][8] == 1 and zdt_fields(v)[1] != zdt_fields(v)[2] for _, v in case["init"])


def strip(case):
    return {k: v for k, v in case.items()}


def run_cases(run, cases, nm, label):
    impl = common.run_impl("c05_impl", cases)
    good = [(c, r) for c, r in zip(cases, impl) if "badcase" not in r and c["carrier"] != "mapping"
            and not (run.coverage.get("variant_selected", {}).get("push_ahead") == "fold_reset" and in_fold_class(c))]
    bad = [(c, r) for c, r in zip(cases, impl) if "badcase" in r]
    terms = [model_term(c, r["init"], nm) for c, r in good]
    model = eval_by_size(label, terms)
    dis = []
    for (c, r), m in zip(good, model):
        if r["line"] != m:
            dis.append({"case": c, "impl": r["line"][:1500], "model": m[:1500]})
    return impl, good, bad, dis


PYCMP = {"CLt": lambda a, b: a < b, "CLe": lambda a, b: a <= b, "CGt": lambda a, b: a > b, "CGe": lambda a, b: a >= b,
         "CEq": lambda a, b: a == b, "CNe": lambda a, b: a != b}


def probe_source(run, src):
    """Run-time probes must agree with what the translator read: the real _fudge_modified against the
    arithmetic of the recorded comparisons and constants, at every offset around the old time."""
    cases, want = [], []
    for old in (T2020, T2020 + 1500, T2020 + 999999):
        for d in list(range(-1100, 2101)) + [-1000000, 1000000, 86400000000]:
            for v21 in (True, False):
                now = old + d
                cases.append({"probe": "fudge", "old": old, "now": now, "v21": v21})
                if v21:
                    want.append(old + src["f21_push"] if PYCMP[src["f21_cmp"]](now, old) else now)
                else:
                    want.append(old + src["f20_push"] if PYCMP[src["f20_cmp"]](now - old, src["f20_threshold"]) else now)
    got = common.run_impl("c05_impl", cases, procs=4)
    bad = [(c, g, w) for c, g, w in zip(cases, got, want) if g.get("us") != w]
    run.coverage["source_probes"] = len(cases)
    if bad:
        run.broken.append(Broken("correspondence", "_fudge_modified at run time vs the comparisons and constants read from its text",
                                 {"first": [{"case": c, "impl": g, "text": w} for c, g, w in bad[:5]]}))


def eval_by_size(label, terms, limit=90000):
    """Case files of at most ~90 KB of literals each (literal parsing is the cost), evaluated in parallel."""
    from concurrent.futures import ThreadPoolExecutor
    groups, cur, size = [], [], 0
    for t in terms:
        if cur and size + len(t) > limit:
            groups.append(cur)
            cur, size = [], 0
        cur.append(t)
        size += len(t)
    if cur:
        groups.append(cur)

    def run(ig):
        i, g = ig
        return common.coq_eval_lines("%s%d" % (label, i), HEADER, g, shard=len(g))
    out = []
    with ThreadPoolExecutor(max_workers=common.NCPU) as ex:
        for lines in ex.map(run, enumerate(groups)):
            out.extend(lines)
    return out


def check(run):
    thorough = run.tier == "thorough"
    n_chains, max_ops = (3000, 200) if thorough else (600, 40)
    run.coverage["rule"] = (
        "chains (quick: 600 of up to 40 operations; thorough: 3000 of up to 200) of new_version (legal change sets, "
        "caller-supplied modified, attempts on unmodifiable properties), revoke and add/remove/clear/set object-marking "
        "operations on objects and dicts of every versionable SDO/SRO type of STIX 2.0 and 2.1 (generated from the frozen "
        "specification tables), timestamps as text / aware / offset / naive datetimes, plus refusal paths (non-versionable "
        "types, SCO dicts with deterministic ids, unregistered types, missing created, non-mappings, revoked objects, odd "
        "timestamp values, other spec_version strings); the clock of every operation is scripted at offsets "
        "{-1s,-1us,0,+1us,+999us,+1000us,+1001us,+1s} (and random ones) from the previous modified time and from its "
        "millisecond truncation; a chain is non-trivial when at least one operation produced a new version")
    gen_ok = False
    with common.Lock():
        try:
            import tr_versioning
            text, live = tr_versioning.translate(common.REPO, common.PY, common.VERIF)
            common.write_if_changed(os.path.join(common.COQ, "Gen", "VersioningTables.v"), text)
            gen_ok = True
            run.coverage["live_tables"] = {"unmod": live["unmod"], "verprops": live["verprops"], "registry_rows": len(live["registry"]),
                                           "sco21_rows": len(live["sco21"])}
        except Exception as e:  # noqa: BLE001
            run.broken.append(Broken("translator", "tr_versioning", {"error": "%s: %s" % (type(e).__name__, str(e)[-800:])}))
        if gen_ok:
            res = common.build_props("Props/C05.v")
            run.add_build(res, "make -C coq Props/C05.vo Props/C05Src.vo (coqc 8.16.1, full .vo) + Print Assumptions per theorem")
        else:
            run.coverage["obligations"] += len(common.theorems_in("Props/C05.v"))
        # the source-text tie: the choices of versioning.py read from its ast, and the obligations on them
        src = None
        try:
            import tr_versioning_src
            text, src = tr_versioning_src.translate(common.REPO, common.PY, common.VERIF)
            common.write_if_changed(os.path.join(common.COQ, "Gen", "VersioningSrc.v"), text)
            run.coverage["source_choices"] = {k: src[k] for k in ("f21_cmp", "f21_push", "f20_cmp", "f20_threshold", "f20_push",
                                                                   "supplied_cmp", "i_revoked", "unmod_lists")}
        except Exception as e:  # noqa: BLE001
            run.broken.append(Broken("translator", "tr_versioning_src", {"error": "%s: %s" % (type(e).__name__, str(e)[-800:])}))
        if src is not None:
            res2 = common.build_props("Props/C05Src.v")
            run.add_build(res2, "make -C coq Props/C05.vo Props/C05Src.vo (coqc 8.16.1, full .vo) + Print Assumptions per theorem")
        else:
            run.coverage["obligations"] += len(common.theorems_in("Props/C05Src.v"))
    if src is not None:
        probe_source(run, src)
    nm = select_variant(run)
    run.coverage["variant_selected"] = {"naive_mode": nm, "push_ahead": select_fold_variant(run)}
    cases = gen_cases(run, n_chains, max_ops)
    hist = {}
    try:
        impl, good, bad, dis = run_cases(run, cases, nm, "c05m")
        run.coverage["correspondence_cases"] = len(good)
        run.coverage["correspondence_disagreements"] = len(dis)
        run.coverage["cases_not_constructible"] = len(bad)
        if bad:
            run.coverage["not_constructible_sample"] = [{"ty": c.get("ty"), "ver": c["ver"], "why": r["badcase"]} for c, r in bad[:4]]
        if dis:
            run.coverage["correspondence_first_disagreements"] = dis[:3]
            run.broken.append(Broken("correspondence", "Model/Versioning.v (%s) vs stix2.versioning / object markings" % nm, {"first": dis[:5]}))
    except RuntimeError as e:
        run.broken.append(Broken("correspondence", "model evaluation failed", {"error": str(e)[-1500:]}))
        impl = common.run_impl("c05_impl", cases)
    nops = 0
    for c, r in zip(cases, impl):
        made = sum(1 for s in r.get("steps", []) if s["ok"] and not s["same"])
        run.count({k: v for k, v in c.items()}, nontrivial=made > 0)
        h = hist.setdefault("%s/%s/%s" % (c["kind"], c["carrier"], c["ver"]), {"chains": 0, "operations": 0, "new_versions": 0, "refused": 0})
        h["chains"] += 1
        h["operations"] += len(c["ops"])
        h["new_versions"] += made
        h["refused"] += sum(1 for s in r.get("steps", []) if not s["ok"])
        nops += len(c["ops"])
        for v in oracle_case(c, r):
            v.origin = (cases, c)
            run.violations.append(v)
    run.violations += local_zone_runs(run, cases, impl)
    run.violations += repeat_runs(run, cases, impl)
    run.coverage["distribution"] = hist
    run.coverage["operations"] = nops
    run.coverage["types_covered"] = sorted({"%s/%s" % (c["ver"], c["ty"]) for c in cases if c["kind"] == "versionable"})
    for i in (0, len(cases) // 2, len(cases) - 1):
        run.sample({"case": {k: (v if k != "ops" else v[:3]) for k, v in cases[i].items() if k != "init"}, "impl": impl[i].get("line", impl[i])[:600]})
    if run.broken and not run.violations:
        # something no longer checks: aim at the clock offsets and at the tables
        extra = search_cases(run)
        eimpl = common.run_impl("c05_impl", extra)
        for c, r in zip(extra, eimpl):
            for v in oracle_case(c, r):
                v.origin = (extra, c)
                run.violations.append(v)
        run.coverage["search_cases"] = len(extra)
    run.coverage["failing_cases_found"] = len(run.violations)
    run.violations[:] = [reproducible(minimise(v), v) for v in first_per_kind(run.violations)]
    run.coverage["trusted_base"] += [
        "coq/Model/Versioning.v (+ Model/Timestamp.v, Model/Calendar.v): hand-written model of stix2/versioning.py, object markings and the utils they call (correspondence-checked each run)",
        "translators/tr_versioning.py: live STIX_UNMOD_PROPERTIES, _VERSIONING_PROPERTIES, registry and _id_contributing_properties of /repo; frozen tables from /verif/spec/stix_tables.json",
        "the scripted clock installed as stix2.versioning.get_timestamp by harness/impl/c05_impl.py",
    ]
    run.assumptions += [
        "class constructors accept legal change sets unchanged apart from cleaning `modified` (schema validation is C02/C03's concern)",
        "spec versions are 2.0 and 2.1; dicts announcing another spec_version are run for correspondence only",
        "'leaves the original untouched' is observed on every operation by the harness; the proof of it is C13's",
        "timestamps stay inside years 1..9999 (an object modified at 9999-12-31T23:59:59.999999Z cannot get a later version)",
    ]


def search_cases(run):
    """Only when something broke and no generated chain failed the property: every versionable type x carrier at
    every boundary clock offset, and a change to each unmodifiable / contributing property."""
    class R:
        rng = run.rng
        coverage = {}
    cases = gen_cases(R, 1500, 12)
    return cases


def minimise(v):
    """Try to replace a failing chain by its last operation applied to the version it failed on."""
    case = v.replay.get("case") or {}
    before = case.pop("_state_before", None)
    if not before or len(case.get("ops", [])) < 2:
        return v
    small = dict(case)
    small["init"] = before
    small["ops"] = case["ops"][-1:]
    small["allow_custom"] = True
    try:
        res = impl_run([small], procs=1, tz=v.replay.get("tz"))[0]
        again = [x for x in oracle_case(small, res) if x.replay.get("check") == v.replay.get("check")]
    except Exception:  # noqa: BLE001
        again = []
    if again:
        a = again[0]
        a.replay["case"].pop("_state_before", None)
        a.finding = v.finding
        return a
    return v


TZ_ZONES = ["JST-9", "EST5EDT"]          # POSIX TZ strings: no tz database needed


def impl_run(cases, procs=None, tz=None):
    """common.run_impl, the workers' process time zone set to `tz` (None: as inherited)."""
    if tz is None:
        return common.run_impl("c05_impl", cases, procs=procs)
    old = os.environ.get("TZ")
    os.environ["TZ"] = tz
    try:
        return common.run_impl("c05_impl", cases, procs=procs)
    finally:
        if old is None:
            os.environ.pop("TZ", None)
        else:
            os.environ["TZ"] = old


def comparable(c, r):
    """the outcome without the properties the constructor filled in from the wall clock (e.g. a defaulted valid_from)"""
    if "badcase" in r:
        return "badcase"
    keep = {k for k, _ in c["init"]} | {k for o in c["ops"] for k, _ in o.get("changes", [])} | \
        {"modified", "revoked", "object_marking_refs"}
    flt = lambda st: None if st is None else [kv for kv in st if kv[0] in keep]
    return json.dumps([flt(r["init"])] + [[x["ok"], x["exc"], x["same"], flt(x["state"])] for x in r["steps"]], sort_keys=True)


def local_zone_runs(run, cases, impl):
    """A share of the chains again in workers whose process time zone is not UTC (all chains holding naive
    datetimes, and a sample of the others): naive = UTC by the library's rule, so every answer must be the same."""
    def has_naive(c):
        return any("dt" in v and v["dt"][1] is None for _, v in c["init"]) or \
            any("dt" in v and v["dt"][1] is None for o in c["ops"] for _, v in o.get("changes", []))
    idx = [i for i, c in enumerate(cases) if has_naive(c)][:120]
    idx = sorted(set(idx + list(range(0, len(cases), max(1, len(cases) // 120)))))
    sub = [cases[i] for i in idx]
    out = []
    info = {}
    for tz in TZ_ZONES:
        res = impl_run(sub, procs=min(common.NCPU, 8), tz=tz)
        nd = 0
        differing = [(i, c) for i, c, r in zip(idx, sub, res) if comparable(c, r) != comparable(c, impl[i])]
        # outcomes that differ between two runs in the SAME zone (random ids of embedded objects, ...) say nothing
        again = impl_run([c for _, c in differing], procs=1, tz="UTC") if differing else []
        unstable = {i for (i, c), r2 in zip(differing, again) if comparable(c, r2) != comparable(c, impl[i])}
        info.setdefault("not_deterministic", 0)
        info["not_deterministic"] = max(info["not_deterministic"], len(unstable))
        for i, c, r in zip(idx, sub, res):
            if i in unstable:
                continue
            if comparable(c, r) != comparable(c, impl[i]):
                nd += 1
                if nd <= 5:
                    out.append(Violation("the outcome of the chain depends on the time zone of the process (TZ=%s: %s; TZ unset/UTC: %s) [%s %s %s]"
                                         % (tz, str(r.get("line", r))[:300], str(impl[i].get("line", impl[i]))[:300], c["ver"], c["carrier"], c.get("ty")),
                                         {"case": c, "check": "process time zone", "tz": tz, "utc_line": impl[i].get("line")}, None))
            for v in oracle_case(c, r):
                v.replay["tz"] = tz
                out.append(v)
        info[tz] = {"chains": len(sub), "differences": nd}
    run.coverage["local_zone_runs"] = info
    return out


def repeat_runs(run, cases, impl):
    """History / order: a sample of the chains run again, twice in one interpreter -- in the original order and then
    reversed, so that every chain comes after other types, other spec versions, failed operations: same outcomes."""
    idx = list(range(0, len(cases), max(1, len(cases) // 110)))
    out, nd, unstable = [], 0, 0
    for b in range(0, len(idx), 80):
        part = idx[b:b + 80]
        seq = part + part[::-1]
        batch = [cases[i] for i in seq]
        res = impl_run(batch, procs=1)
        for pos, (i, c, r) in enumerate(zip(seq, batch, res)):
            if comparable(c, r) != comparable(c, impl[i]):
                alone = impl_run([c], procs=1)[0]
                if comparable(c, alone) != comparable(c, impl[i]):
                    unstable += 1             # differs between two fresh interpreters too: random ids, wall clock
                    continue
                nd += 1
                if nd <= 3:
                    out.append(Violation("the outcome of the chain depends on what the interpreter handled before [%s %s %s]: %s"
                                         % (c["ver"], c["carrier"], c.get("ty"), str(r.get("line", r))[:300]),
                                         {"case": c, "before": batch[:pos], "check": "history"}, None))
            for v in oracle_case(c, r):
                v.replay["before"] = batch[:pos]
                out.append(v)
    run.coverage["asked_again"] = {"chains": 2 * len(idx), "differences": nd, "not_deterministic": unstable}
    return out


def kind_of(v):
    return str(v.replay.get("check")).split(" (")[0].split(": ")[0].split(" '")[0]


def shows(case, before, kind, tz=None, utc_line=None):
    """does the failure show in a fresh interpreter that first handles `before`, then `case`?"""
    try:
        res = impl_run(list(before) + [case], procs=1, tz=tz)
    except RuntimeError:
        return False
    if kind == "process time zone":
        return True
    return any(kind_of(x) == kind for x in oracle_case(case, res[-1]))


def reproducible(v, original):
    """A replay runs in a fresh interpreter.  If the (minimised) failure does not show there, fall back to the whole
    chain; if it still does not (it depended on what the same worker process had handled before, e.g. a verdict
    cached for a type), the replay gets the chains that preceded it in that process: those of the same type first."""
    kind = kind_of(v)
    tz, utc_line = original.replay.get("tz"), original.replay.get("utc_line")
    if tz:
        v.replay["tz"] = tz
    clean = lambda c: {k: x for k, x in c.items() if k != "_state_before"}
    if kind in ("process time zone", "history"):
        v = original
        v.replay["case"] = clean(v.replay["case"])
        return v
    if original.replay.get("before"):        # found after other chains in one interpreter: keep them in the replay
        v = original
        v.replay["case"] = clean(v.replay["case"])
        if shows(v.replay["case"], [], kind, tz):
            v.replay.pop("before", None)
        return v
    if shows(clean(v.replay["case"]), [], kind, tz):
        return v
    v = original
    case = clean(v.replay["case"])
    v.replay["case"] = case
    if shows(case, [], kind, tz) or not hasattr(original, "origin"):
        return v
    allc, c0 = original.origin
    idx = next((i for i, c in enumerate(allc) if c is c0), None)
    if idx is None:
        return v
    procs = min(common.NCPU, max(1, len(allc) // 50))       # how run_impl dealt the cases out
    before = [allc[j] for j in range(idx % procs, idx, procs)]
    for pre in ([c for c in before if c.get("ty") == c0.get("ty")], before):
        if pre and shows(case, pre, kind, tz):
            v.replay["before"] = pre
            v.replay["note"] = "order-dependent: the %d chains in `before` prepare the interpreter state" % len(pre)
            return v
    return v


def first_per_kind(violations):
    """One replay per kind of failure is enough (the first found); the count of the others goes to the evidence."""
    seen, out = set(), []
    for v in violations:
        k = (str(v.replay.get("check")).split(" (")[0].split(": ")[0].split(" '")[0], v.finding)
        if k not in seen:
            seen.add(k)
            out.append(v)
    return out


def replay(payload):
    r = payload["replay"]
    case = r["case"]
    case.pop("_state_before", None)
    res = impl_run(list(r.get("before", [])) + [case], procs=1, tz=r.get("tz"))[-1]
    print("replay%s %s %s %s: %s" % (" TZ=" + r["tz"] if r.get("tz") else "", case["ver"], case["carrier"], case.get("ty"),
                                     str(res.get("line", res))[:2000]))
    v = oracle_case(case, res)
    if r.get("check") == "history":
        alone = impl_run([case], procs=1)[0]
        alone2 = impl_run([case], procs=1)[0]
        if comparable(case, alone) == comparable(case, alone2) and comparable(case, alone) != comparable(case, res):
            print("  the outcome differs from that in a fresh interpreter: %s" % str(alone.get("line", alone))[:1500])
            print("VIOLATION property=C05 replay=(given)")
            return 1
    if r.get("tz") and r.get("check") == "process time zone":
        utc = impl_run(list(r.get("before", [])) + [case], procs=1, tz="UTC")[-1]
        utc2 = impl_run(list(r.get("before", [])) + [case], procs=1, tz="UTC")[-1]
        if comparable(case, utc) == comparable(case, utc2) and comparable(case, utc) != comparable(case, res):
            print("  the outcome differs from that of a process in UTC: %s" % str(utc.get("line", utc))[:1500])
            print("VIOLATION property=C05 replay=(given)")
            return 1
    if v:
        for x in v[:3]:
            print("  " + x.what[:600])
        print("VIOLATION property=C05 replay=(given)")
        return 1
    print("no violation on this input")
    return 0

"""C10 generator: concrete syntax trees of the STIX 2.1 pattern grammar (the
same datatype as coq/Model/PatternSyntax.v), their text, their Gallina term,
and object-model specifications for the programmatic cases.

JSON shape of a tree (everything is a list so that a case can be stored in a
replay file):
  token     [kind, text]                       kind = the lexer's symbolic name
  pstep     ["key", tok] | ["idx", tok]
  path      ["path", type_tok, first_tok, [pstep, ...]]
  proptest  ["eq", path, nt, op_tok, lit] | ["ord", path, nt, op_tok, lit] | ["set", path, nt, [lit, ...]]
            | ["str", "LIKE"|"MATCHES"|"ISSUBSET"|"ISSUPERSET", path, nt, tok] | ["paren", cmpor] | ["exists", nt, path]
  cmpand    [proptest, ...]   (left-nested AND chain)      cmpor  [cmpand, ...]
  qual      ["ss", t1, t2] | ["within", tok] | ["repeat", tok]
  obs       ["simple", cmpor] | ["compound", fb] | ["qual", obs, qual]
  obsand    [obs, ...]        obsor [obsand, ...]           fb [obsor, ...]      pattern = fb
"""
import calendar

# ------------------------------------------------------------------ tokens

KIND = {  # lexer symbolic name -> constructor of Model.PatternSyntax.tkind
    "IntNegLiteral": "KIntNeg", "IntPosLiteral": "KIntPos", "FloatNegLiteral": "KFloatNeg",
    "FloatPosLiteral": "KFloatPos", "HexLiteral": "KHex", "BinaryLiteral": "KBinary", "StringLiteral": "KString",
    "BoolLiteral": "KBool", "TimestampLiteral": "KTimestamp", "IdentifierWithoutHyphen": "KIdent",
    "IdentifierWithHyphen": "KIdentHyphen", "EQ": "KEQ", "NEQ": "KNEQ", "LT": "KLT", "LE": "KLE", "GT": "KGT",
    "GE": "KGE", "ASTERISK": "KASTERISK",
}


def esc(s):
    out = []
    for ch in s:
        c = ord(ch)
        if 32 <= c <= 126 and ch not in '\\"':
            out.append(ch)
        else:
            out.append("\\%06X" % c)
    return "".join(out)


def c_tok(t):
    return '(k %s "%s")' % (KIND[t[0]], esc(t[1]))


def c_bool(b):
    return "true" if b else "false"


def c_list(xs):
    return "[" + "; ".join(xs) + "]"


# ------------------------------------------------------------------ tree -> Gallina

def c_pstep(s):
    return "(%s %s)" % ("KeyStep" if s[0] == "key" else "IndexStep", c_tok(s[1]))


def c_path(p):
    _, ty, first, steps = p
    if steps:
        acc = "(OStep %s)" % c_pstep(steps[0])
        for s in steps[1:]:
            acc = "(OPathStep %s %s)" % (acc, c_pstep(s))
        rest = "(Some %s)" % acc
    else:
        rest = "None"
    return "(ObjPath %s %s %s)" % (c_tok(ty), c_tok(first), rest)


STROP = {"LIKE": "SLike", "MATCHES": "SRegex", "ISSUBSET": "SIsSubset", "ISSUPERSET": "SIsSuperset"}


def c_pt(p):
    k = p[0]
    if k == "eq":
        return "(PTEqual %s %s %s %s)" % (c_path(p[1]), c_bool(p[2]), c_tok(p[3]), c_tok(p[4]))
    if k == "ord":
        return "(PTOrder %s %s %s %s)" % (c_path(p[1]), c_bool(p[2]), c_tok(p[3]), c_tok(p[4]))
    if k == "set":
        return "(PTSet %s %s %s)" % (c_path(p[1]), c_bool(p[2]), c_list([c_tok(t) for t in p[3]]))
    if k == "str":
        return "(PTStr %s %s %s %s)" % (STROP[p[1]], c_path(p[2]), c_bool(p[3]), c_tok(p[4]))
    if k == "paren":
        return "(PTParen %s)" % c_or(p[1])
    if k == "exists":
        return "(PTExists %s %s)" % (c_bool(p[1]), c_path(p[2]))
    raise ValueError(k)


def c_chain(items, base, step, sub):
    acc = "(%s %s)" % (base, sub(items[0]))
    for x in items[1:]:
        acc = "(%s %s %s)" % (step, acc, sub(x))
    return acc


def c_and(a):
    return c_chain(a, "CAndBase", "CAnd", c_pt)


def c_or(o):
    return c_chain(o, "COrBase", "COr", c_and)


def c_qual(q):
    if q[0] == "ss":
        return "(QStartStop %s %s)" % (c_tok(q[1]), c_tok(q[2]))
    return "(%s %s)" % ("QWithin" if q[0] == "within" else "QRepeat", c_tok(q[1]))


def c_obs(o):
    if o[0] == "simple":
        return "(OSimple %s)" % c_or(o[1])
    if o[0] == "compound":
        return "(OCompound %s)" % c_fb(o[1])
    return "(OQual %s %s)" % (c_obs(o[1]), c_qual(o[2]))


def c_oand(a):
    return c_chain(a, "OAndBase", "OAnd", c_obs)


def c_oor(a):
    return c_chain(a, "OOrBase", "OOr", c_oand)


def c_fb(a):
    return c_chain(a, "OFbBase", "OFb", c_oor)


# ------------------------------------------------------------------ tree -> tokens -> text

def kw(s):
    return ["KW", s]


def y_path(p):
    _, ty, first, steps = p
    out = [ty, kw(":"), first]
    for s in steps:
        out += [kw("."), s[1]] if s[0] == "key" else [kw("["), s[1], kw("]")]
    return out


def y_pt(p):
    k = p[0]
    nt = lambda b: [kw("NOT")] if b else []   # noqa: E731
    if k in ("eq", "ord"):
        return y_path(p[1]) + nt(p[2]) + [p[3], p[4]]
    if k == "set":
        out = y_path(p[1]) + nt(p[2]) + [kw("IN"), kw("(")]
        for i, t in enumerate(p[3]):
            if i:
                out.append(kw(","))
            out.append(t)
        return out + [kw(")")]
    if k == "str":
        return y_path(p[2]) + nt(p[3]) + [kw(p[1]), p[4]]
    if k == "paren":
        return [kw("(")] + y_or(p[1]) + [kw(")")]
    return nt(p[1]) + [kw("EXISTS")] + y_path(p[2])


def y_join(items, sep, sub):
    out = []
    for i, x in enumerate(items):
        if i:
            out.append(kw(sep))
        out += sub(x)
    return out


def y_and(a):
    return y_join(a, "AND", y_pt)


def y_or(o):
    return y_join(o, "OR", y_and)


def y_qual(q):
    if q[0] == "ss":
        return [kw("START"), q[1], kw("STOP"), q[2]]
    if q[0] == "within":
        return [kw("WITHIN"), q[1], kw("SECONDS")]
    return [kw("REPEATS"), q[1], kw("TIMES")]


def y_obs(o):
    if o[0] == "simple":
        return [kw("[")] + y_or(o[1]) + [kw("]")]
    if o[0] == "compound":
        return [kw("(")] + y_fb(o[1]) + [kw(")")]
    return y_obs(o[1]) + y_qual(o[2])


def y_oand(a):
    return y_join(a, "AND", y_obs)


def y_oor(a):
    return y_join(a, "OR", y_oand)


def y_fb(a):
    return y_join(a, "FOLLOWEDBY", y_oor)


PUNCT = set(":.[](),")


def text_of(toks, rng=None, fancy=0.0):
    """tokens separated by one space, none next to : . and inside brackets the
    way people write patterns; with `fancy` probability per gap other
    whitespace (the lexer skips it)."""
    out = []
    for i, t in enumerate(toks):
        if i:
            a, b = toks[i - 1][1], t[1]
            tight = (a in (":", ".", "[", "(") or b in (":", ".", "]", ")", ",")
                     or (b == "[" and toks[i - 1][0] != "KW"))
            # "[" after a name is an index step; after a keyword/operator it opens an observation
            if rng is not None and rng.random() < fancy:
                out.append(rng.choice(["  ", "\t", "\n", " \n ", "", " "]) if tight else rng.choice(["  ", "\t", "\n", " \r\n"]))
            elif not tight:
                out.append(" ")
        out.append(t[1])
    return "".join(out)


# ------------------------------------------------------------------ features of a tree (for classification)

def walk_pt(fb):
    """all proptests of a pattern (outermost first)"""
    out = []

    def f_or(o):
        for a in o:
            for p in a:
                out.append(p)
                if p[0] == "paren":
                    f_or(p[1])

    def f_obs(o):
        if o[0] == "simple":
            f_or(o[1])
        elif o[0] == "compound":
            f_fb(o[1])
        else:
            f_obs(o[1])

    def f_fb(x):
        for oo in x:
            for oa in oo:
                for o in oa:
                    f_obs(o)
    f_fb(fb)
    return out


def walk_quals(fb):
    out = []

    def f_obs(o):
        if o[0] == "compound":
            f_fb(o[1])
        elif o[0] == "qual":
            out.append(o[2])
            f_obs(o[1])

    def f_fb(x):
        for oo in x:
            for oa in oo:
                for o in oa:
                    f_obs(o)
    f_fb(fb)
    return out


def path_of(p):
    return {"eq": 1, "ord": 1, "set": 1, "str": 2, "exists": 2}.get(p[0]) and p[{"eq": 1, "ord": 1, "set": 1, "str": 2, "exists": 2}[p[0]]]


def literals_of(fb):
    out = []
    for p in walk_pt(fb):
        if p[0] in ("eq", "ord"):
            out.append(p[4])
        elif p[0] == "set":
            out += p[3]
        elif p[0] == "str":
            out.append(p[4])
    for q in walk_quals(fb):
        out += q[1:]
    return out


def is_ident(s):
    return bool(s) and (s[0].isalpha() or s[0] == "_") and s[0].isascii() and all((c.isalnum() and c.isascii()) or c == "_" for c in s) \
        and s not in KEYWORDS


KEYWORDS = {"AND", "OR", "NOT", "FOLLOWEDBY", "LIKE", "MATCHES", "ISSUPERSET", "ISSUBSET", "EXISTS", "LAST", "IN",
            "START", "STOP", "SECONDS", "true", "false", "WITHIN", "REPEATS", "TIMES"}


def float_sci(text):
    """does repr(float(text)) use exponent notation?"""
    r = repr(float(text))
    return "e" in r or "inf" in r or "nan" in r


def ts_parts(text):
    inner = text[2:-1]
    y, mo, d = int(inner[0:4]), int(inner[5:7]), int(inner[8:10])
    s = int(inner[17:19])
    frac = inner[20:-1] if inner[19] == "." else ""
    return y, mo, d, s, frac


def ts_real(text):
    """a real calendar date (the lexer only checks digit ranges)"""
    y, mo, d, s, frac = ts_parts(text)
    return y >= 1 and d <= calendar.monthrange(y, mo)[1] if y >= 1 else False


def features(fb):
    """the input classes of the known defect classes present in a tree, as a set of finding ids"""
    fs = set()
    for p in walk_pt(fb):
        k = p[0]
        if k == "eq" and p[2] and p[3][0] == "NEQ":
            fs.add("C10-not-neq-loses-negation")
        if k == "ord" and p[2]:
            fs.add("C10-not-order-typeerror")
        if k == "set" and p[2]:
            fs.add("C10-not-dropped-in")
        if k == "str" and p[3]:
            fs.add("C10-not-dropped-" + p[1].lower())
        if k == "exists":
            fs.add("C10-exists-unhandled")
        pa = path_of(p)
        if pa:
            steps = pa[3]
            prev = ["key", pa[2]]
            for i, s in enumerate(steps):
                if s[0] == "key" and s[1][0] == "StringLiteral":
                    body = s[1][1][1:-1]
                    if "-" not in body and not is_ident(body):
                        fs.add("C10-quoted-key-printed-unquoted")
                    if i + 1 < len(steps) and steps[i + 1][0] == "idx" and steps[i + 1][1][0] == "ASTERISK":
                        fs.add("C10-quoted-key-star-attributeerror")
                if s[0] == "idx" and prev[0] == "idx":
                    fs.add("C10-index-after-index-attributeerror")
                prev = s
    for t in literals_of(fb):
        if t[0] in ("FloatPosLiteral", "FloatNegLiteral") and float_sci(t[1]):
            fs.add("C10-float-exponent-notation")
        if t[0] == "HexLiteral" and t[1] == "h''":
            fs.add("C10-empty-hex-valueerror")
        if t[0] == "TimestampLiteral":
            y, mo, d, s, frac = ts_parts(t[1])
            if ts_real(t[1]) and (len(frac) > 6 or s == 60):
                fs.add("C10-timestamp-unrepresentable")
            if ts_real(t[1]) and y < 1000:
                fs.add("C10-year-below-1000")
    for q in walk_quals(fb):
        if q[0] == "within" and q[1][0] == "FloatPosLiteral":
            fs.add("C10-within-float-valueerror")
    if root_types_ok(fb) and not root_types_ok(fb, lib=True):
        fs.add("C10-chain-root-types-stale")
    return fs


def root_types_ok(fb, lib=False):
    """no AND of comparison expressions whose operands cannot concern one object type
    (AND = intersection, OR = union of the object types, at every level).
    lib=True: the library's own computation, which looks at the first two operands of a chain only"""
    ok = [True]

    def rt_pt(p):
        if p[0] == "paren":
            return rt_or(p[1])
        return {path_of(p)[1][1]}

    def rt_and(a):
        s = None
        for i, p in enumerate(a):
            r = rt_pt(p)
            if lib and i >= 2:
                continue
            s = r if s is None else (s & r)
            if not s:
                ok[0] = False
        return s or set()

    def rt_or(o):
        s = set()
        for i, a in enumerate(o):
            r = rt_and(a)
            if lib and i >= 2:
                continue
            s |= r
        return s

    def f_obs(o):
        if o[0] == "simple":
            rt_or(o[1])
        elif o[0] == "compound":
            f_fb(o[1])
        else:
            f_obs(o[1])

    def f_fb(x):
        for oo in x:
            for oa in oo:
                for o in oa:
                    f_obs(o)
    f_fb(fb)
    return ok[0]


def dates_ok(fb):
    return all(ts_real(t[1]) for t in literals_of(fb) if t[0] == "TimestampLiteral")


def in_scope(fb):
    """the tree is a valid pattern in the sense of the property: grammatical (by
    construction), every timestamp a real date, every AND satisfiable by one object type"""
    return dates_ok(fb) and root_types_ok(fb)


def size(fb):
    return len(y_fb(fb))


def has_compound(fb):
    return len(fb) > 1 or len(fb[0]) > 1 or len(fb[0][0]) > 1 or fb[0][0][0][0] != "simple" or \
        len(fb[0][0][0][1]) > 1 or len(fb[0][0][0][1][0]) > 1


# ------------------------------------------------------------------ neutralising the known defect classes

def neutralise(fb, ids):
    """the same tree with the constructs of the given finding classes replaced
    by their nearest unaffected neighbour (NOT removed, float -> plain, ...)"""
    def n_tok(t):
        if t[0] in ("FloatPosLiteral", "FloatNegLiteral") and "C10-float-exponent-notation" in ids and float_sci(t[1]):
            return [t[0], ("-" if t[1].startswith("-") else "") + "1.5"]
        if t[0] == "HexLiteral" and t[1] == "h''" and "C10-empty-hex-valueerror" in ids:
            return ["HexLiteral", "h'00'"]
        if t[0] == "TimestampLiteral" and ts_real(t[1]):
            y, mo, d, s, frac = ts_parts(t[1])
            txt = t[1]
            if "C10-timestamp-unrepresentable" in ids and (len(frac) > 6 or s == 60):
                txt = txt[:19] + ("59" if s == 60 else txt[19:21]) + (("." + frac[:6]) if frac else "") + "Z'"
            if "C10-year-below-1000" in ids and y < 1000:
                txt = "t'2" + txt[3:]
            return ["TimestampLiteral", txt]
        return t

    def n_path(pa):
        _, ty, first, steps = pa
        if "C10-chain-root-types-stale" in ids:
            ty = ["IdentifierWithoutHyphen", "a"]
        out = []
        for i, s in enumerate(steps):
            if s[0] == "key" and s[1][0] == "StringLiteral":
                body = s[1][1][1:-1]
                if "C10-quoted-key-printed-unquoted" in ids and "-" not in body and not is_ident(body):
                    s = ["key", ["StringLiteral", "'k-q'"]]
                if "C10-quoted-key-star-attributeerror" in ids and i + 1 < len(steps) and steps[i + 1][0] == "idx" \
                        and steps[i + 1][1][0] == "ASTERISK":
                    s = ["key", ["IdentifierWithoutHyphen", "kq"]]
            if s[0] == "idx" and out and out[-1][0] == "idx" and "C10-index-after-index-attributeerror" in ids:
                continue
            if s[0] == "idx" and not out and False:
                continue
            out.append(s)
        return ["path", ty, first, out]

    def n_pt(p):
        k = p[0]
        if k == "eq":
            nt = p[2] and not ("C10-not-neq-loses-negation" in ids and p[3][0] == "NEQ")
            return ["eq", n_path(p[1]), nt, p[3], n_tok(p[4])]
        if k == "ord":
            return ["ord", n_path(p[1]), p[2] and "C10-not-order-typeerror" not in ids, p[3], n_tok(p[4])]
        if k == "set":
            return ["set", n_path(p[1]), p[2] and "C10-not-dropped-in" not in ids, [n_tok(t) for t in p[3]]]
        if k == "str":
            return ["str", p[1], n_path(p[2]), p[3] and ("C10-not-dropped-" + p[1].lower()) not in ids, n_tok(p[4])]
        if k == "paren":
            return ["paren", n_or(p[1])]
        if "C10-exists-unhandled" in ids:
            return ["eq", n_path(p[2]), p[1], ["EQ", "="], ["IntPosLiteral", "1"]]
        return ["exists", p[1], n_path(p[2])]

    def n_or(o):
        return [[n_pt(p) for p in a] for a in o]

    def n_qual(q):
        if q[0] == "within" and q[1][0] == "FloatPosLiteral" and "C10-within-float-valueerror" in ids:
            return ["within", ["IntPosLiteral", "5"]]
        return [q[0]] + [n_tok(t) for t in q[1:]]

    def n_obs(o):
        if o[0] == "simple":
            return ["simple", n_or(o[1])]
        if o[0] == "compound":
            return ["compound", n_fb(o[1])]
        return ["qual", n_obs(o[1]), n_qual(o[2])]

    def n_fb(x):
        return [[[n_obs(o) for o in oa] for oa in oo] for oo in x]
    return n_fb(fb)


# ------------------------------------------------------------------ leaves

# keywords of the two installed grammars (literal names of the generated lexers); a keyword of one version that is
# not one of the other is an ordinary name there
KEYWORDS_21 = ["AND", "OR", "NOT", "FOLLOWEDBY", "LIKE", "MATCHES", "ISSUPERSET", "ISSUBSET", "EXISTS", "LAST", "IN", "START",
               "STOP", "SECONDS", "true", "false", "WITHIN", "REPEATS", "TIMES"]
KEYWORDS_20 = [k for k in KEYWORDS_21 if k != "EXISTS"]
ONLY_21 = [k for k in KEYWORDS_21 if k not in KEYWORDS_20]
# sizes / depths on both sides of plausible bounds
SIZES = [0, 1, 2, 9, 10, 11, 63, 64, 65, 100, 101, 255, 256]

TYPES = ["file", "a", "ipv4-addr", "x-foo", "network-traffic", "a-b-c", "_t", "email-message", "t", "h", "b", "x--y", "a__b"]
IDENTS = ["a", "b", "c", "name", "value", "hashes", "x_y", "_z", "A1", "src_ref", "dst_ref", "extensions", "b64",
          "t", "h", "ANDx", "INx", "trues", "not", "and", "True", "exists", "e1", "a__b", "__", "x_y_z", "_ref", "x__ref"] + \
         [k.swapcase() for k in KEYWORDS_21]          # a keyword in the other case is an ordinary identifier
QKEYS_HYPHEN = ["SHA-256", "a-b", "windows-pebinary-ext", "x-y-z", "-", "a-", "-1", "it\\'s-a", "back\\\\-slash", "\u00e9-\u6f22"]
QKEYS_IDENT = ["MD5", "a", "x_1", "_", "SHA256"]
QKEYS_WEIRD = ["a b", "", "1a", "AND", "it\\'s", "a.b", "a[1]", "\u00e9", "a\\\\b", "true", "\x7f", "\U0001F600", "a__b", "x--y",
               "a\\'", "\\\\"] + KEYWORDS_21
STR_ALPHA = ["a", "b", "Z", "0", "9", " ", "-", "_", "%", ".", "*", "(", ")", "[", "]", ":", "\"", "\\'", "\\\\",
             "\u00e9", "\u6f22", "\U0001F600", "\t", "\n", "/", "=", "\x7f", "\u2028"]


def g_string_body(rng):
    r = rng.random()
    if r < 0.08:
        return ""
    if r < 0.16:
        return rng.choice(["\\'", "\\\\", "\\\\\\'", "\\'\\'", "\\\\\\\\", "a\\'b", "\\\\n", "it\\'s", "C:\\\\Windows\\\\x.exe",
                           "^\\\\d+$", "%.exe", "1.2.3.4/32", "x-y"])
    n = rng.choice([1, 1, 2, 3, 5, 8, 13])
    return "".join(rng.choice(STR_ALPHA) for _ in range(n))


def g_string(rng):
    return ["StringLiteral", "'" + g_string_body(rng) + "'"]


def g_int(rng, pos_only=False):
    r = rng.random()
    if r < 0.35:
        n = rng.choice([0, 1, 2, 7, 9, 10, 99, 100, 255, 65535])
    elif r < 0.5:
        n = rng.choice([2 ** 31 - 1, 2 ** 31, 2 ** 63 - 1, 2 ** 63, 2 ** 64, 10 ** 30, 10 ** 18 + 1, 2 ** 53, 2 ** 53 + 1,
                        10 ** 21 - 1, 10 ** 21, 10 ** 400 + 7])
    else:
        n = rng.randrange(0, 10 ** rng.choice([1, 2, 3, 6, 12]))
    sign = rng.choice(["", "", "", "+", "-"]) if not pos_only else rng.choice(["", "", "+"])
    return ["IntNegLiteral" if sign == "-" else "IntPosLiteral", sign + str(n)]


def g_float(rng, pos_only=False, plain=None):
    """[+-]? digits* . digits+ with at most 15 significant digits"""
    r = rng.random()
    if plain is None:
        plain = r > 0.06
    if not plain:
        body = rng.choice(["0.00001", "0.0000123", ".00009", "10000000000000000.0", "123450000000000000.0", "0.000012345",
                           "999999999999999000000.0", "00000.00001"])
    else:
        ip = rng.choice(["", "0", "1", "12", "007", "123456", "1000000000000000", "9999999999"]) if r < 0.7 else str(rng.randrange(0, 10 ** 6))
        nfp = rng.choice([1, 1, 2, 3, 6])
        fp = "".join(rng.choice("0123456789") for _ in range(nfp))
        if rng.random() < 0.3:
            fp = rng.choice(["0", "5", "50", "25", "000", "10", "125", "0001", "9990"])
        body = ip + "." + fp
        sig = (ip + fp).lstrip("0")
        if len(sig.rstrip("0")) > 15 or len(ip.lstrip("0")) > 16:
            body = "1.5"
        if float_sci(body):
            body = "2.25"
    sign = rng.choice(["", "", "", "+", "-"]) if not pos_only else rng.choice(["", "", "+"])
    return ["FloatNegLiteral" if sign == "-" else "FloatPosLiteral", sign + body]


def g_hex(rng):
    if rng.random() < 0.04:
        return ["HexLiteral", "h''"]
    n = rng.choice([1, 1, 2, 4, 16])
    return ["HexLiteral", "h'" + "".join(rng.choice("0123456789abcdefABCDEF") for _ in range(2 * n)) + "'"]


B64 = "ABCDEFGHIJKLMNOPQRSTUVWXYZabcdefghijklmnopqrstuvwxyz0123456789+/"


def g_binary(rng):
    groups = rng.choice([0, 0, 1, 2, 5])
    body = "".join(rng.choice(B64) for _ in range(4 * groups))
    last = rng.choice([0, 1, 2])
    if last == 0:
        body += "".join(rng.choice(B64) for _ in range(4))
    elif last == 1:
        body += "".join(rng.choice(B64) for _ in range(3)) + "="
    else:
        body += "".join(rng.choice(B64) for _ in range(2)) + "=="
    return ["BinaryLiteral", "b'" + body + "'"]


def g_bool(rng):
    return ["BoolLiteral", rng.choice(["true", "false"])]


def g_timestamp(rng):
    r = rng.random()
    y = rng.choice([2016, 2020, 1999, 2000, 1970, 9999, 1000, 999, 1, 476, 2024, 1900, 2100]) if r < 0.8 else rng.randrange(1, 10000)
    mo = rng.randrange(1, 13)
    d = rng.randrange(1, calendar.monthrange(y, mo)[1] + 1)
    if rng.random() < 0.15:
        mo, d = 2, rng.choice([28, 29])
    if rng.random() < 0.03:
        y, mo, d = rng.choice([(0, 1, 1), (2021, 2, 30), (2020, 4, 31), (2019, 2, 29), (1900, 2, 29)])
    h, mi, s = rng.randrange(24), rng.randrange(60), rng.randrange(60)
    if rng.random() < 0.2:
        h, mi, s = rng.choice([(0, 0, 0), (23, 59, 59), (12, 0, 0)])
    if rng.random() < 0.02:
        s = 60
    r2 = rng.random()
    if r2 < 0.45:
        frac = ""
    elif r2 < 0.95:
        frac = "." + rng.choice(["0", "1", "10", "000", "123", "500", "123456", "000001", "999999", "120000", "05", "250", "5", "25"])
    else:
        frac = "." + rng.choice(["1234567", "0000000", "123456789", "1000000"])
    return ["TimestampLiteral", "t'%04d-%02d-%02dT%02d:%02d:%02d%sZ'" % (y, mo, d, h, mi, s, frac)]


ORDERABLE = [g_int, g_float, g_string, g_binary, g_hex, g_timestamp]


def g_orderable(rng):
    return rng.choice(ORDERABLE)(rng)


def g_primitive(rng):
    if rng.random() < 0.12:
        return g_bool(rng)
    return g_orderable(rng)


def g_key(rng, first=False):
    r = rng.random()
    if r < 0.72:
        return ["IdentifierWithoutHyphen", rng.choice(IDENTS)]
    if r < 0.88:
        return ["StringLiteral", "'" + rng.choice(QKEYS_HYPHEN) + "'"]
    if r < 0.95:
        return ["StringLiteral", "'" + rng.choice(QKEYS_IDENT) + "'"]
    return ["StringLiteral", "'" + rng.choice(QKEYS_WEIRD) + "'"]


def g_index(rng):
    r = rng.random()
    if r < 0.3:
        return ["ASTERISK", "*"]
    if r < 0.85:
        return ["IntPosLiteral", rng.choice(["0", "1", "2", "12", "+1", "+0", "100", "9", "10", "255", "256", str(2 ** 63)])]
    return ["IntNegLiteral", rng.choice(["-1", "-0", "-12", "-2", "-100", "-256"])]


def g_path(rng, typ=None):
    ty = typ or rng.choice(TYPES)
    tytok = ["IdentifierWithHyphen" if "-" in ty else "IdentifierWithoutHyphen", ty]
    first = g_key(rng, True)
    steps = []
    n = rng.choice([0, 0, 0, 1, 1, 2, 3, 5])
    for _ in range(n):
        if rng.random() < 0.3 and (not steps or steps[-1][0] != "idx" or rng.random() < 0.05):
            steps.append(["idx", g_index(rng)])
        else:
            steps.append(["key", g_key(rng)])
    return ["path", tytok, first, steps]


EQ_OPS = [["EQ", "="], ["EQ", "=="], ["NEQ", "!="], ["NEQ", "<>"]]
ORD_OPS = [["GT", ">"], ["LT", "<"], ["GE", ">="], ["LE", "<="]]
STR_OPS = ["LIKE", "MATCHES", "ISSUBSET", "ISSUPERSET"]


class Gen:
    def __init__(self, rng, depth=3, p_not=0.3, p_exists=0.01, cfg=None, max_size=70):
        """cfg: the variant flags the code matches; constructs of a defective
        variant are generated at a low rate in the random stream (they end the
        visit at once; the systematic family covers them)"""
        self.rng = rng
        self.depth = depth
        self.p_not = p_not
        self.p_exists = p_exists
        self.cfg = cfg or {}
        self.max_size = max_size

    def nt(self, flag):
        p = self.p_not if self.cfg.get(flag, True) else 0.02
        return self.rng.random() < p

    def proptest(self, typ, d):
        rng = self.rng
        r = rng.random()
        if d > 0 and r < 0.14:
            return ["paren", self.cmpor(typ, d - 1)]
        if r < 0.14 + self.p_exists:
            return ["exists", rng.random() < 0.3, g_path(rng, typ)]
        k = rng.choice(["eq", "eq", "eq", "ord", "ord", "set", "str", "str"])
        pa = g_path(rng, typ)
        if k == "eq":
            op = rng.choice(EQ_OPS)
            return ["eq", pa, self.nt("neg_eq" if op[0] == "NEQ" else None), op, g_primitive(rng)]
        if k == "ord":
            return ["ord", pa, self.nt("neg_order"), rng.choice(ORD_OPS), g_orderable(rng)]
        if k == "set":
            n = rng.choice([0, 1, 1, 2, 3, 4])
            return ["set", pa, self.nt("neg_set"), [g_primitive(rng) for _ in range(n)]]
        o = rng.choice(STR_OPS)
        return ["str", o, pa, self.nt({"LIKE": "neg_like", "MATCHES": "neg_regex", "ISSUBSET": "neg_subset",
                                       "ISSUPERSET": "neg_superset"}[o]), g_string(rng)]

    def cmpand(self, typ, d):
        n = self.rng.choice([1, 1, 1, 2, 2, 3, 4])
        return [self.proptest(typ, d) for _ in range(n)]

    def cmpor(self, typ, d):
        n = self.rng.choice([1, 1, 1, 2, 2, 3])
        out = []
        for _ in range(n):
            # an OR may mix object types; an AND may not (mostly)
            t = typ if self.rng.random() < 0.8 else self.rng.choice(TYPES)
            out.append(self.cmpand(t, d))
        return out

    def qual(self):
        rng = self.rng
        k = rng.choice(["ss", "within", "within", "repeat", "repeat"])
        if k == "ss":
            return ["ss", g_timestamp(rng), g_timestamp(rng)]
        if k == "within":
            pf = 0.3 if self.cfg.get("within_float", True) else 0.03
            return ["within", g_float(rng, True, plain=True) if rng.random() < pf else g_int(rng, True)]
        return ["repeat", g_int(rng, True)]

    def obs(self, d):
        rng = self.rng
        r = rng.random()
        if d > 0 and r < 0.18:
            return ["compound", self.fb(d - 1)]
        if d > 0 and r < 0.42:
            return ["qual", self.obs(d - 1 if rng.random() < 0.5 else d), self.qual()]
        typ = rng.choice(TYPES) if rng.random() < 0.7 else None
        return ["simple", self.cmpor(typ or rng.choice(TYPES), min(d, 2))]

    def chain(self, sub, d, weights):
        return [sub(d) for _ in range(self.rng.choice(weights))]

    def oand(self, d):
        return self.chain(self.obs, d, [1, 1, 1, 1, 2, 3])

    def oor(self, d):
        return self.chain(self.oand, d, [1, 1, 1, 1, 2, 3])

    def fb(self, d):
        return self.chain(self.oor, d, [1, 1, 1, 2, 3])

    def pattern(self):
        for _ in range(100):
            p = self.fb(self.depth)
            if size(p) <= self.max_size:
                return p
        return p


# ------------------------------------------------------------------ the systematic family

def lit_samples():
    return [["IntPosLiteral", "5"], ["IntPosLiteral", "+5"], ["IntNegLiteral", "-5"], ["IntPosLiteral", "0"],
            ["IntNegLiteral", "-0"], ["IntPosLiteral", str(2 ** 53 + 1)], ["IntPosLiteral", str(10 ** 21)],
            ["FloatPosLiteral", "1.5"], ["FloatNegLiteral", "-0.25"], ["FloatPosLiteral", ".5"],
            ["FloatPosLiteral", "0.0"], ["FloatNegLiteral", "-0.0"], ["FloatPosLiteral", "7.0"], ["FloatPosLiteral", "+.0"],
            ["StringLiteral", "'x'"], ["StringLiteral", "'it\\'s \\\\ here'"], ["StringLiteral", "''"],
            ["BinaryLiteral", "b'AAEC'"], ["BinaryLiteral", "b'QUI='"], ["HexLiteral", "h'00ff'"],
            ["TimestampLiteral", "t'2016-05-12T08:17:27.000Z'"], ["TimestampLiteral", "t'2020-02-29T23:59:59Z'"]]


def simple(pt):
    return [[[["simple", [[pt]]]]]]


def systematic():
    """one tree per grammar alternative x NOT x operator spelling x literal kind,
    alone / inside an AND-OR chain / inside parentheses; every path-step form;
    every qualifier; every observation alternative at every precedence."""
    out = []
    pa = ["path", ["IdentifierWithoutHyphen", "a"], ["IdentifierWithoutHyphen", "b"], []]
    pb = ["path", ["IdentifierWithoutHyphen", "a"], ["IdentifierWithoutHyphen", "c"], []]
    one = ["eq", pb, False, ["EQ", "="], ["IntPosLiteral", "1"]]
    pts = []
    for nt in (False, True):
        for op in EQ_OPS:
            for lit in lit_samples() + [["BoolLiteral", "true"], ["BoolLiteral", "false"]]:
                pts.append(["eq", pa, nt, op, lit])
        for op in ORD_OPS:
            for lit in lit_samples():
                pts.append(["ord", pa, nt, op, lit])
        for elems in ([], [["IntPosLiteral", "1"]], [["IntPosLiteral", "1"], ["IntPosLiteral", "2"]],
                      [["StringLiteral", "'a'"], ["BoolLiteral", "true"], ["FloatPosLiteral", "2.5"], ["HexLiteral", "h'ab'"]],
                      lit_samples()):
            pts.append(["set", pa, nt, elems])
        for o in STR_OPS:
            for s in (["StringLiteral", "'x%'"], ["StringLiteral", "'^a\\\\.b\\'$'"]):
                pts.append(["str", o, pa, nt, s])
        pts.append(["exists", nt, pa])
    for pt in pts:
        out.append(simple(pt))
    for pt in pts[::3]:
        out.append([[[["simple", [[one, pt, one]]]]]])                       # middle of an AND chain
        out.append([[[["simple", [[one], [pt, one]]]]]])                      # right operand of OR
        out.append(simple(["paren", [[pt], [one]]]))                          # inside parentheses
    # path forms
    key_forms = [["IdentifierWithoutHyphen", "c"], ["StringLiteral", "'SHA-256'"], ["StringLiteral", "'MD5'"],
                 ["StringLiteral", "'a b'"], ["StringLiteral", "'it\\'s'"], ["StringLiteral", "'it\\'s-x'"], ["StringLiteral", "''"],
                 ["IdentifierWithoutHyphen", "src_ref"], ["StringLiteral", "'true'"], ["StringLiteral", "'AND'"],
                 ["StringLiteral", "'and'"], ["StringLiteral", "'False'"]]
    idx_forms = [["IntPosLiteral", "0"], ["IntPosLiteral", "+1"], ["IntNegLiteral", "-1"], ["ASTERISK", "*"]]
    firsts = [["IdentifierWithoutHyphen", "b"], ["StringLiteral", "'b-c'"], ["StringLiteral", "'b'"], ["StringLiteral", "'b c'"]]
    types = [["IdentifierWithoutHyphen", "file"], ["IdentifierWithHyphen", "x-y-z"], ["IdentifierWithHyphen", "a-"]]
    paths = []
    for ty in types:
        for f in firsts:
            paths.append(["path", ty, f, []])
            for i in idx_forms:
                paths.append(["path", ty, f, [["idx", i]]])
            for kf in key_forms:
                paths.append(["path", ty, f, [["key", kf]]])
    ty, f = types[0], firsts[0]
    for kf in key_forms:
        for i in idx_forms:
            paths.append(["path", ty, f, [["key", kf], ["idx", i]]])
            paths.append(["path", ty, f, [["key", kf], ["idx", i], ["key", key_forms[0]]]])
            paths.append(["path", ty, f, [["idx", i], ["key", kf]]])
        for kf2 in key_forms[:3]:
            paths.append(["path", ty, f, [["key", kf], ["key", kf2]]])
    paths.append(["path", ty, f, [["idx", idx_forms[0]], ["idx", idx_forms[1]]]])
    paths.append(["path", ty, f, [["key", key_forms[0]], ["idx", idx_forms[0]], ["idx", idx_forms[3]]]])
    paths.append(["path", ty, f, [["key", key_forms[0]]] * 6])
    for p in paths:
        out.append(simple(["eq", p, False, ["EQ", "="], ["IntPosLiteral", "1"]]))
    # boolean structure of comparison expressions
    a = ["eq", pa, False, ["EQ", "="], ["IntPosLiteral", "1"]]
    b = ["ord", pa, False, ["GT", ">"], ["IntPosLiteral", "2"]]
    c = ["str", "LIKE", pa, False, ["StringLiteral", "'c'"]]
    other = ["eq", ["path", ["IdentifierWithoutHyphen", "z"], ["IdentifierWithoutHyphen", "b"], []], False, ["EQ", "="], ["IntPosLiteral", "1"]]
    cmps = [[[a, b]], [[a], [b]], [[a, b, c]], [[a], [b], [c]], [[a, b], [c]], [[a], [b, c]], [[a, b], [b, c]],
            [[["paren", [[a], [b]]], c]], [[a, ["paren", [[b], [c]]]]], [[["paren", [[a, b]]]], [c]],
            [[["paren", [[["paren", [[a]]]]]]]], [[["paren", [[a], [b]]], ["paren", [[b], [c]]]]],
            [[a], [other]], [[a, other]], [[a, b, other]], [[["paren", [[a], [other]]], a]], [[["paren", [[a], [other]]], other, c]],
            [[a, b, c, a, b, c]], [[a], [b], [c], [a], [b]]]
    for e in cmps:
        out.append([[[["simple", e]]]])
    # parenthesised groups whose content itself begins / ends with a parenthesised group or a set literal
    inset = ["set", pa, False, [["IntPosLiteral", "1"], ["IntPosLiteral", "2"]]]
    P1, P2, P3 = ["paren", [[a, b]]], ["paren", [[b, c]]], ["paren", [[a], [c]]]
    inner = [[[P1], [P2]], [[P1, P2]], [[P3, P2]], [[P1], [inset]], [[P1, inset]], [[P1]], [[P1], [b], [P2]], [[P3, b, P1]]]
    for e in inner:
        g = ["paren", e]
        for ctx in ([[g]], [[a, g]], [[g, a]], [[a], [g]], [[g], [a]], [[a, g, b]], [[["paren", [[g]]]]], [[["paren", [[a, g]]]]]):
            out.append([[[["simple", ctx]]]])
    # observation structure
    A, B, C = ["simple", [[a]]], ["simple", [[b]]], ["simple", [[c]]]
    quals = [["within", ["IntPosLiteral", "5"]], ["within", ["IntPosLiteral", "+5"]], ["within", ["FloatPosLiteral", "5.5"]],
             ["within", ["FloatPosLiteral", ".5"]], ["repeat", ["IntPosLiteral", "3"]], ["repeat", ["IntPosLiteral", "0"]],
             ["ss", ["TimestampLiteral", "t'2016-01-01T00:00:00Z'"], ["TimestampLiteral", "t'2016-01-02T00:00:00.5Z'"]],
             ["ss", ["TimestampLiteral", "t'0999-01-01T00:00:00Z'"], ["TimestampLiteral", "t'9999-12-31T23:59:59.999999Z'"]]]
    for qv in quals:
        out.append([[[["qual", A, qv]]]])
        out.append([[[["qual", ["compound", [[[A], [B]]]], qv]]]])
        out.append([[[["qual", ["qual", A, qv], quals[4]]]]])
        out.append([[[A, ["qual", B, qv]]]])
    obs = [
        [[[A, B]]], [[[A], [B]]], [[[A]], [[B]]], [[[A, B, C]]], [[[A], [B], [C]]], [[[A]], [[B]], [[C]]],
        [[[A, B], [C]]], [[[A], [B, C]]], [[[A]], [[B], [C]]], [[[A], [B]], [[C]]], [[[A, B]], [[C]]], [[[A]], [[B, C]]],
        [[[["compound", [[[A], [B]]]], C]]], [[[A, ["compound", [[[B]], [[C]]]]]]], [[[["compound", [[[A]], [[B]]]]], [C]]],
        [[[["compound", [[[A]]]]]]], [[[["compound", [[[["compound", [[[A, B]]]]]]]]]]],
        [[[["compound", [[[A, B]]]], ["compound", [[[B], [C]]]]]]],
        [[[["qual", ["compound", [[[A]], [[B]]]], quals[0]]], [["qual", C, quals[4]]]]],
        [[[A]], [[["compound", [[[B]], [[C]]]]]]], [[[["compound", [[[A]], [[B]]]]]], [[C]]],
    ]
    out += obs
    C1, C2 = ["compound", [[[A], [B]]]], ["compound", [[[B, C]]]]
    inner_obs = [[[[C1], [C2]]], [[[C1]], [[C2]]], [[[C1, C2]]], [[[C1]]], [[[C1], [B], [C2]]], [[[C1]], [[B]], [[C2]]]]
    for e in inner_obs:
        g = ["compound", e]
        out += [[[[g]]], [[[A, g]]], [[[g, A]]], [[[A], [g]]], [[[g]], [[A]]], [[[A]], [[g]]],
                [[[["qual", g, quals[0]]]]], [[[["qual", g, quals[4]], A]]], [[[["compound", [[[g]]]]]]],
                [[[["qual", ["compound", [[[A, g]]]], quals[6]]]]]]
    # every keyword of either grammar version as a quoted key step, as an index name, and in the other case as identifier
    for kw in KEYWORDS_21:
        qk = ["key", ["StringLiteral", "'%s'" % kw]]
        out.append(simple(["eq", ["path", types[0], ["StringLiteral", "'%s'" % kw], [qk, ["idx", idx_forms[3]], qk]], False,
                           ["EQ", "="], ["StringLiteral", "'%s'" % kw]]))
        lk = ["IdentifierWithoutHyphen", kw.swapcase()]
        out.append(simple(["eq", ["path", lk, lk, [["key", lk], ["idx", idx_forms[0]]]], False, ["EQ", "="], ["IntPosLiteral", "1"]]))
    # timestamps: 0 / 1 / 2 / 3 / 6 fraction digits, trailing zeros, whole seconds, year below 1000
    for fr in ("", ".5", ".25", ".250", ".123", ".000", ".123456", ".100000", ".000001"):
        for y in ("2016", "0999", "0001"):
            out.append(simple(["eq", pa, False, ["EQ", "="], ["TimestampLiteral", "t'%s-02-03T04:05:06%sZ'" % (y, fr)]]))
    out += sizes_family()
    return out


def sizes_family(max_chain=101, max_depth=11, max_steps=101):
    """the same constructs at sizes / depths on both sides of plausible bounds (SIZES): set elements, path steps,
    AND / OR chains of comparisons, AND / OR / FOLLOWEDBY chains of observations, nesting depth of parentheses at
    both levels, and lengths of strings, names, numbers, hex and binary bodies.  Path steps, chains and depths are
    capped: the generated parser and the visitor recurse once per step / level, and Python's recursion limit is met
    near 250 path steps and near 64 levels of parentheses (RecursionError; an environment limit, not examined).
    Up to 11 operands every chain kind is generated, above that the kinds take turns."""
    out = []
    ident = lambda t: ["IdentifierWithoutHyphen", t]      # noqa: E731
    pa = ["path", ident("a"), ident("b"), []]
    one = lambda i: ["eq", pa, False, ["EQ", "="], ["IntPosLiteral", str(i)]]     # noqa: E731
    for n in SIZES:
        out.append(simple(["set", pa, False, [["IntPosLiteral", str(i)] for i in range(n)]]))
        steps = []
        for i in range(n):
            steps.append(["idx", ["IntPosLiteral", str(i)]] if i % 3 == 2 else
                         ["key", ["StringLiteral", "'k-%d'" % i] if i % 3 == 1 else ident("k%d" % i)])
        if n <= max_steps:
            out.append(simple(["eq", ["path", ident("a"), ident("b"), steps], False, ["EQ", "="], ["IntPosLiteral", "1"]]))
        if 1 <= n <= max_chain:
            obs = [["simple", [[one(i)]]] for i in range(n)]
            kinds = [[[[["simple", [[one(i) for i in range(n)]]]]]],                         # AND chain
                     [[[["simple", [[one(i)] for i in range(n)]]]]],                         # OR chain
                     [[obs]],                                                                # observation AND
                     [[[o] for o in obs]],                                                   # observation OR
                     [[[o]] for o in obs]]                                                   # FOLLOWEDBY
            out += kinds if n <= 11 else [kinds[SIZES.index(n) % len(kinds)]]
        if 1 <= n <= max_depth:
            e = one(0)
            for _ in range(n):
                e = ["paren", [[e, one(1)]]]
            out.append(simple(e))
            o = ["simple", [[one(0)]]]
            for _ in range(n):
                o = ["compound", [[[o], [["simple", [[one(1)]]]]]]]
            out.append([[[o]]])
        if n in (0, 1, 255, 256):
            out.append(simple(["eq", pa, False, ["EQ", "="], ["StringLiteral", "'" + "x" * n + "'"]]))
            out.append(simple(["eq", pa, False, ["EQ", "="], ["StringLiteral", "'" + "\\'" * n + "'"]]))
            out.append(simple(["str", "LIKE", pa, False, ["StringLiteral", "'" + "\u00e9" * n + "'"]]))
            out.append(simple(["eq", pa, False, ["EQ", "="], ["HexLiteral", "h'" + "aB" * n + "'"]]))
            out.append(simple(["eq", pa, False, ["EQ", "="], ["BinaryLiteral", "b'" + "QUJD" * n + "QUI='"]]))
            if n:
                out.append(simple(["eq", pa, False, ["EQ", "="], ["IntPosLiteral", "9" * n]]))
                out.append(simple(["eq", pa, False, ["EQ", "="], ["FloatPosLiteral", "0." + "0" * (n - 1) + "5"]]))
                out.append(simple(["eq", pa, False, ["EQ", "="], ["FloatPosLiteral", "5" + "0" * (n - 1) + ".0"]]))
                out.append(simple(["eq", ["path", ident("t" * n), ident("n" * n), [["key", ["StringLiteral", "'" + "k-" * n + "'"]]]],
                                   False, ["EQ", "="], ["IntPosLiteral", "1"]]))
    return out


def only20_family():
    """a keyword of the 2.1 grammar that the 2.0 grammar does not have is an ordinary identifier in 2.0 patterns:
    as object type, first component, key step and inside longer names (trees for version "2.0" only)"""
    out = []
    ident = lambda t: ["IdentifierWithoutHyphen", t]      # noqa: E731
    for k in ONLY_21:
        for pa in (["path", ident(k), ident("b"), []], ["path", ident("a"), ident(k), []],
                   ["path", ident("a"), ident("b"), [["key", ident(k)]]],
                   ["path", ident("a"), ident("b"), [["key", ident(k)], ["idx", ["ASTERISK", "*"]], ["key", ident(k)]]],
                   ["path", ["IdentifierWithHyphen", k + "-x"], ident(k + "_"), [["key", ["StringLiteral", "'%s'" % k]]]]):
            out.append(simple(["eq", pa, False, ["EQ", "="], ["IntPosLiteral", "1"]]))
            out.append(simple(["eq", pa, True, ["NEQ", "!="], ["StringLiteral", "'%s'" % k]]))
    return out


# ------------------------------------------------------------------ programmatic objects

def esc_u(s):
    return '(u "%s")' % esc(s)


def digits(s):
    return "[" + ";".join(str(ord(c)) for c in s) + "]"


def float_digits(v):
    """a Python float as sign, integer digits, fraction digits (positional)"""
    from decimal import Decimal
    t = format(Decimal(repr(v)), "f")
    neg = t.startswith("-")
    ip, _, fp = t.lstrip("-").partition(".")
    return neg, ip.lstrip("0"), fp.rstrip("0")


def c_pyval(v):
    if isinstance(v, bool):
        return "(PyBool %s)" % c_bool(v)
    if isinstance(v, int):
        return "(PyInt (%d)%%Z)" % v
    if isinstance(v, float):
        neg, ip, fp = float_digits(v)
        return "(PyFloat (FVal %s %s %s))" % (c_bool(neg), digits(ip), digits(fp))
    if isinstance(v, str):
        return "(PyStr %s)" % esc_u(v)
    return "(PyList %s)" % c_list([c_pyval(x) for x in v])


def a_const(s):
    """object-model spec -> Gallina aconst"""
    k = s["k"]
    if k == "raw":        # a plain Python value: the classes call make_constant
        return "(make_constant %s)" % c_pyval(s["v"])
    if k == "str":
        return "(CString %s true)" % esc_u(s["v"])
    if k == "int":
        return "(CInt (%d)%%Z)" % s["v"]
    if k == "float":
        t = s["v"]
        neg = t.startswith("-")
        ip, _, fp = t.lstrip("+-").partition(".")
        return "(CFloat (FVal %s %s %s))" % (c_bool(neg), digits(ip.lstrip("0")), digits(fp.rstrip("0")))
    if k == "bool":
        return "(CBool %s)" % c_bool(s["v"])
    if k == "hex":
        return "(CHex %s)" % esc_u(s["v"])
    if k == "bin":
        return "(CBinary %s)" % esc_u(s["v"])
    if k == "ts":
        y, mo, d, h, mi, sec, us = s["v"]
        return "(CTimestamp (TsVal %d %d %d %d %d %d %s))" % (y, mo, d, h, mi, sec, digits("%06d" % us))
    if k == "list":
        return "(CList %s)" % c_list([a_const(x) for x in s["v"]])
    raise ValueError(k)


def a_comp(s):
    k = s["k"]
    if k == "text":       # a plain str handed to ObjectPath: _ObjectPathComponent.create_ObjectPathComponent decides
        return "(create_component_str %s)" % esc_u(s["n"])
    if k == "basic":
        return "(ABasic %s)" % esc_u(s["n"])
    if k == "ref":
        return "(ARef %s)" % esc_u(s["n"])
    i = s["i"]
    return "(AList %s %s)" % (esc_u(s["n"]), "(IdxInt (%d)%%Z)" % i if isinstance(i, int) else "(IdxStr %s)" % esc_u(i))


def a_path(s):
    return "(APath %s %s)" % (esc_u(s["type"]), c_list([a_comp(c) for c in s["comps"]]))


CLS = {"Equality": "KlEq", "GreaterThan": "KlGt", "LessThan": "KlLt", "GreaterThanEqual": "KlGe", "LessThanEqual": "KlLe",
       "In": "KlIn", "Like": "KlLike", "Matches": "KlMatches", "IsSubset": "KlSubset", "IsSuperset": "KlSuperset"}
OBSOP = {"AND": "OpAnd", "OR": "OpOr", "FOLLOWEDBY": "OpFb"}


def a_qual(s):
    k = s["k"]
    if "c" in s:          # the number as a constant specification (int / float / raw)
        return "(%s %s)" % ("AQRepeat" if k == "repeat" else "AQWithin", a_const(s["c"]))
    if k == "repeat":
        return "(AQRepeat (CInt (%d)%%Z))" % s["n"]
    if k == "within":
        return "(AQWithin (CInt (%d)%%Z))" % s["n"]
    return "(AQStartStop %s %s)" % (a_const(s["a"]), a_const(s["b"]))


def a_expr(s):
    k = s["k"]
    if k == "cmp":
        if "lhs_text" in s:   # the left-hand side given as text: ObjectPath.make_object_path
            lhs = "(match make_object_path %s with Ok p => p | Raise _ => APath [] [] end)" % esc_u(s["lhs_text"])
        else:
            lhs = a_path(s["lhs"])
        return "(ECmp %s %s %s %s)" % (CLS[s["cls"]], lhs, a_const(s["rhs"]), c_bool(s["neg"]))
    if k == "bool":
        return "(EBool %s %s)" % (c_bool(s["op"] == "AND"), c_list([a_expr(x) for x in s["ops"]]))
    if k == "obs":
        return "(EObs %s)" % a_expr(s["e"])
    if k == "cpd":
        return "(ECompound %s %s)" % (OBSOP[s["op"]], c_list([a_expr(x) for x in s["ops"]]))
    if k == "paren":
        return "(EParen %s)" % a_expr(s["e"])
    return "(EQualified %s %s)" % (a_expr(s["e"]), a_qual(s["q"]))


PROG_STRINGS = ["", "x", "it's", "back\\slash", "'", "\\", "\\'", "'\\", "a'b\\c'd", "''", "\\\\", "x-y", "%.exe", "\u00e9\u6f22", "a b",
                "C:\\Windows\\x.exe", "^\\d+'$", "\n", "\"q\""]


# bodies of quoted keys in string-encoded object paths ("type:a.'<body>'.b" handed to the comparison classes /
# ObjectPath.make_object_path, or one step handed to ObjectPath), written as in a pattern: quote and backslash escaped
QTEXT_BODIES = ["it\\'s", "back\\\\slash", "a b", "a-b", "SHA-256", "\\'", "\\\\", "x\\'y\\'z", "a\\\\\\'b", "\\'\\'",
                "\u00e9-\u6f22", "AND", "true", "", "x_ref", "\\\\\\\\", "a\\\\", "\\'a", "a]"]
# ... and with a character that separates steps / type / index outside quotes
QTEXT_SEP = ["a.b", "x.y.z", "1.2.3.4", ".", "a:b", ":", "a[1]", "[", "it\\'s.x", "a\\\\.b"]
SEP_FINDING = "C10-text-path-separator-in-quoted-key"


def pattern_unescape(body):
    out, i = [], 0
    while i < len(body):
        if body[i] == "\\" and i + 1 < len(body):
            out.append(body[i + 1])
            i += 2
        else:
            out.append(body[i])
            i += 1
    return "".join(out)


def quoted_text_comp(body, idx=None):
    n = "'%s'" % body + ("" if idx is None else "[%s]" % idx)
    return {"k": "text", "n": n, "name": pattern_unescape(body), "idx": idx, "qbody": body}


def text_has_sep(c, whole_text=True):
    """a quoted text step with a separator inside its quotes: '[' always, '.' and ':' when the whole path is one text"""
    return c.get("k") == "text" and "qbody" in c and any(ch in c["qbody"] for ch in (".:[" if whole_text else "["))


def cmp_has_sep(s):
    return s["k"] == "cmp" and any(text_has_sep(c, "lhs_text" in s) for c in s["lhs"]["comps"])


class ProgGen:
    """objects assembled from the public classes; `wg` (well grouped) = a
    parenthetical node wherever precedence requires one"""

    def __init__(self, rng, depth=3):
        self.rng = rng
        self.depth = depth

    RAW_POOL = [0, 1, 3, 7, 10, -1, 0.0, 1.0, 3.0, 7.0, 10.0, -1.0, 2.5, True, False, "3", "3.0", "true", "x", "",
                2 ** 53, float(2 ** 53), "2020-02-29T23:59:59Z", "2020-02-29T23:59:59.5Z", "it's"]

    def const(self, kinds=None):
        rng = self.rng
        if rng.random() < 0.15:
            # a plain Python value (small pool: equal-looking values of different types meet in one process)
            pool = [v for v in self.RAW_POOL if kinds is None
                    or ("str" in kinds and isinstance(v, str) and not v.startswith("2020"))
                    or ("int" in kinds and isinstance(v, (int, float)) and not isinstance(v, bool))]
            if pool:
                return {"k": "raw", "v": rng.choice(pool)}
        k = rng.choice(kinds or ["str", "str", "str", "int", "float", "bool", "hex", "bin", "ts"])
        if k == "str":
            if rng.random() < 0.6:
                return {"k": "str", "v": rng.choice(PROG_STRINGS)}
            n = rng.choice([1, 2, 4, 9])
            return {"k": "str", "v": "".join(rng.choice(["'", "\\", "a", " ", "-", "\u00e9", "%", "\\'", "\\\\", "0"]) for _ in range(n))}
        if k == "int":
            return {"k": "int", "v": rng.choice([0, 1, -1, 5, -12, 2 ** 63, -(10 ** 20), rng.randrange(-1000, 1000)])}
        if k == "float":
            t = g_float(rng, plain=True)[1]
            return {"k": "float", "v": t}
        if k == "bool":
            return {"k": "bool", "v": rng.random() < 0.5}
        if k == "hex":
            return {"k": "hex", "v": g_hex(rng)[1][2:-1] or "00"}
        if k == "bin":
            return {"k": "bin", "v": g_binary(rng)[1][2:-1]}
        y = rng.choice([2016, 2020, 1999, 1000, 999, 1, 9999, 2024])
        mo = rng.randrange(1, 13)
        d = rng.randrange(1, calendar.monthrange(y, mo)[1] + 1)
        us = rng.choice([0, 0, 1, 500000, 123456, 120000, 999999, 100])
        if rng.random() < 0.15:       # midnight: what a datetime.date stands for
            return {"k": "ts", "v": [y, mo, d, 0, 0, 0, 0]}
        return {"k": "ts", "v": [y, mo, d, rng.randrange(24), rng.randrange(60), rng.randrange(60), us]}

    NAMES = ["a", "b", "name", "hashes", "SHA-256", "x-y", "value", "src_ref", "_z", "A1", "windows-pebinary-ext",
             "a__b", "x--y", "x_y_z", "\u00e9", "a b"] + KEYWORDS_21 + [k.swapcase() for k in ONLY_21]

    def name(self):
        return self.rng.choice(self.NAMES)

    def text_comp(self):
        """a path step written as text; `name`/`idx` say what it is meant to be"""
        rng = self.rng
        r = rng.random()
        if rng.random() < 0.3:       # a quoted key written as it is written in a pattern, escapes included
            sep = rng.random() < 0.12
            return quoted_text_comp(rng.choice(QTEXT_SEP if sep else QTEXT_BODIES), rng.choice([None, None, None, 0, 12, "*"]))
        if r < 0.2:
            n = rng.choice(["src_ref", "dst_ref", "parent_ref", "x_ref"])
            return {"k": "text", "n": n, "name": n, "idx": None}
        name = rng.choice(["a", "b", "name", "sections", "values", "hashes", "SHA-256", "x-y", "_z", "A1", "arguments"])
        if r < 0.65:
            idx = rng.choice([0, 1, 5, 9, 10, 12, 100, 255, -1, -9, -12, "*", "*", 2 ** 40])
            return {"k": "text", "n": "%s[%s]" % (name, idx), "name": name, "idx": idx}
        return {"k": "text", "n": name, "name": name, "idx": None}

    def comp(self):
        rng = self.rng
        r = rng.random()
        if rng.random() < 0.25:
            return self.text_comp()
        if r < 0.65:
            return {"k": "basic", "n": self.name()}
        if r < 0.9:
            return {"k": "list", "n": self.name(), "i": rng.choice([0, 1, 12, -1, "*", "*", "3"])}
        return {"k": "ref", "n": rng.choice(["src_ref", "dst_ref", "parent_ref"])}

    def path(self, typ):
        n = self.rng.choice([1, 1, 2, 3])
        return {"type": typ, "comps": [self.comp() for _ in range(n)]}

    def cmp(self, typ):
        rng = self.rng
        cls = rng.choice(list(CLS))
        if cls == "In" or (cls == "Equality" and rng.random() < 0.15):
            rhs = {"k": "list", "v": [self.const() for _ in range(rng.choice([0, 1, 2, 3]))]}
        elif cls in ("Like", "Matches", "IsSubset", "IsSuperset"):
            rhs = self.const(["str"])
        elif cls == "Equality":
            rhs = self.const()
        else:
            rhs = self.const(["str", "int", "float", "hex", "bin", "ts"])
        out = {"k": "cmp", "cls": cls, "lhs": self.path(typ), "rhs": rhs, "neg": rng.random() < 0.35}
        if rng.random() < 0.2:    # the whole left-hand side as text
            comps = [self.text_comp() for _ in range(rng.choice([1, 2, 3]))]
            out["lhs"] = {"type": typ, "comps": comps}
            out["lhs_text"] = typ + ":" + ".".join(c["n"] for c in comps)
        return out

    # comparison level: returns (spec, level) with level 0 = proptest, 1 = AND chain, 2 = OR chain
    def cexpr(self, typ, d, wg):
        rng = self.rng
        r = rng.random()
        if d <= 0 or r < 0.4:
            return self.cmp(typ), 0
        if r < 0.5:
            e, _ = self.cexpr(typ, d - 1, wg)
            return {"k": "paren", "e": e}, 0
        isand = rng.random() < 0.5
        n = rng.choice([2, 2, 3, 4])
        ops = []
        for i in range(n):
            e, lvl = self.cexpr(typ, d - 1, wg)
            # AND operands must be proptests (first: AND chain ok); OR operands AND chains (first: OR ok)
            limit = (1 if i == 0 else 0) if isand else (2 if i == 0 else 1)
            if wg and lvl > limit:
                e = {"k": "paren", "e": e}
            ops.append(e)
        return {"k": "bool", "op": "AND" if isand else "OR", "ops": ops}, (1 if isand else 2)

    def qual(self):
        rng = self.rng
        k = rng.choice(["repeat", "within", "startstop"])
        if k == "startstop":
            return {"k": k, "a": self.const(["ts"]), "b": self.const(["ts"])}
        if k == "within" and rng.random() < 0.4:      # WITHIN takes a float too: constant, or plain value
            v = rng.choice(["0.5", "5.5", "1.0", "0.25", "300.0", "2.125", "0.001", "10.75"])
            return {"k": k, "c": {"k": "float", "v": v} if rng.random() < 0.5 else {"k": "raw", "v": float(v)}}
        n = rng.choice([0, 1, 5, 300, 2 ** 40, 9, 10, 255, 256, 2 ** 53 + 1, 10 ** 21])
        if rng.random() < 0.3:
            return {"k": k, "n": n, "raw": True}
        return {"k": k, "n": n}

    # observation level: 0 = single observation, 1 = AND, 2 = OR, 3 = FOLLOWEDBY
    def oexpr(self, d, wg):
        rng = self.rng
        r = rng.random()
        if d <= 0 or r < 0.35:
            e, _ = self.cexpr(rng.choice(["a", "file", "x-y"]), min(d, 2), wg)
            return {"k": "obs", "e": e}, 0
        if r < 0.45:
            e, _ = self.oexpr(d - 1, wg)
            return {"k": "paren", "e": e}, 0
        if r < 0.6:
            e, lvl = self.oexpr(d - 1, wg)
            if wg and lvl > 0:
                e = {"k": "paren", "e": e}
            used, x = set(), e
            while x["k"] == "qualified":     # a qualifier type at most once on one observation expression
                used.add(x["q"]["k"])
                x = x["e"]
            q = self.qual()
            for _ in range(20):
                if q["k"] not in used:
                    break
                q = self.qual()
            if q["k"] in used:
                return e, 0
            return {"k": "qualified", "e": e, "q": q}, 0
        op = rng.choice(["AND", "OR", "FOLLOWEDBY"])
        mine = {"AND": 1, "OR": 2, "FOLLOWEDBY": 3}[op]
        n = rng.choice([2, 2, 3])
        ops = []
        for i in range(n):
            e, lvl = self.oexpr(d - 1, wg)
            limit = mine if i == 0 else mine - 1
            if wg and lvl > limit:
                e = {"k": "paren", "e": e}
            ops.append(e)
        return {"k": "cpd", "op": op, "ops": ops}, mine

    def obj(self, wg=True):
        e, _ = self.oexpr(self.depth, wg)
        return e


def prog_systematic():
    out = []
    pa = {"type": "a", "comps": [{"k": "basic", "n": "b"}]}
    for s in PROG_STRINGS:
        out.append({"k": "obs", "e": {"k": "cmp", "cls": "Equality", "lhs": pa, "rhs": {"k": "str", "v": s}, "neg": False}})
    for cls in CLS:
        for neg in (False, True):
            rhs = {"k": "list", "v": [{"k": "int", "v": 1}, {"k": "str", "v": "a'b"}]} if cls == "In" else {"k": "str", "v": "x\\y"}
            out.append({"k": "obs", "e": {"k": "cmp", "cls": cls, "lhs": pa, "rhs": rhs, "neg": neg}})
    a = {"k": "cmp", "cls": "Equality", "lhs": pa, "rhs": {"k": "int", "v": 1}, "neg": False}
    b = {"k": "cmp", "cls": "LessThan", "lhs": pa, "rhs": {"k": "int", "v": 2}, "neg": True}
    c = {"k": "cmp", "cls": "Like", "lhs": pa, "rhs": {"k": "str", "v": "c"}, "neg": False}
    par = lambda e: {"k": "paren", "e": e}      # noqa: E731
    AND = lambda *x: {"k": "bool", "op": "AND", "ops": list(x)}   # noqa: E731
    OR = lambda *x: {"k": "bool", "op": "OR", "ops": list(x)}     # noqa: E731
    for e in [AND(a, b), OR(a, b), AND(a, b, c), OR(a, b, c), OR(AND(a, b), c), OR(a, AND(b, c)), AND(par(OR(a, b)), c),
              AND(a, par(OR(b, c))), AND(AND(a, b), c), OR(OR(a, b), c), par(par(a)), AND(par(AND(a, b)), c)]:
        out.append({"k": "obs", "e": e})
    A, B, C = ({"k": "obs", "e": x} for x in (a, b, c))
    cp = lambda op, *x: {"k": "cpd", "op": op, "ops": list(x)}   # noqa: E731
    Q = lambda e, q: {"k": "qualified", "e": e, "q": q}          # noqa: E731
    q1, q2 = {"k": "within", "n": 5}, {"k": "repeat", "n": 3}
    q3 = {"k": "startstop", "a": {"k": "ts", "v": [2016, 1, 1, 0, 0, 0, 0]}, "b": {"k": "ts", "v": [999, 12, 31, 23, 59, 59, 500000]}}
    for e in [cp("AND", A, B), cp("OR", A, B), cp("FOLLOWEDBY", A, B), cp("AND", A, B, C), cp("FOLLOWEDBY", A, B, C),
              cp("OR", cp("AND", A, B), C), cp("FOLLOWEDBY", cp("OR", A, B), cp("AND", B, C)), cp("AND", par(cp("OR", A, B)), C),
              cp("AND", A, par(cp("FOLLOWEDBY", B, C))), Q(A, q1), Q(Q(A, q1), q2), Q(par(cp("OR", A, B)), q3), cp("AND", Q(A, q2), B),
              cp("AND", cp("AND", A, B), C), cp("FOLLOWEDBY", cp("FOLLOWEDBY", A, B), C), par(par(A)), {"k": "obs", "e": A},
              {"k": "obs", "e": cp("AND", A, B)}]:
        out.append(e)
    # parenthetical nodes whose content begins / ends with a parenthetical node or a list constant
    inl = {"k": "cmp", "cls": "In", "lhs": pa, "rhs": {"k": "list", "v": [{"k": "int", "v": 1}, {"k": "int", "v": 2}]}, "neg": False}
    p1, p2 = par(AND(a, b)), par(AND(b, c))
    for g in [par(OR(p1, p2)), par(AND(p1, p2)), par(OR(p1, inl)), par(p1), par(OR(p1, b, p2))]:
        for e in [g, AND(a, g), AND(g, a), OR(a, g), AND(a, g, b), par(g), par(AND(a, g))]:
            out.append({"k": "obs", "e": e})
    c1, c2 = par(cp("OR", A, B)), par(cp("AND", B, C))
    for g in [par(cp("OR", c1, c2)), par(cp("FOLLOWEDBY", c1, c2)), par(cp("AND", c1, c2)), par(c1), par(cp("OR", c1, B, c2))]:
        for e in [g, cp("AND", A, g), cp("AND", g, A), cp("OR", A, g), cp("FOLLOWEDBY", g, A), Q(g, q1), cp("AND", Q(g, q2), A), par(g),
                  Q(par(cp("AND", A, g)), q3)]:
            out.append(e)
    # plain Python values as constructor arguments (make_constant), equal-looking values of different types in
    # one object and in both orders
    pc = {"type": "a", "comps": [{"k": "basic", "n": "c"}]}
    pd = {"type": "a", "comps": [{"k": "basic", "n": "d"}]}
    raw = lambda v: {"k": "raw", "v": v}      # noqa: E731
    eqr = lambda pth, v: {"k": "cmp", "cls": "Equality", "lhs": pth, "rhs": raw(v), "neg": False}   # noqa: E731
    pairs = [(3, 3.0), (0, 0.0), (7, 7.0), (-1, -1.0), (2 ** 53, float(2 ** 53)), (1, True), (0, False), (1.0, True),
             ("3", 3), ("3.0", 3.0), ("true", True), ("1", 1), (10, 10.0), (0.0, -0.0)]
    for x, y in pairs:
        for u, v in ((x, y), (y, x)):
            out.append({"k": "obs", "e": AND(eqr(pc, u), eqr(pd, v))})
            out.append({"k": "obs", "e": eqr(pc, [u, v])})
            out.append({"k": "obs", "e": {"k": "cmp", "cls": "In", "lhs": pc, "rhs": {"k": "list", "v": [raw(u), raw(v)]}, "neg": False}})
            out.append(cp("FOLLOWEDBY", {"k": "obs", "e": eqr(pc, u)}, {"k": "obs", "e": eqr(pc, v)}))
    for v in ("2020-02-29T23:59:59Z", "2020-02-29T23:59:59.5Z", "it's", "", [1, "a", True, 2.5], []):
        out.append({"k": "obs", "e": eqr(pc, v)})
    # path steps given as text (ObjectPath(type, ["name[12]", ...]) and "type:a.b[1]" as left-hand side)
    for idx in (0, 9, 10, 12, 255, -1, -12, "*"):
        comps = [{"k": "text", "n": "sections[%s]" % idx, "name": "sections", "idx": idx}, {"k": "text", "n": "name", "name": "name", "idx": None}]
        e = {"k": "cmp", "cls": "Equality", "lhs": {"type": "file", "comps": comps}, "rhs": {"k": "int", "v": 1}, "neg": False}
        out.append({"k": "obs", "e": e})
        out.append({"k": "obs", "e": dict(e, lhs_text="file:sections[%s].name" % idx)})
    # sizes on both sides of plausible bounds: list constants, operands, path components, chains
    for n in SIZES:
        ints = [{"k": "int", "v": i} for i in range(n)]
        out.append({"k": "obs", "e": {"k": "cmp", "cls": "In", "lhs": pa, "rhs": {"k": "list", "v": ints}, "neg": False}})
        out.append({"k": "obs", "e": eqr(pc, list(range(n)))})
        if 1 <= n <= 101:
            comps = [{"k": "list", "n": "k-%d" % i, "i": i} if i % 3 == 2 else {"k": "basic", "n": ("k-%d" if i % 3 else "k%d") % i}
                     for i in range(n)]
            out.append({"k": "obs", "e": {"k": "cmp", "cls": "Equality", "lhs": {"type": "a", "comps": comps}, "rhs": {"k": "int", "v": 1}, "neg": False}})
        if 2 <= n <= 101:
            cmps = [{"k": "cmp", "cls": "Equality", "lhs": pa, "rhs": {"k": "int", "v": i}, "neg": False} for i in range(n)]
            kinds = [{"k": "obs", "e": AND(*cmps)}, {"k": "obs", "e": OR(*cmps)}] + \
                    [cp(op, *[{"k": "obs", "e": x} for x in cmps]) for op in ("AND", "OR", "FOLLOWEDBY")]
            out += kinds if n <= 11 else [kinds[(SIZES.index(n) + 2) % len(kinds)]]
        if n in (0, 1, 255, 256):
            out.append({"k": "obs", "e": {"k": "cmp", "cls": "Equality", "lhs": pa, "rhs": {"k": "str", "v": "'\\" * n}, "neg": False}})
            out.append({"k": "obs", "e": eqr(pc, "x" * n)})
            if n:
                out.append({"k": "obs", "e": {"k": "cmp", "cls": "Equality", "lhs": {"type": "t" * n, "comps": [{"k": "basic", "n": "k-" * n}]},
                                              "rhs": {"k": "int", "v": int("9" * n)}, "neg": False}})
    # every keyword of either grammar version as a name: component (quoted by the printer), list component, text step
    for kw in KEYWORDS_21 + [k.swapcase() for k in ONLY_21]:
        comps = [{"k": "basic", "n": kw}, {"k": "list", "n": kw, "i": "*"}, {"k": "text", "n": kw, "name": kw, "idx": None},
                 {"k": "text", "n": "%s[1]" % kw, "name": kw, "idx": 1}]
        out.append({"k": "obs", "e": {"k": "cmp", "cls": "Equality", "lhs": {"type": "a", "comps": comps}, "rhs": {"k": "str", "v": kw}, "neg": False}})
    # numbers: zero and minus zero, integer-valued floats, beyond 2^53 and 10^21, floats sharing their integer part;
    # WITHIN with fractional seconds (constant and plain value), REPEATS / WITHIN from plain ints
    for v in (0, -0.0, 0.0, 7.0, 2 ** 53 + 1, 10 ** 21, -(10 ** 21), 10 ** 400, 1.5, 1.25, 1e21, 1e-7, 123456789012345.0):
        out.append({"k": "obs", "e": eqr(pc, v)})
        out.append({"k": "obs", "e": {"k": "cmp", "cls": "GreaterThan", "lhs": pc, "rhs": raw(v), "neg": False}})
    out.append({"k": "obs", "e": eqr(pc, [1.5, 1.25, 1, 1.0, True])})
    for qs in ({"k": "within", "c": {"k": "float", "v": "5.5"}}, {"k": "within", "c": {"k": "raw", "v": 5.5}},
               {"k": "within", "c": {"k": "raw", "v": 0.25}}, {"k": "within", "c": {"k": "float", "v": "1.0"}},
               {"k": "within", "c": {"k": "raw", "v": 7.0}}, {"k": "within", "n": 5, "raw": True}, {"k": "repeat", "n": 3, "raw": True},
               {"k": "within", "c": {"k": "raw", "v": 1e-05}}, {"k": "within", "c": {"k": "raw", "v": 1e16}},
               {"k": "repeat", "c": {"k": "int", "v": 10 ** 21}}):
        out.append(Q(A, qs))
        out.append(Q(par(cp("OR", A, B)), qs))
    # quoted keys inside string-encoded paths, escapes included; with separator characters inside the quotes
    tx = lambda n: {"k": "text", "n": n, "name": n, "idx": None}      # noqa: E731
    for body in QTEXT_BODIES + QTEXT_SEP:
        for idx in (None, 1, "*"):
            comps = [tx("settings"), quoted_text_comp(body, idx), tx("size")]
            e = {"k": "cmp", "cls": "Equality", "lhs": {"type": "x-foo", "comps": comps}, "rhs": {"k": "int", "v": 1}, "neg": False}
            out.append({"k": "obs", "e": e})
            out.append({"k": "obs", "e": dict(e, lhs_text="x-foo:" + ".".join(c["n"] for c in comps))})
        first = [quoted_text_comp(body), quoted_text_comp(body)]
        e = {"k": "cmp", "cls": "Like", "lhs": {"type": "a", "comps": first}, "rhs": {"k": "str", "v": pattern_unescape(body)}, "neg": True}
        out.append({"k": "obs", "e": dict(e, lhs_text="a:" + ".".join(c["n"] for c in first))})
    for n in ("src_ref", "SHA-256", "hashes"):
        comps = [{"k": "text", "n": "a", "name": "a", "idx": None}, {"k": "text", "n": n, "name": n, "idx": None}]
        e = {"k": "cmp", "cls": "Equality", "lhs": {"type": "x", "comps": comps}, "rhs": {"k": "int", "v": 1}, "neg": False}
        out.append({"k": "obs", "e": e})
        out.append({"k": "obs", "e": dict(e, lhs_text="x:a." + n)})
    return out


# ------------------------------------------------------------------ known defect classes in programmatic objects
# (printing is right; the re-parse of the printed text goes through the visitor)

PROG_NOT = {"GreaterThan": "C10-not-order-typeerror", "LessThan": "C10-not-order-typeerror",
            "GreaterThanEqual": "C10-not-order-typeerror", "LessThanEqual": "C10-not-order-typeerror",
            "In": "C10-not-dropped-in", "Like": "C10-not-dropped-like", "Matches": "C10-not-dropped-matches",
            "IsSubset": "C10-not-dropped-issubset", "IsSuperset": "C10-not-dropped-issuperset"}


def prog_walk(s, f):
    """rebuild a spec bottom-up through f"""
    k = s["k"]
    if k == "cmp":
        return f(dict(s))
    if k in ("bool", "cpd"):
        return f(dict(s, ops=[prog_walk(x, f) for x in s["ops"]]))
    if k in ("obs", "paren"):
        return f(dict(s, e=prog_walk(s["e"], f)))
    if k == "qualified":
        return f(dict(s, e=prog_walk(s["e"], f)))
    return f(dict(s))


def prog_feature_of(s):
    if s["k"] == "cmp" and s["neg"]:
        if s["cls"] == "Equality" and (s["rhs"]["k"] == "list" or (s["rhs"]["k"] == "raw" and isinstance(s["rhs"]["v"], list))):
            return "C10-not-dropped-in"
        return PROG_NOT.get(s["cls"])
    return None


def comp_struct(c):
    """(kind, name, index) a component specification is meant to be"""
    if c["k"] == "text":
        if c["idx"] is None:
            return ("ref" if c["name"].endswith("_ref") else "basic", c["name"], None)
        return ("list", c["name"], c["idx"])
    if c["k"] == "list":
        return ("list", c["n"], c["i"])
    return (c["k"], c["n"], None)


def prog_star(s):
    """a later list component with a hyphenated name and index *: prints as 'x-y'[*]"""
    return s["k"] == "cmp" and any(comp_struct(c)[0] == "list" and "-" in comp_struct(c)[1] and comp_struct(c)[2] == "*"
                                   for c in s["lhs"]["comps"][1:])


def prog_features(spec):
    fs = set()

    def f(s):
        x = prog_feature_of(s)
        if x:
            fs.add(x)
        if prog_star(s):
            fs.add("C10-quoted-key-star-attributeerror")
        if cmp_has_sep(s):
            fs.add(SEP_FINDING)
        return s
    prog_walk(spec, f)
    return fs


def prog_neutralise(spec, ids):
    def f(s):
        if prog_feature_of(s) in ids:
            s["neg"] = False
        if "C10-quoted-key-star-attributeerror" in ids and prog_star(s):
            lhs = s["lhs"]
            whole = "lhs_text" in s      # the path stays one text if it was one
            zero = lambda c: ({"k": "text", "n": c["n"][:c["n"].rindex("[")] + "[0]", "name": c["name"], "idx": 0,      # noqa: E731
                               **({"qbody": c["qbody"]} if "qbody" in c else {})} if c["k"] == "text"
                              else {"k": "list", "n": comp_struct(c)[1], "i": 0})
            s["lhs"] = {"type": lhs["type"], "comps": lhs["comps"][:1] + [
                zero(c) if (comp_struct(c)[0] == "list" and "-" in comp_struct(c)[1] and comp_struct(c)[2] == "*") else c
                for c in lhs["comps"][1:]]}
            if whole:
                s["lhs_text"] = lhs["type"] + ":" + ".".join(c["n"] for c in s["lhs"]["comps"])
        if SEP_FINDING in ids and cmp_has_sep(s):
            tr = lambda b: b.replace(".", "-").replace(":", "-").replace("[", "-")      # noqa: E731
            comps = [quoted_text_comp(tr(c["qbody"]), c["idx"]) if text_has_sep(c) else c for c in s["lhs"]["comps"]]
            s["lhs"] = {"type": s["lhs"]["type"], "comps": comps}
            if "lhs_text" in s:
                s["lhs_text"] = s["lhs"]["type"] + ":" + ".".join(c["n"] for c in comps)
        return s
    return prog_walk(spec, f)


# ------------------------------------------------------------------ what a specification means
# (the generator's own reading of the object it asked for; independent of the implementation and of the Coq model)

def q(s):
    return "".join(c if (32 <= ord(c) <= 126 and c not in '\\"()[];,') else "\\%06X" % ord(c) for c in s)


def pm_raw(v):
    if isinstance(v, bool):
        return "B(t)" if v else "B(f)"
    if isinstance(v, int):
        return "I(%d)" % v
    if isinstance(v, float):
        neg, ip, fp = float_digits(v)
        return "F(%s,%s,%s)" % ("-" if neg else "+", ip, fp)
    if isinstance(v, str):
        import re as _re
        m = _re.fullmatch(r"(\d{4})-(\d\d)-(\d\d)T(\d\d):(\d\d):(\d\d)(?:\.(\d{1,6}))?Z", v)
        if m:
            y, mo, d, h, mi, sec = (int(x) for x in m.groups()[:6])
            return "T(%d,%d,%d,%d,%d,%d,%s)" % (y, mo, d, h, mi, sec, (m.group(7) or "").rstrip("0"))
        return "S(%s)" % q(v)
    return "L[%s]" % ";".join(pm_raw(x) for x in v)


def pm_const(s):
    k = s["k"]
    if k == "raw":
        return pm_raw(s["v"])
    if k == "str":
        return "S(%s)" % q(s["v"])
    if k == "int":
        return "I(%d)" % s["v"]
    if k == "float":
        t = s["v"]
        neg = t.startswith("-")
        ip, _, fp = t.lstrip("+-").partition(".")
        return "F(%s,%s,%s)" % ("-" if neg else "+", ip.lstrip("0"), fp.rstrip("0"))
    if k == "bool":
        return "B(t)" if s["v"] else "B(f)"
    if k == "hex":
        return "H(%s)" % q(s["v"])
    if k == "bin":
        return "Y(%s)" % q(s["v"])
    if k == "ts":
        y, mo, d, h, mi, sec, us = s["v"]
        return "T(%d,%d,%d,%d,%d,%d,%s)" % (y, mo, d, h, mi, sec, ("%06d" % us).rstrip("0"))
    if k == "list":
        return "L[%s]" % ";".join(pm_const(x) for x in s["v"])
    raise ValueError(k)


def pm_path(p):
    steps = []
    for c in p["comps"]:
        kind, name, idx = comp_struct(c)
        steps.append("k(%s)" % q(name))
        if kind == "list":
            steps.append("*" if idx == "*" else "i(%d)" % int(idx))
    return "P(%s)[%s]" % (q(p["type"]), ";".join(steps))


PM_OP = {"Equality": "=", "GreaterThan": ">", "LessThan": "<", "GreaterThanEqual": ">=", "LessThanEqual": "<=", "In": "IN",
         "Like": "LIKE", "Matches": "MATCHES", "IsSubset": "ISSUBSET", "IsSuperset": "ISSUPERSET"}


def pm_tree(s):
    k = s["k"]
    if k == "cmp":
        op = PM_OP[s["cls"]]
        if s["cls"] == "Equality" and (s["rhs"]["k"] == "list" or (s["rhs"]["k"] == "raw" and isinstance(s["rhs"]["v"], list))):
            op = "IN"
        return ("leaf", "Cmp(%s,%s,%s,%s)" % (pm_path(s["lhs"]), op, "1" if s["neg"] else "0", pm_const(s["rhs"])))
    if k in ("bool", "cpd"):
        tag = ("Bool" if k == "bool" else "Cpd", s["op"])
        items = [pm_tree(x) for x in s["ops"]]
        if items and items[0][0] == "op" and items[0][1] == tag:      # an unparenthesised first operand continues the chain
            items = items[0][2] + items[1:]
        return ("op", tag, items)
    if k == "obs":
        if s["e"]["k"] in ("obs", "cpd"):
            return pm_tree(s["e"])
        return ("wrap", "Obs", pm_tree(s["e"]))
    if k == "paren":
        return ("wrap", "Par", pm_tree(s["e"]))
    qs = s["q"]
    if "c" in qs:
        qt = "%s(%s)" % ("Rep" if qs["k"] == "repeat" else "Win", pm_const(qs["c"]))
    elif qs["k"] == "repeat":
        qt = "Rep(I(%d))" % qs["n"]
    elif qs["k"] == "within":
        qt = "Win(I(%d))" % qs["n"]
    else:
        qt = "SS(%s;%s)" % (pm_const(qs["a"]), pm_const(qs["b"]))
    return ("qual", pm_tree(s["e"]), qt)


def pm_render(t):
    if t[0] == "leaf":
        return t[1]
    if t[0] == "op":
        return "%s(%s)[%s]" % (t[1][0], t[1][1], ";".join(pm_render(x) for x in t[2]))
    if t[0] == "wrap":
        return "%s[%s]" % (t[1], pm_render(t[2]))
    return "Qual[%s;%s]" % (pm_render(t[1]), t[2])


def prog_meaning(spec):
    return pm_render(pm_tree(spec))


# ------------------------------------------------------------------ shrinking a failing input

def shrink_candidates(fb):
    """trees one step smaller than fb: an operand dropped from a chain, a group replaced by its
    content or by one operand, a qualifier dropped, a path step or a set element dropped"""
    out = []

    def chain(items, sub, rebuild):
        for i in range(len(items)):
            if len(items) > 1:
                out.append(rebuild(items[:i] + items[i + 1:]))
            for alt in sub(items[i]):
                out.append(rebuild(items[:i] + [alt] + items[i + 1:]))

    def v_path(pa):
        alts = []
        for i in range(len(pa[3])):
            alts.append(["path", pa[1], pa[2], pa[3][:i] + pa[3][i + 1:]])
        return alts

    def v_pt(p):
        alts = []
        k = p[0]
        if k == "paren":
            for o in v_or(p[1]):
                alts.append(["paren", o])
            if len(p[1]) == 1 and len(p[1][0]) == 1:
                alts.append(p[1][0][0])
        elif k in ("eq", "ord"):
            alts += [[k, q, p[2], p[3], p[4]] for q in v_path(p[1])]
            if p[2]:
                alts.append([k, p[1], False, p[3], p[4]])
        elif k == "set":
            alts += [[k, q, p[2], p[3]] for q in v_path(p[1])]
            alts += [[k, p[1], p[2], p[3][:i] + p[3][i + 1:]] for i in range(len(p[3]))]
            if p[2]:
                alts.append([k, p[1], False, p[3]])
        elif k == "str":
            alts += [[k, p[1], q, p[3], p[4]] for q in v_path(p[2])]
            if p[3]:
                alts.append([k, p[1], p[2], False, p[4]])
        return alts

    def v_and(a):
        res = []
        for i in range(len(a)):
            if len(a) > 1:
                res.append(a[:i] + a[i + 1:])
            for alt in v_pt(a[i]):
                res.append(a[:i] + [alt] + a[i + 1:])
        return res

    def v_or(o):
        res = []
        for i in range(len(o)):
            if len(o) > 1:
                res.append(o[:i] + o[i + 1:])
            for alt in v_and(o[i]):
                res.append(o[:i] + [alt] + o[i + 1:])
        return res

    def v_obs(o):
        alts = []
        if o[0] == "simple":
            alts += [["simple", e] for e in v_or(o[1])]
        elif o[0] == "compound":
            alts += [["compound", e] for e in v_fb(o[1])]
            if len(o[1]) == 1 and len(o[1][0]) == 1 and len(o[1][0][0]) == 1:
                alts.append(o[1][0][0][0])
        else:
            alts.append(o[1])
            alts += [["qual", x, o[2]] for x in v_obs(o[1])]
        return alts

    def v_list(items, sub):
        res = []
        for i in range(len(items)):
            if len(items) > 1:
                res.append(items[:i] + items[i + 1:])
            for alt in sub(items[i]):
                res.append(items[:i] + [alt] + items[i + 1:])
        return res

    def v_oand(a):
        return v_list(a, v_obs)

    def v_oor(a):
        return v_list(a, v_oand)

    def v_fb(a):
        return v_list(a, v_oor)
    return v_fb(fb)


def shrink_candidates_prog(spec):
    out = []

    def alts(s):
        k = s["k"]
        res = []
        if k == "cmp":
            comps = s["lhs"]["comps"]
            if len(comps) > 1 and "lhs_text" not in s:
                for i in range(len(comps)):
                    res.append(dict(s, lhs={"type": s["lhs"]["type"], "comps": comps[:i] + comps[i + 1:]}))
            if s["neg"]:
                res.append(dict(s, neg=False))
        elif k in ("bool", "cpd"):
            ops = s["ops"]
            for i in range(len(ops)):
                if len(ops) > 2:
                    res.append(dict(s, ops=ops[:i] + ops[i + 1:]))
                res.append(ops[i])
                for a in alts(ops[i]):
                    res.append(dict(s, ops=ops[:i] + [a] + ops[i + 1:]))
        elif k in ("obs", "paren", "qualified"):
            if k != "obs":
                res.append(s["e"])
            for a in alts(s["e"]):
                res.append(dict(s, e=a))
        return res
    for a in alts(spec):
        if a["k"] in ("obs", "cpd", "paren", "qualified"):       # still an observation-level object
            out.append(a)
    return out

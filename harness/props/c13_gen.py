"""Case generator for C13: sequences of operations over caller-built data.

A case is {"ops": [op, ...]}; op k produces env[k].  Caller data is written
as trees (atoms, lists, dicts, Ref(i) = the object env[i] itself, so the same
container can be reused by several later operations -- that is what makes an
in-place edit visible).  `to_json` gives the worker's encoding, `op_to_coq`
the Gallina `opcall` (None when the operation is outside the modelled
skeletons: such cases are snapshot-tested only)."""
import uuid

import common

TLP = {
    "white": "marking-definition--613f2e26-407d-48c7-9eca-b8e91df99dc9",
    "green": "marking-definition--34098fce-860f-48ae-8e50-ebd3cc5e41da",
    "amber": "marking-definition--f88d31f6-486f-44da-b317-01333bde0b82",
    "red": "marking-definition--5e57c739-391a-4eb3-b6be-7d15ca92d5ed",
}
TS = ["2016-01-01T00:00:00.000Z", "2017-02-03T04:05:06.000Z", "2018-11-12T13:14:15.123Z", "2020-06-30T23:59:59.999Z"]
# timestamp texts with 0 / 1 / 3 / 6 / 7 fraction digits, whole seconds, a year below 1000
TS_SHAPES = ["2019-01-01T00:00:00Z", "2019-01-01T00:00:00.5Z", "2019-01-01T00:00:00.250Z", "2019-01-01T00:00:00.123456Z",
             "2019-01-01T00:00:00.1234567Z", "0999-12-31T23:59:59.000Z"]
LATER = ["2025-01-01T00:00:00.000Z", "2026-02-05T05:05:05.500Z"]


class Ref:
    def __init__(self, i):
        self.i = i


class DT:
    """a datetime value built by the caller (see c13_impl.build_dt); an immutable value for the model"""
    def __init__(self, ymdhmsu, tz=None, fold=0, stix=False, precision=None):
        self.d = {"ymdhmsu": list(ymdhmsu), "tz": tz, "fold": fold, "stix": stix, "precision": precision}

    def text(self):
        d = self.d
        return "dt:%s|%s|%d|%s|%s" % ("-".join(map(str, d["ymdhmsu"])), d["tz"], d["fold"], d["stix"], d["precision"])


# --------------------------------------------------------------------------
# encodings

def to_json(t):
    if isinstance(t, Ref):
        return {"$r": t.i}
    if isinstance(t, DT):
        return {"$dtz": t.d}
    if isinstance(t, float):
        return {"$f": repr(t)}
    if isinstance(t, dict):
        return {"$d": [[k, to_json(v)] for k, v in t.items()]}
    if isinstance(t, list):
        return [to_json(x) for x in t]
    return t


def from_json(j):
    """inverse of to_json (for replays)"""
    if isinstance(j, dict):
        if "$r" in j:
            return Ref(j["$r"])
        if "$d" in j:
            return {k: from_json(v) for k, v in j["$d"]}
        if "$dtz" in j:
            d = j["$dtz"]
            return DT(d["ymdhmsu"], d.get("tz"), d.get("fold", 0), d.get("stix", False), d.get("precision"))
        if "$f" in j:
            return float(j["$f"])
        raise ValueError("not modelled: %r" % (j,))
    if isinstance(j, list):
        return [from_json(x) for x in j]
    return j


def coq_atom(x):
    if x is None:
        return "ANone"
    if x is True or x is False:
        return "(ABool %s)" % common.coq_bool(x)
    if isinstance(x, int):
        return "(AInt %s)" % common.coq_Z(x)
    if isinstance(x, str):
        return "(AStr %s)" % common.coq_ustr(x)
    if isinstance(x, float):
        return "(AFloat %s)" % common.coq_ustr(repr(x))
    raise TypeError(type(x))


def to_coq(t):
    if isinstance(t, Ref):
        return "(XR %d)" % t.i
    if isinstance(t, DT):
        return "(XA (AStr %s))" % common.coq_ustr(t.text())
    if isinstance(t, dict):
        return "(XD %s)" % common.coq_list(["(%s, %s)" % (common.coq_ustr(k), to_coq(v)) for k, v in t.items()])
    if isinstance(t, list):
        return "(XL %s)" % common.coq_list([to_coq(x) for x in t])
    return "(XA %s)" % coq_atom(t)


def _ver(v):
    return {None: "None", "2.0": "(Some false)", "2.1": "(Some true)"}[v]


def _opt(i):
    return "None" if i is None else "(Some %d)" % i


def op_to_coq(op):
    """Gallina opcall of an op, or None if the op is not modelled."""
    o = op["op"]
    b = common.coq_bool
    us = common.coq_ustr
    if o == "mk":
        try:
            return "(OMk %s)" % to_coq(from_json(op["v"]))
        except (ValueError, TypeError):
            return None
    if o == "same_id":
        return "(OMk (XA (ABool true)))"        # reads two ids, returns a bool: nothing for the heap
    if o == "bundle_dict":
        return "(OMk %s)" % to_coq({"type": "bundle", "id": op["id"], "objects": Ref(op["arg"])})
    if o == "construct":
        return "(OConstruct %s %d)" % (us(op["cls"]), op["kw"])
    if o == "bundle":
        return "(OBundle %s %s %s)" % (us(op["cls"]), common.coq_list([str(i) for i in op.get("args", [])]), _opt(op.get("kw")))
    if o == "parse":
        return "(OParse %d %s %s)" % (op["arg"], _ver(op.get("version")), b(op.get("allow_custom", False)))
    if o == "parse_observable":
        return "(OParseObs %d %s %s %s)" % (op["arg"], _opt(op.get("valid_refs")), _ver(op.get("version")),
                                           b(op.get("allow_custom", False)))
    if o == "deepcopy":
        return "(ODeepcopy %d)" % op["arg"]
    if o == "new_version":
        return "(ONewVersion %d %s)" % (op["arg"], _opt(op.get("kw")))
    if o == "revoke":
        return "(ORevoke %d)" % op["arg"]
    if o == "util" and op["fn"] == "expand_markings":
        return "(OExpand %d)" % op["arg"]
    if o == "util" and op["fn"] == "compress_markings":
        return "(OCompress %d)" % op["arg"]
    if o == "copy":
        return "(OCopy %d)" % op["arg"]
    if o == "util" and op["fn"] == "deduplicate":
        return "(ODeduplicate %d)" % op["arg"]
    if o == "mark" and op.get("level", "api") == "api" and op["fn"] in ("clear_markings", "set_markings") and \
            op.get("opts") and set(op["opts"]) <= {"marking_ref", "lang"} and op.get("selectors") is not None:
        mr, lg = b(op["opts"].get("marking_ref", True)), b(op["opts"].get("lang", True))
        if op["fn"] == "clear_markings":
            return "(OClearOpts %d %d %s %s)" % (op["arg"], op["selectors"], mr, lg)
        if "marking" in op:
            return "(OSetOpts %d %d %d %s %s)" % (op["arg"], op["marking"], op["selectors"], mr, lg)
        return None
    if o == "mark" and op.get("level", "api") == "api":
        fn = op["fn"]
        ctor = {"set_markings": "ASet", "remove_markings": "ARemove", "add_markings": "AAdd", "clear_markings": "AClear",
                "get_markings": "AGet", "is_marked": "AIsMarked"}.get(fn)
        opts = op.get("opts") or {}
        if ctor is None or (opts and ctor not in ("AGet", "AIsMarked")):
            return None
        if ctor in ("ASet", "ARemove", "AAdd") and "marking" not in op:
            return None
        if ctor == "AIsMarked" and "marking" not in op and op.get("selectors") is not None:
            return None           # the worker would pass the selectors as the marking
        return "(OApi %s %d %s %s)" % (ctor, op["arg"], _opt(op.get("marking")), _opt(op.get("selectors")))
    if o == "remove_custom":
        return "(ORemoveCustom %d)" % op["arg"]
    if o == "mark" and not op.get("opts"):
        lvl, fn = op.get("level"), op["fn"]
        if lvl == "granular" and fn == "remove_markings":
            return "(OGranularRemove %d %d %d)" % (op["arg"], op["marking"], op["selectors"])
        if lvl == "granular" and fn == "set_markings":
            return "(OGranularSet %d %d %d)" % (op["arg"], op["marking"], op["selectors"])
        if lvl == "object" and fn == "set_markings":
            return "(OObjectSet %d %d)" % (op["arg"], op["marking"])
        if lvl == "granular" and fn == "add_markings":
            return "(OGranularAdd %d %d %d)" % (op["arg"], op["marking"], op["selectors"])
        if lvl == "granular" and fn == "clear_markings":
            return "(OGranularClear %d %d)" % (op["arg"], op["selectors"])
        if lvl == "object" and fn == "add_markings":
            return "(OObjectAdd %d %d)" % (op["arg"], op["marking"])
        if lvl == "object" and fn == "remove_markings":
            return "(OObjectRemove %d %d)" % (op["arg"], op["marking"])
        if lvl == "object" and fn == "clear_markings":
            return "(OObjectClear %d)" % op["arg"]
        return None
    if o == "factory_new":
        return "(OFactoryNew %d %s)" % (op["kw"], b(op.get("opts", {}).get("list_append", True)))
    if o == "factory_create":
        return "(OFactoryCreate %d %s %s)" % (op["factory"], us(op["cls"]), _opt(op.get("kw")))
    if o == "store_new" and op["kind"] == "memory" and not op.get("opts"):
        return "(OStoreNew %s)" % _opt(op.get("arg"))
    if o == "store_add" and not op.get("version"):
        return "(OStoreAdd %d %d)" % (op["store"], op["arg"])
    if o == "store_get":
        return "(OStoreGet %d %s)" % (op["store"], us(op["id"]))
    if o == "setattr" and op.get("val") is None:
        return "(OSetattr %d %s)" % (op["arg"], us(op["name"]))
    if o == "delattr":
        return "(ODelattr %d %s)" % (op["arg"], us(op["name"]))
    if o == "setitem" and op.get("val") is None:
        return "(OSetitem %d)" % op["arg"]
    return None


def case_to_coq(case):
    if case.get("nomodel"):
        return None
    terms = [op_to_coq(op) for op in case["ops"]]
    if any(t is None for t in terms):
        return None
    return "run_case as_written world_now %s" % common.coq_list(terms)


# --------------------------------------------------------------------------
# building cases

class B:
    def __init__(self, rng, kind):
        self.rng = rng
        self.ops = []
        self.kind = kind

    def add(self, **op):
        self.ops.append(op)
        return len(self.ops) - 1

    def mk(self, tree):
        return self.add(op="mk", v=to_json(tree))

    def case(self):
        return {"kind": self.kind, "ops": self.ops}


def new_id(rng, ty):
    return "%s--%s" % (ty, uuid.UUID(int=rng.getrandbits(128), version=4))


def hexs(rng, n):
    return "".join(rng.choice("0123456789abcdef") for _ in range(n))


def hashes(rng):
    """algorithm names partly in a spelling the library normalises (md5 -> MD5):
    an in-place normalisation of the caller's dict would be visible"""
    h = {rng.choice(["MD5", "MD5", "md5"]): hexs(rng, 32)}
    if rng.random() < 0.5:
        h[rng.choice(["SHA-256", "SHA-256", "sha256", "sha-256"])] = hexs(rng, 64)
    if rng.random() < 0.3:
        h[rng.choice(["SHA-1", "sha1"])] = hexs(rng, 40)
    return h


def ext_tree(rng, ver, custom=False):
    """an `extensions` value for a file observable: registered extensions given
    as nested dicts (lists of dicts of dicts inside)"""
    e = {}
    if rng.random() < 0.8:
        ads = [{"name": "s%d" % i, "hashes": hashes(rng)} for i in range(rng.randint(1, 2))]
        if rng.random() < 0.3:
            ads[0]["size"] = rng.randint(0, 5000)
        e["ntfs-ext"] = {"sid": "S-1-5-%d" % rng.randint(1, 99), "alternate_data_streams": ads}
        if rng.random() < 0.3:
            del e["ntfs-ext"]["sid"]
    if rng.random() < 0.5:
        e["pdf-ext"] = {"version": "1.%d" % rng.randint(0, 7), "document_info_dict": {"Title": "t", "Author": "someone"}}
        if rng.random() < 0.5:
            e["pdf-ext"]["is_optimized"] = rng.random() < 0.5
    if rng.random() < 0.3:
        e["raster-image-ext"] = {"image_height": 10, "exif_tags": {"Make": "m", "XResolution": 72}}
    if custom:
        e["x-verif-ext"] = {"levels": [1, 2, {"deep": ["a"]}], "note": "n"}
    if not e:
        e["archive-ext"] = {"contains_refs": ["0"] if ver == "2.0" else [new_id(rng, "file")]}
    return e


def file_kw(rng, ver, ext=None):
    kw = {"name": rng.choice(["a.txt", "b.exe", "c"])}
    if rng.random() < 0.6:
        kw["hashes"] = hashes(rng)
    if rng.random() < 0.3:
        kw["size"] = rng.randint(0, 10 ** 6)
    if ext is not None:
        kw["extensions"] = ext
    return kw


def ext_refs(rng):
    out = []
    for i in range(rng.randint(1, 3)):
        r = {"source_name": "src%d" % i, "external_id": "id-%d" % rng.randint(0, 999)}
        if rng.random() < 0.4:
            r["hashes"] = hashes(rng)
        if rng.random() < 0.3:
            r["url"] = "https://example.com/%d" % i
        out.append(r)
    return out


def gms(rng, sels=("name", "description", "labels")):
    out = []
    for _ in range(rng.randint(1, 3)):
        ss = rng.sample(list(sels), rng.randint(1, min(2, len(sels))))
        out.append({"marking_ref": rng.choice(list(TLP.values())), "selectors": ss})
    return out


def sdo_kw(rng, ver, ty, full=False, markings=False):
    """keyword mapping for an identity / indicator / malware with list and dict
    members; full=True adds what parse() needs"""
    kw = {}
    if full:
        kw["type"] = ty
        if ver == "2.1":
            kw["spec_version"] = "2.1"
        kw["id"] = new_id(rng, ty)
        kw["created"] = rng.choice(TS[:2])
        kw["modified"] = rng.choice(TS[2:])
    elif rng.random() < 0.5:
        kw["created"] = rng.choice(TS[:2])
        kw["modified"] = rng.choice(TS[2:])
    if "created" in kw and rng.random() < 0.35:
        # timestamps given as datetime objects: naive, UTC, fixed offset, a real zone in the repeated
        # hour (fold), the library's own STIXdatetime; `modified` later than any of them
        kw["created"] = rng.choice(DT_CREATED)
        kw["modified"] = rng.choice(["2022-03-04T05:06:07.000Z", DT((2022, 3, 4, 5, 6, 7, 0), "UTC"),
                                     DT((2022, 3, 4, 5, 6, 7, 0), "Europe/Berlin", 0, True, "millisecond")])
    if ty == "identity":
        kw["name"] = rng.choice(["ACME", "J. Doe"])
        kw["identity_class"] = "organization"
        if rng.random() < 0.5:
            kw["sectors"] = rng.sample(["technology", "energy", "retail"], rng.randint(1, 2))
        if ver == "2.1" and rng.random() < 0.4:
            kw["roles"] = ["r1", "r2"][:rng.randint(1, 2)]
    elif ty == "indicator":
        kw["pattern"] = "[file:name = 'a']"
        kw["valid_from"] = TS[0]
        if ver == "2.1":
            kw["pattern_type"] = "stix"
            if rng.random() < 0.5:
                kw["indicator_types"] = ["malicious-activity"]
        kw["kill_chain_phases"] = [{"kill_chain_name": "k%d" % i, "phase_name": "p"} for i in range(rng.randint(1, 2))]
    elif ty == "malware":
        kw["name"] = "m"
        if ver == "2.1":
            kw["is_family"] = False
            if rng.random() < 0.5:
                kw["aliases"] = ["x", "y"]
    if ver == "2.0" and ty in ("indicator", "malware"):
        kw["labels"] = ["malicious-activity"] if ty == "indicator" else ["trojan"]
    elif rng.random() < 0.6:
        kw["labels"] = rng.sample(["l1", "l2", "l3"], rng.randint(1, 3))
    if rng.random() < 0.6:
        kw["description"] = "d"
    if rng.random() < 0.6:
        kw["external_references"] = ext_refs(rng)
    if markings or rng.random() < 0.4:
        avail = [k for k in ("name", "description", "labels") if k in kw]
        if avail:
            kw["granular_markings"] = gms(rng, avail)
    if markings or rng.random() < 0.4:
        kw["object_marking_refs"] = rng.sample(list(TLP.values()), rng.randint(1, 2))
    return kw


# values of every kind a caller may put into a property the library stores as given (custom
# properties, unknown-type dicts): numbers around the usual boundaries, datetimes (naive, UTC, fixed
# offset, a real zone in the repeated DST hour with fold=1, the library's STIXdatetime), keys and
# strings with awkward characters (never "/", ";", "#", "|": the harness's own separators)
VALUE_POOL = [
    ("x_negzero", -0.0), ("x_intfloat", 7.0), ("x_big53", 2 ** 53 + 1), ("x_e21", 10 ** 21), ("x_huge", 7 * 10 ** 400 + 3),
    ("x_neg", -1), ("x_float", 0.1), ("x_exp", 1e300),
    ("x_dt_naive", DT((2021, 11, 7, 1, 30, 0, 0))),
    ("x_dt_utc", DT((2021, 11, 7, 1, 30, 0, 123456), "UTC")),
    ("x_dt_fixed", DT((2021, 11, 7, 1, 30, 0, 0), "fixed:330")),
    ("x_dt_fold", DT((2021, 11, 7, 1, 30, 0, 0), "America/New_York", 1)),
    ("x_sdt_fold", DT((2021, 11, 7, 1, 30, 0, 500000), "America/New_York", 1, True, "millisecond")),
    ("x_sdt_utc", DT((2016, 1, 1, 0, 0, 0, 0), "UTC", 0, True, "second")),
    ("x_sdt_eu", DT((2021, 10, 31, 2, 30, 0, 0), "Europe/Berlin", 1, True, None)),
    ("x_keys", {'k"q': 1, "k\\b": [2], "k\x7f": {"z": 3}, "k\U0001F600": "v", "K-UP_down--x": [], "": "empty key"}),
    ("x_text_shapes", ["", "a" * 255, "b" * 256, "\x7f", "\U0001F600", 'q"uote', "back\\slash", "2016-01-01T00:00:00.1234567Z"]),
]


DT_CREATED = [DT((2021, 11, 7, 1, 30, 0, 0)), DT((2021, 11, 7, 1, 30, 0, 0), "UTC"), DT((2021, 11, 7, 1, 30, 0, 0), "fixed:-300"),
              DT((2021, 11, 7, 1, 30, 0, 0), "America/New_York", 1), DT((2021, 11, 7, 1, 30, 0, 0), "America/New_York", 0),
              DT((2021, 10, 31, 2, 30, 0, 250000), "Europe/Berlin", 1, True, "millisecond"),
              DT((2021, 11, 7, 1, 30, 0, 0), "America/New_York", 1, True, "second")]


def custom_props_tree(rng):
    """a `custom_properties` dict a caller keeps and re-uses (a template): values the constructor
    skips (None, []), falsy values it keeps (0, '', False, {}), and nested containers"""
    pool = [("x_none", None), ("x_empty_list", []), ("x_empty_dict", {}), ("x_zero", 0), ("x_blank", ""),
            ("x_false", False), ("x_nested", {"a": [1, {"b": [2]}]}), ("x_list", ["p", ["q"]]), ("x_text", "t")]
    pool += rng.sample(VALUE_POOL, 3)
    picks = rng.sample(pool, rng.randint(2, 6))
    if rng.random() < 0.7 and not any(k in ("x_none", "x_empty_list") for k, _ in picks):
        picks.append(rng.choice(pool[:2]))
    out = dict(picks)
    if rng.random() < 0.3:
        # the same sub-structure at top level, as a list element, as a member value and nested
        sub = {"s": [1, {"t": ["u"]}]}
        out.update({"x_pos_top": sub, "x_pos_elem": ["e", sub], "x_pos_member": {"m": sub}, "x_pos_deep": {"a": [{"b": sub}]}})
    return out


def with_skipped(rng, kw):
    """ordinary keyword arguments given as None / [] (the constructor treats them as absent)"""
    kw = dict(kw)
    for name in rng.sample(["description", "labels", "external_references", "created_by_ref", "confidence", "lang"],
                           rng.randint(0, 2)):
        if name not in kw:
            kw[name] = rng.choice([None, []])
    return kw


def cls_name(ver, cn):
    return ("v21." if ver == "2.1" else "v20.") + cn


CLS = {"identity": "Identity", "indicator": "Indicator", "malware": "Malware", "file": "File",
       "observed-data": "ObservedData", "directory": "Directory"}


def pick_ver(rng):
    return rng.choice(["2.0", "2.1"])


def share_members(b, tree, p=0.5):
    """Move some container members of a dict tree into their own mk ops, so
    that they exist as separate caller objects which are reused."""
    out = {}
    for k, v in tree.items():
        if isinstance(v, (list, dict)) and b.rng.random() < p:
            out[k] = Ref(b.mk(v))
        else:
            out[k] = v
    return out


# ---- scenarios over the modelled skeletons ----

def sc_extensions(rng):
    b = B(rng, "extensions")
    ver = pick_ver(rng)
    custom = rng.random() < 0.25
    ext = b.mk(ext_tree(rng, ver, custom))
    fk = file_kw(rng, ver, Ref(ext))
    if rng.random() < 0.25:
        fk["custom_properties"] = Ref(b.mk(custom_props_tree(rng)))
        if rng.random() < 0.5:
            fk["mime_type"] = None
    kw = b.mk(fk)
    opts = {"allow_custom": True} if custom else {}
    o1 = b.add(op="construct", cls=cls_name(ver, "File"), kw=kw, **opts)
    o2 = b.add(op="construct", cls=cls_name(ver, "File"), kw=kw, **opts)      # same inputs again
    if rng.random() < 0.6:
        d = dict(file_kw(rng, ver, Ref(ext)), type="file")
        pd = b.mk(d)
        b.add(op="parse_observable", arg=pd, version=ver, allow_custom=custom)
        if rng.random() < 0.5:
            vr = b.mk({"0": "file"}) if rng.random() < 0.5 else None
            b.add(op="parse_observable", arg=pd, valid_refs=vr, version=ver, allow_custom=custom)
    if rng.random() < 0.5:
        b.add(op="deepcopy", arg=rng.choice([o1, ext, kw]))
    if rng.random() < 0.4:
        # an extension given as an object of the registered class
        sub = b.add(op="construct", cls=cls_name(ver, "PDFExt"), kw=b.mk({"version": "1.4"}))
        e2 = b.mk({"pdf-ext": Ref(sub)})
        b.add(op="construct", cls=cls_name(ver, "File"), kw=b.mk(file_kw(rng, ver, Ref(e2))))
    if rng.random() < 0.3:
        b.add(op="setattr", arg=o2, name="name")
    return b.case()


def obs_objects(rng, ver, b):
    ext = Ref(b.mk(ext_tree(rng, ver))) if rng.random() < 0.6 else None
    f = dict(file_kw(rng, ver, ext), type="file")
    objs = {"0": f}
    if rng.random() < 0.7:
        objs["1"] = {"type": "directory", "path": "/tmp/x", "contains_refs": ["0"]} if ver == "2.0" else \
                    {"type": "directory", "path": "/tmp/x"}
    if rng.random() < 0.4:
        objs["2"] = Ref(b.mk({"type": "domain-name", "value": "example.com"}))
    return objs


def sc_observed(rng):
    b = B(rng, "observed-data")
    ver = pick_ver(rng)
    objs = b.mk(obs_objects(rng, ver, b))
    kw = {"created": TS[0], "modified": TS[2], "first_observed": TS[0], "last_observed": TS[1],
          "number_observed": rng.randint(1, 5), "objects": Ref(objs)}
    if rng.random() < 0.4:
        kw["labels"] = ["l1"]
    k = b.mk(kw)
    o1 = b.add(op="construct", cls=cls_name(ver, "ObservedData"), kw=k)
    b.add(op="construct", cls=cls_name(ver, "ObservedData"), kw=k)
    r = rng.random()
    if r < 0.35:
        full = dict(kw, type="observed-data", id=new_id(rng, "observed-data"), created=TS[0], modified=TS[1])
        if ver == "2.1":
            full["spec_version"] = "2.1"
        p = b.mk(full)
        b.add(op="parse", arg=p, version=rng.choice([None, ver]))
        b.add(op="parse", arg=p, version=ver)
    elif r < 0.7:
        nk = b.mk({"number_observed": 7} if rng.random() < 0.5 else {"objects": Ref(objs), "modified": LATER[0]})
        b.add(op="new_version", arg=o1, kw=nk)
        b.add(op="new_version", arg=o1, kw=nk)
    else:
        b.add(op="deepcopy", arg=o1)
        b.add(op="revoke", arg=o1)
    if rng.random() < 0.3:
        b.add(op="bundle", cls=cls_name(ver, "Bundle"), args=[o1])
    return b.case()


def sc_sdo(rng):
    b = B(rng, "sdo")
    ver = pick_ver(rng)
    ty = rng.choice(["identity", "indicator", "malware"])
    kwt = with_skipped(rng, sdo_kw(rng, ver, ty)) if rng.random() < 0.4 else sdo_kw(rng, ver, ty)
    fullt = sdo_kw(rng, ver, ty, full=True)
    cp = None
    if rng.random() < 0.45:
        cp = b.mk(custom_props_tree(rng))              # one template dict, used by every construction below
        kwt["custom_properties"] = Ref(cp)
        if rng.random() < 0.7:
            fullt["custom_properties"] = Ref(cp)
    kw = b.mk(share_members(b, kwt))
    o1 = b.add(op="construct", cls=cls_name(ver, CLS[ty]), kw=kw)
    b.add(op="construct", cls=cls_name(ver, CLS[ty]), kw=kw)
    if cp is not None and rng.random() < 0.5:
        ty2 = rng.choice(["identity", "malware"])
        b.add(op="construct", cls=cls_name(ver, CLS[ty2]), kw=b.mk(dict(sdo_kw(rng, ver, ty2), custom_properties=Ref(cp))))
    full = b.mk(share_members(b, fullt))
    p1 = b.add(op="parse", arg=full, version=rng.choice([None, ver]), **({"allow_custom": True} if "custom_properties" in fullt else {}))
    if rng.random() < 0.4:
        # the same value asked again with other flags (allow_custom, version, text / file form), after a call that fails
        b.add(op="parse", arg=full, version="2.0" if ver == "2.1" else "2.1")          # usually refused
        b.add(op="parse", arg=full, version=ver, allow_custom=True)
        b.add(op=rng.choice(["parse_text", "parse_file"]), arg=full, version=rng.choice([None, ver]), allow_custom=True)
        b.add(op="parse", arg=full, version=None, **({"allow_custom": True} if "custom_properties" in fullt else {}))
    r = rng.random()
    if r < 0.4:
        nk = {"labels": Ref(b.mk(["n1", "n2"]))} if ty == "identity" or ver == "2.1" else {"description": "new"}
        if rng.random() < 0.5:
            nk["external_references"] = Ref(b.mk(ext_refs(rng)))
        nki = b.mk(nk)
        tgt = rng.choice([o1, p1, full])
        b.add(op="new_version", arg=tgt, kw=nki)
        b.add(op="new_version", arg=tgt, kw=nki)
    elif r < 0.6:
        b.add(op="revoke", arg=rng.choice([o1, p1, full]))
    elif r < 0.8:
        b.add(op="deepcopy", arg=rng.choice([o1, p1, full, kw]))
    else:
        b.add(op="parse", arg=p1, version=ver)           # parsing an object
        b.add(op="parse", arg=full, version=ver)
    if rng.random() < 0.3:
        b.add(op=rng.choice(["setattr", "delattr"]), arg=o1, name=rng.choice(["name", "labels", "pattern", "id", "x"]))
    if rng.random() < 0.2:
        b.add(op="setitem", arg=o1, name="name")
    return b.case()


def marking_args(rng, b, ver):
    """a marking argument: id string, list of ids, MarkingDefinition object, list with objects"""
    r = rng.random()
    if r < 0.35:
        return b.mk(rng.choice(list(TLP.values())))
    if r < 0.6:
        return b.mk(rng.sample(list(TLP.values()), rng.randint(1, 3)))
    if rng.random() < 0.5:
        st = b.add(op="construct", cls=cls_name(ver, "StatementMarking"), kw=b.mk({"statement": "(c) %d" % rng.randint(0, 99)}))
    else:
        st = b.mk({"statement": "(c) %d" % rng.randint(0, 99)})      # MarkingDefinition.__init__ builds the marking object
    mkw = b.mk({"definition_type": "statement", "definition": Ref(st)})
    md = b.add(op="construct", cls=cls_name(ver, "MarkingDefinition"), kw=mkw)
    if rng.random() < 0.3:
        b.add(op="construct", cls=cls_name(ver, "MarkingDefinition"), kw=mkw)       # the same mapping again
    if r < 0.8:
        return md
    return b.mk([Ref(md), rng.choice(list(TLP.values()))])


def sc_markings(rng):
    b = B(rng, "markings")
    ver = pick_ver(rng)
    ty = rng.choice(["identity", "malware"])
    as_dict = rng.random() < 0.3
    kwt = sdo_kw(rng, ver, ty, full=as_dict, markings=rng.random() < 0.6)
    kwt.setdefault("description", "d")
    kw = b.mk(share_members(b, kwt, 0.3))
    obj = kw if as_dict else b.add(op="construct", cls=cls_name(ver, CLS[ty]), kw=kw)
    sels = b.mk(rng.choice([["name"], ["description", "name"], "name", ["name", "name"]]))
    cur = obj
    for _ in range(rng.randint(1, 3)):
        r = rng.random()
        if r < 0.35:
            cur2 = b.add(op="mark", fn="add_markings", level="granular", arg=cur, marking=marking_args(rng, b, ver), selectors=sels)
        elif r < 0.55:
            cur2 = b.add(op="mark", fn="clear_markings", level="granular", arg=cur, selectors=sels)
        elif r < 0.75:
            cur2 = b.add(op="mark", fn="add_markings", level="object", arg=cur, marking=marking_args(rng, b, ver))
        elif r < 0.9:
            cur2 = b.add(op="mark", fn="remove_markings", level="object", arg=cur,
                         marking=b.mk(rng.choice([TLP["white"], [TLP["white"], TLP["green"]], list(TLP.values())])))
        else:
            cur2 = b.add(op="mark", fn="clear_markings", level="object", arg=cur)
        if rng.random() < 0.6:
            cur = cur2          # continue from the result (if it raised, env holds None: later ops raise too)
    if rng.random() < 0.5:
        g = b.mk(gms(rng) + ([{"lang": "en", "selectors": ["name"]}] if rng.random() < 0.4 else []))
        e = b.add(op="util", fn="expand_markings", arg=g)
        b.add(op="util", fn="compress_markings", arg=rng.choice([g, e]))
        b.add(op="util", fn="expand_markings", arg=g)
    return b.case()


def sc_api_markings(rng):
    """the public marking API (stix2.markings.* and the object methods): dispatch on
    `selectors is None`, remove / set on both levels, remove_custom_stix"""
    b = B(rng, "api-markings")
    ver = pick_ver(rng)
    ty = rng.choice(["identity", "malware"])
    as_dict = rng.random() < 0.35
    kwt = sdo_kw(rng, ver, ty, full=as_dict, markings=rng.random() < 0.75)
    kwt.setdefault("description", "d")
    custom = rng.random() < 0.4
    if custom:
        kwt["x_verif"] = rng.choice([{"deep": [{"a": 1}, [2, 3]]}, ["p"], "v"])
    kw = b.mk(share_members(b, kwt, 0.3))
    obj = kw if as_dict else b.add(op="construct", cls=cls_name(ver, CLS[ty]), kw=kw, **({"allow_custom": True} if custom else {}))
    sels = b.mk(rng.choice([["name"], ["description", "name"], "name", "description"]))
    mk = marking_args(rng, b, ver)
    if kwt.get("granular_markings") and rng.random() < 0.6:
        g = kwt["granular_markings"][0]
        sels = b.mk(list(g["selectors"]))
        mk = b.mk(rng.choice([g["marking_ref"], [g["marking_ref"]]]))
    elif kwt.get("object_marking_refs") and rng.random() < 0.5:
        mk = b.mk(rng.choice([kwt["object_marking_refs"][0], list(kwt["object_marking_refs"])]))
    cur = obj
    for _ in range(rng.randint(2, 5)):
        r = rng.randrange(13)
        meth = {"method": True} if rng.random() < 0.4 else {}
        withsel = rng.random() < 0.6
        sel = {"selectors": sels} if withsel else {}
        if r == 0:
            n = b.add(op="mark", fn="set_markings", arg=cur, marking=mk, **sel, **meth)
        elif r == 1:
            n = b.add(op="mark", fn="remove_markings", arg=cur, marking=mk, **sel, **meth)
        elif r == 2:
            n = b.add(op="mark", fn="add_markings", arg=cur, marking=mk, **sel, **meth)
        elif r == 3:
            n = b.add(op="mark", fn="clear_markings", arg=cur, **sel, **meth)
        elif r == 4:
            b.add(op="mark", fn="get_markings", arg=cur, **sel, **meth,
                  **({"opts": {"inherited": True}} if withsel and rng.random() < 0.5 else {}))
            continue
        elif r == 5:
            b.add(op="mark", fn="is_marked", arg=cur, marking=mk, **sel, **meth)
            continue
        elif r == 6:
            n = b.add(op="mark", fn="remove_markings", level="granular", arg=cur, marking=mk, selectors=sels)
        elif r == 7:
            n = b.add(op="mark", fn="set_markings", level="granular", arg=cur, marking=mk, selectors=sels)
        elif r == 8:
            n = b.add(op="mark", fn="set_markings", level="object", arg=cur, marking=mk)
        elif r == 9:
            n = b.add(op="remove_custom", arg=cur)
        elif r == 10 and rng.random() < 0.7:
            opts = rng.choice([{"marking_ref": False}, {"lang": False}, {"marking_ref": True, "lang": False},
                               {"marking_ref": False, "lang": False}])
            if rng.random() < 0.5:
                n = b.add(op="mark", fn="clear_markings", arg=cur, selectors=sels, opts=opts)
            else:
                n = b.add(op="mark", fn="set_markings", arg=cur, marking=mk, selectors=sels, opts=opts)
        elif r == 11 and rng.random() < 0.5:
            n = b.add(op="copy", arg=rng.choice([cur, kw, sels]))
        elif r == 11:
            n = b.add(op="util", fn="deduplicate", arg=b.mk([Ref(cur), Ref(obj), Ref(cur)]))
            continue
        else:
            n = b.add(op="mark", fn="remove_markings", level="object", arg=cur, marking=mk)
        if rng.random() < 0.5:
            cur = n
    return b.case()


def sc_bundle_store(rng):
    b = B(rng, "bundle-store")
    ver = pick_ver(rng)
    objs = []
    for _ in range(rng.randint(1, 3)):
        ty = rng.choice(["identity", "malware", "indicator"])
        if rng.random() < 0.5:
            objs.append(b.add(op="construct", cls=cls_name(ver, CLS[ty]), kw=b.mk(sdo_kw(rng, ver, ty))))
        else:
            objs.append(b.mk(share_members(b, sdo_kw(rng, ver, ty, full=True))))
    if ver == "2.1" and rng.random() < 0.4:
        # an observable in a bundle is NOT kept: STIXObjectProperty re-parses dict(value)
        objs.append(b.add(op="construct", cls="v21.File", kw=b.mk(file_kw(rng, ver, Ref(b.mk(ext_tree(rng, ver)))))))
    lst = b.mk([Ref(i) for i in objs])
    r = rng.random()
    if r < 0.25:
        bun = b.add(op="bundle", cls=cls_name(ver, "Bundle"), args=objs[-2:])
    elif r < 0.45:
        bun = b.add(op="bundle", cls=cls_name(ver, "Bundle"), args=[lst])
    elif r < 0.7:
        # a list followed by further positional arguments, and an `objects` keyword as well
        more = b.mk(share_members(b, sdo_kw(rng, ver, "identity", full=True)))
        kwl = b.mk({"objects": Ref(b.mk([Ref(more)]))}) if rng.random() < 0.5 else None
        bun = b.add(op="bundle", cls=cls_name(ver, "Bundle"), args=[lst, more] + ([lst] if rng.random() < 0.3 else []),
                    **({"kw": kwl} if kwl is not None else {}))
    else:
        bun = b.add(op="bundle", cls=cls_name(ver, "Bundle"), kw=b.mk({"objects": Ref(lst)}))
    b.add(op="bundle", cls=cls_name(ver, "Bundle"), args=[lst] if rng.random() < 0.5 else objs)   # shared between bundles
    st = b.add(op="store_new", kind="memory", arg=rng.choice([None, lst, bun, objs[0]]))
    for _ in range(rng.randint(1, 3)):
        b.add(op="store_add", store=st, arg=rng.choice(objs + [lst, bun]))
    if rng.random() < 0.5:
        st2 = b.add(op="store_new", kind="memory", arg=lst)        # objects shared between stores
        b.add(op="store_add", store=st2, arg=bun)
    if rng.random() < 0.3:
        b.add(op="deepcopy", arg=bun)
    return b.case()


def sc_store_get(rng):
    """a store keeps a parsed object for a dict of a known type, and the very
    dict for an unknown type (allow_custom): get() shows which"""
    b = B(rng, "store-get")
    ver = pick_ver(rng)
    ty = rng.choice(["identity", "malware"])
    t = sdo_kw(rng, ver, ty, full=True)
    d = b.mk(share_members(b, t))
    unk = {"type": "x-verif-thing", "id": new_id(rng, "x-verif-thing"), "created": TS[0], "modified": rng.choice(TS[1:] + TS_SHAPES),
           "payload": {"k": [1, 2, 3]}}
    unk.update(dict(rng.sample(VALUE_POOL, 2)))
    if ver == "2.1":
        unk["spec_version"] = "2.1"
    ud = b.mk(unk)
    o = b.add(op="construct", cls=cls_name(ver, CLS[ty]), kw=b.mk(sdo_kw(rng, ver, ty)))
    st = b.add(op="store_new", kind="memory", arg=None)
    b.add(op="store_add", store=st, arg=d)
    form = rng.randrange(5)
    if form == 0:
        b.add(op="store_add", store=st, arg=ud)                                   # the dict itself
    elif form == 1:
        b.add(op="store_add", store=st, arg=b.mk([Ref(ud), Ref(d)]))               # in a list
    elif form == 2:
        bd = b.add(op="bundle_dict", id=new_id(rng, "bundle"), arg=b.mk([Ref(ud)]))   # in a bundle given as a dict
        b.add(op="store_add", store=st, arg=bd)
    elif form == 3:
        bo = b.add(op="bundle", cls=cls_name(ver, "Bundle"), args=[ud], allow_custom=True)   # in an existing Bundle
        b.add(op="store_add", store=st, arg=bo)
    else:
        b.add(op="store_new", kind="memory", arg=b.mk([Ref(ud)]))                 # through the constructor
        b.add(op="store_add", store=st, arg=ud)
    b.add(op="store_add", store=st, arg=o)
    b.add(op="store_get", store=st, id=t["id"])
    b.add(op="store_get", store=st, id=unk["id"])
    b.add(op="store_add", store=st, arg=d)              # the same input again
    b.add(op="store_get", store=st, id=t["id"])
    if rng.random() < 0.5:
        b.add(op="parse", arg=ud, allow_custom=True, version=rng.choice([None, ver]))
    return b.case()


def sc_factory(rng):
    b = B(rng, "factory")
    ver = pick_ver(rng)
    dflt = {}
    if rng.random() < 0.8:
        dflt["external_references"] = ext_refs(rng) if rng.random() < 0.85 else ext_refs(rng)[0]
    if rng.random() < 0.6:
        dflt["object_marking_refs"] = rng.choice([[TLP["white"]], TLP["green"], [TLP["amber"], TLP["red"]]])
    if rng.random() < 0.4:
        dflt["created_by_ref"] = new_id(rng, "identity")
    if rng.random() < 0.3:
        dflt["created"] = TS[0]
    dk = b.mk(share_members(b, dflt))
    la = rng.random() < 0.8
    f = b.add(op="factory_new", kw=dk, opts={} if la else {"list_append": False})
    ty = rng.choice(["identity", "malware"])
    base = {k: v for k, v in sdo_kw(rng, ver, ty).items()
            if k not in ("external_references", "object_marking_refs", "granular_markings", "created", "modified")}
    extra = {}
    r = rng.random()
    if r < 0.4:
        extra["external_references"] = Ref(b.mk(ext_refs(rng)))
    elif r < 0.6:
        extra["external_references"] = Ref(b.mk(ext_refs(rng)[0]))
    elif r < 0.7:
        extra["external_references"] = None
    if rng.random() < 0.4:
        extra["object_marking_refs"] = rng.choice([TLP["red"], Ref(b.mk([TLP["red"]]))])
    k1 = b.mk(dict(base, **extra))
    b.add(op="factory_create", factory=f, cls=cls_name(ver, CLS[ty]), kw=k1)
    b.add(op="factory_create", factory=f, cls=cls_name(ver, CLS[ty]), kw=k1)       # the defaults must not have grown
    b.add(op="factory_create", factory=f, cls=cls_name(ver, CLS[ty]), kw=b.mk(base))
    return b.case()


def sc_refusals(rng):
    """assignment to / deletion of an object's properties: spec-defined ones,
    custom ones (allow_custom) and ones contributed by a toplevel-property
    extension"""
    b = B(rng, "refusals")
    ver = pick_ver(rng)
    ty = rng.choice(["identity", "indicator", "file"])
    extra, opts = {}, {}
    if rng.random() < 0.6:
        extra["x_verif"] = rng.choice(["v", {"a": [1, 2]}, ["p", "q"]])
        opts = {"allow_custom": True}
    if ver == "2.1" and ty != "file" and rng.random() < 0.4:
        extra["extensions"] = {"extension-definition--%s" % uuid.UUID(int=rng.getrandbits(128), version=4):
                               {"extension_type": "toplevel-property-extension"}}
        extra["rank"] = rng.randint(1, 9)
        extra["toplevel_list"] = ["a", "b"]
    if ty == "file":
        kw = dict(file_kw(rng, ver, Ref(b.mk(ext_tree(rng, ver)))), **extra)
        o = b.add(op="construct", cls=cls_name(ver, "File"), kw=b.mk(kw), **opts)
        names = ["name", "hashes", "extensions", "size", "type", "id"]
    else:
        kw = dict(sdo_kw(rng, ver, ty), **extra)
        o = b.add(op="construct", cls=cls_name(ver, CLS[ty]), kw=b.mk(kw), **opts)
        names = ["name", "labels", "id", "created", "modified", "external_references", "description", "type", "revoked"]
    names = names[:] + [k for k in extra if k != "extensions"] * 3
    for _ in range(rng.randint(2, 5)):
        kind = rng.choice(["setattr", "setattr", "delattr", "setitem"])
        b.add(op=kind, arg=o, name=rng.choice(names))
    if rng.random() < 0.5:
        b.add(op="deepcopy", arg=o)
    return b.case()


def sc_unknown_types(rng):
    """every public entry point x a caller's dict of an UNREGISTERED type (object-like and
    observable-like) x allow_custom off / on, the refused call first, then the accepted one, then again:
    the caller's dict must be the same after success and after failure"""
    b = B(rng, "unknown-types")
    ver = pick_ver(rng)
    obj = {"type": "x-verif-unk", "id": new_id(rng, "x-verif-unk"), "created": TS[0], "modified": TS[1],
           "payload": {"k": [1, 2, {"z": []}]}, "labels": ["a"]}
    sco = {"type": "x-verif-unk-sco", "value": "v", "nested": {"list": [1, [2]]}, "extensions": {"x-verif-ext": {"n": 1}}}
    if ver == "2.1":
        obj["spec_version"] = "2.1"
        if rng.random() < 0.5:
            sco["id"] = new_id(rng, "x-verif-unk-sco")
    obj.update(dict(rng.sample(VALUE_POOL, 1)))
    od = b.mk(share_members(b, obj, 0.3))
    sd = b.mk(share_members(b, sco, 0.3))
    vr = b.mk({"0": "x-verif-unk-sco"}) if rng.random() < 0.5 else None
    calls = []
    for ac in (False, True):
        calls += [
            dict(op="parse_observable", arg=sd, version=rng.choice([None, ver]), allow_custom=ac, **({"valid_refs": vr} if vr is not None else {})),
            dict(op="parse", arg=od, version=rng.choice([None, ver]), allow_custom=ac),
            dict(op="parse", arg=sd, version=ver, allow_custom=ac),
            dict(op="parse_observable", arg=od, version=ver, allow_custom=ac),
            dict(op="bundle", cls=cls_name(ver, "Bundle"), args=[od], allow_custom=ac),
        ]
    rng.shuffle(calls)
    calls.sort(key=lambda c: c.get("allow_custom", False))          # the refused calls first
    for c in rng.sample(calls, rng.randint(4, 8)) if rng.random() < 0.5 else calls[:rng.randint(4, 10)]:
        b.add(**c)
    # and through the containers that parse their members
    r = rng.random()
    if r < 0.3:
        objs = b.mk({"0": Ref(sd), "1": {"type": "file", "name": "f"}})
        kw = b.mk({"first_observed": TS[0], "last_observed": TS[1], "number_observed": 1, "objects": Ref(objs)})
        b.add(op="construct", cls=cls_name(ver, "ObservedData"), kw=kw)
        b.add(op="construct", cls=cls_name(ver, "ObservedData"), kw=kw, allow_custom=True)
    elif r < 0.6:
        st = b.add(op="store_new", kind="memory", arg=None)
        b.add(op="store_add", store=st, arg=rng.choice([od, sd]))
        b.add(op="store_add", store=st, arg=b.mk([Ref(od)]))
    elif r < 0.8:
        b.add(op="new_version", arg=od, kw=b.mk({"labels": Ref(b.mk(["b"]))}))
        b.add(op="revoke", arg=od)
    else:
        b.add(op="deepcopy", arg=rng.choice([od, sd]))
    b.add(op="parse_observable", arg=sd, version=ver, allow_custom=False)          # the same question again
    b.add(op="parse_observable", arg=sd, version=ver, allow_custom=True)
    return b.case()


SIZES = [0, 1, 2, 9, 10, 11, 63, 64, 65, 100, 101, 255, 256]


def nest(depth, leaf):
    t = leaf
    for i in range(depth):
        t = {"d": t} if i % 2 else [t]
    return t


def sc_sizes(rng):
    """containers with 0, 1, 2, 9..11, 63..65, 100, 101, 255, 256 members and that many nesting levels,
    as list / dict properties, custom properties and unknown-type dict members; nesting beyond the
    model's fuel (40 levels) is snapshot-tested only"""
    b = B(rng, "sizes")
    ver = pick_ver(rng)
    n = rng.choice(SIZES)
    depth = rng.choice(SIZES)
    deep = depth > 30 or n > 101
    kw = sdo_kw(rng, ver, "identity", full=True)
    kw["labels"] = ["l%d" % i for i in range(n)]
    kw["external_references"] = [{"source_name": "s%d" % i, "external_id": str(i)} for i in range(min(n, 70))]
    kw["x_wide"] = {"k%03d" % i: [i] for i in range(n)}
    kw["x_deep"] = nest(depth, ["leaf"])
    kw["x_strs"] = ["", "a", "b" * 255, "c" * 256]
    d = b.mk(share_members(b, kw, 0.3))
    o = b.add(op="parse", arg=d, version=ver, allow_custom=True)
    b.add(op="parse", arg=d, version=ver, allow_custom=True)
    r = rng.random()
    if r < 0.35:
        b.add(op="deepcopy", arg=rng.choice([o, d]))
    elif r < 0.7:
        b.add(op="new_version", arg=rng.choice([o, d]), kw=b.mk({"x_wide": Ref(b.mk({"k": list(range(n))}))}))
    else:
        st = b.add(op="store_new", kind="memory", arg=b.mk([Ref(d)]))
        b.add(op="store_add", store=st, arg=o)
    unk = {"type": "x-verif-thing", "id": new_id(rng, "x-verif-thing"), "created": TS[0], "modified": TS[1],
           "wide": list(range(n)), "deep": nest(depth, {"x": [1]})}
    if ver == "2.1":
        unk["spec_version"] = "2.1"
    ud = b.mk(unk)
    b.add(op="parse", arg=ud, allow_custom=True, version=ver)
    b.add(op="deepcopy", arg=ud)
    c = b.case()
    if deep:
        c["nomodel"] = True
    return c


MODELLED = [(sc_extensions, 5), (sc_observed, 4), (sc_sdo, 4), (sc_markings, 5), (sc_api_markings, 5), (sc_bundle_store, 3),
            (sc_store_get, 2), (sc_factory, 3), (sc_refusals, 2)]


# ---- scenarios outside the model: snapshot oracle only ----

def sc_api(rng):
    """every other public operation on the same kinds of arguments"""
    b = B(rng, "api")
    ver = pick_ver(rng)
    ty = rng.choice(["identity", "malware", "indicator"])
    kwt = sdo_kw(rng, ver, ty, markings=rng.random() < 0.7)
    kwt.setdefault("description", "d")
    if rng.random() < 0.4:
        kwt["x_verif"] = {"deep": [{"a": 1}, [2, 3]]}
    kw = b.mk(share_members(b, kwt))
    custom = "x_verif" in kwt
    o = b.add(op="construct", cls=cls_name(ver, CLS[ty]), kw=kw, **({"allow_custom": True} if custom else {}))
    fullt = sdo_kw(rng, ver, ty, full=True, markings=rng.random() < 0.5)
    fullt.setdefault("description", "d")
    full = b.mk(share_members(b, fullt))
    second = "pattern" if ty == "indicator" else "name"
    sels = b.mk(rng.choice([[second], ["description", second], second, "description"]))
    mk = b.mk(rng.choice([TLP["white"], [TLP["white"], TLP["red"]]]))
    tgt = rng.choice([o, full])
    src = kwt if tgt == o else fullt
    if src.get("granular_markings") and rng.random() < 0.6:
        # a marking that is really there, so that remove / clear / set succeed
        g = src["granular_markings"][0]
        sels = b.mk(list(g["selectors"]))
        mk = b.mk(g["marking_ref"])
    n = rng.randint(3, 7)
    for _ in range(n):
        r = rng.randrange(20)
        if r == 0:
            b.add(op="mark", fn="set_markings", arg=tgt, marking=mk, selectors=sels, method=rng.random() < 0.5)
        elif r == 1:
            b.add(op="mark", fn="remove_markings", arg=tgt, marking=mk, selectors=sels)
        elif r == 2:
            b.add(op="mark", fn="add_markings", arg=tgt, marking=mk, selectors=rng.choice([sels, None]), method=rng.random() < 0.5)
        elif r == 3:
            b.add(op="mark", fn="get_markings", arg=tgt, selectors=sels, opts={"inherited": True, "descendants": rng.random() < 0.5})
        elif r == 4:
            b.add(op="mark", fn="is_marked", arg=tgt, marking=mk, selectors=sels)
        elif r == 5:
            b.add(op="mark", fn="clear_markings", arg=tgt, selectors=rng.choice([sels, None]))
        elif r == 6:
            b.add(op="util", fn=rng.choice(["serialize", "str", "repr", "dict"]), arg=o,
                  **({"opts": {"pretty": True}} if rng.random() < 0.3 else {}))
        elif r == 7:
            b.add(op="util", fn="stix2.serialize", arg=tgt, opts=rng.choice([{}, {"sort_keys": True}, {"pretty": True}]))
        elif r == 8:
            b.add(op="util", fn="eq", arg=o, other=rng.choice([o, full]))
        elif r == 9:
            b.add(op="remove_custom", arg=tgt)
        elif r == 10:
            b.add(op="copy", arg=tgt)
        elif r == 11:
            b.add(op="parse_text", arg=full, version=rng.choice([None, ver]))
        elif r == 12:
            b.add(op="util", fn=rng.choice(["object_similarity", "object_equivalence"]), arg=o, other=full)
        elif r == 13:
            b.add(op="util", fn="deduplicate", arg=b.mk([Ref(full), Ref(full), Ref(o)]))
        elif r == 14:
            b.add(op="new_version", arg=tgt, kw=b.mk({"description": "nd"}), method=True)
        elif r == 15:
            b.add(op="util", fn="iterpath", arg=tgt)
        elif r == 16:
            b.add(op="util", fn="validate", arg=tgt, selectors=sels)
        elif r == 17:
            b.add(op="util", fn="get_dict", arg=tgt)
        elif r == 18:
            b.add(op="mark", fn="remove_markings", level="granular", arg=tgt, marking=mk, selectors=sels)
        else:
            b.add(op="deepcopy", arg=tgt)
    return b.case()


def sc_stores(rng):
    """memory / filesystem stores, environment, queries, on shared inputs"""
    b = B(rng, "stores")
    ver = pick_ver(rng)
    items = []
    for _ in range(rng.randint(2, 3)):
        ty = rng.choice(["identity", "malware", "indicator"])
        if rng.random() < 0.5:
            items.append(b.add(op="construct", cls=cls_name(ver, CLS[ty]), kw=b.mk(sdo_kw(rng, ver, ty))))
        else:
            items.append(b.mk(share_members(b, sdo_kw(rng, ver, ty, full=True))))
    lst = b.mk([Ref(i) for i in items])
    bun = b.add(op="bundle", cls=cls_name(ver, "Bundle"), args=[lst])
    mem = b.add(op="store_new", kind="memory", arg=rng.choice([None, lst]))
    fs = b.add(op="store_new", kind="fs", arg=None) if rng.random() < 0.6 else None
    fac = b.add(op="factory_new", kw=b.mk({"object_marking_refs": [TLP["white"]]}))
    env = b.add(op="env_new", factory=fac, store=rng.choice([mem] + ([fs] if fs is not None else [])))
    for _ in range(rng.randint(3, 6)):
        r = rng.randrange(10)
        st = rng.choice([mem] + ([fs] if fs is not None else []))
        if r == 0:
            b.add(op="store_add", store=st, arg=rng.choice(items + [lst, bun]), **({"version": ver} if rng.random() < 0.3 else {}))
        elif r == 1:
            b.add(op="store_query", store=st, filters=[["type", "=", "identity"]])
        elif r == 2:
            b.add(op="store_query", store=st, arg=b.mk([]))
        elif r == 3:
            b.add(op="env_add", env=env, arg=rng.choice(items + [lst]))
        elif r == 4:
            b.add(op="env_create", env=env, cls=cls_name(ver, "Identity"),
                  kw=b.mk({"name": "n", "identity_class": "individual", "object_marking_refs": Ref(b.mk([TLP["red"]]))}))
        elif r == 5:
            b.add(op="env_parse", env=env, arg=rng.choice(items))
        elif r == 6:
            b.add(op="store_save", store=mem)
        elif r == 7:
            b.add(op="store_all_versions", store=st, id=new_id(rng, "identity"))
        elif r == 8:
            b.add(op="env_creator_of", env=env, arg=items[0])
        else:
            b.add(op="store_add", store=st, arg=rng.choice(items))
    return b.case()


CUSTOM_EXT = {
    "VerifObj": ("x-verif-obj", "extension-definition--0c9d6f0e-5a4b-4f7e-9d25-11a0c13c0001"),
    "VerifObj2": ("x-verif-obj2", "extension-definition--0c9d6f0e-5a4b-4f7e-9d25-11a0c13c0002"),
    "VerifSco": ("x-verif-sco", "extension-definition--0c9d6f0e-5a4b-4f7e-9d25-11a0c13c0003"),
    "VerifPlain": ("x-verif-plain", None),
}


def sc_custom_types(rng):
    """custom object / observable classes registered through the public decorators, some with
    extension_name= (their constructor adds the type's own extension to the object's `extensions`);
    the caller's `extensions` dict -- with entries that need no conversion, entries that do, or
    extension objects -- is reused across constructions of several types"""
    b = B(rng, "custom-types")
    ext = {}
    r = rng.random()
    if r < 0.3:
        pass                                                     # empty dict
    if 0.2 < r < 0.7:
        ext["extension-definition--%s" % uuid.UUID(int=rng.getrandbits(128), version=4)] = \
            {"extension_type": "property-extension", "rank": rng.randint(1, 5), "tags": ["a", "b"]}
    if 0.55 < r < 0.8:
        ext["extension-definition--%s" % uuid.UUID(int=rng.getrandbits(128), version=4)] = \
            {"extension_type": "toplevel-property-extension"}
    if r >= 0.8:
        sub = b.add(op="construct", cls="v21.PDFExt", kw=b.mk({"version": "1.4"}))
        ext["pdf-ext"] = Ref(sub)                                # a value that already is an extension object
    e = b.mk(ext)
    names = rng.sample(["VerifObj", "VerifObj2", "VerifSco", "VerifPlain"], rng.randint(2, 3))
    cpt = b.mk(custom_props_tree(rng)) if rng.random() < 0.6 else None
    objs = []
    for n in names:
        kw = {"name": "n%d" % rng.randint(0, 9)}
        if rng.random() < 0.5:
            kw["items"] = Ref(b.mk(["i1", "i2"])) if rng.random() < 0.5 else ["i1"]
        if rng.random() < 0.4:
            kw["meta"] = Ref(b.mk({"k": "v"}))
        if rng.random() < 0.85:
            kw["extensions"] = Ref(e)
        if rng.random() < 0.3:
            kw["custom_properties"] = Ref(cpt) if cpt is not None else None
        k = b.mk(kw)
        objs.append(b.add(op="construct", cls="custom." + n, kw=k, allow_custom=True))
        if rng.random() < 0.4:
            b.add(op="construct", cls="custom." + n, kw=k, allow_custom=True)      # the same inputs again
    if rng.random() < 0.5:
        vk = b.mk({"name": "v%d" % rng.randint(0, 9), "created": TS[0], "modified": TS[1],
                   "items": Ref(b.mk(["i1"]))})
        vo = b.add(op="construct", cls="custom.VerifVSco", kw=vk, allow_custom=True)
        nk = b.mk({"items": Ref(b.mk(["j1", "j2"]))})
        b.add(op="new_version", arg=vo, kw=nk)
        b.add(op="new_version", arg=vo, kw=nk, method=True)
        if rng.random() < 0.5:
            b.add(op="revoke", arg=vo)
        vo2 = b.add(op="construct", cls="custom.VerifVSco", kw=vk, allow_custom=True)
        b.add(op="same_id", arg=vo, other=vo2)          # same content => same id, whatever happened in between
        objs.append(vo)
    n = rng.choice(names)
    ty, _ = CUSTOM_EXT[n]
    full = {"type": ty, "spec_version": "2.1", "id": new_id(rng, ty), "name": "p", "extensions": Ref(e)}
    if n != "VerifSco":
        full["created"] = TS[0]
        full["modified"] = TS[1]
    fd = b.mk(full)
    if n == "VerifSco" and rng.random() < 0.5:
        b.add(op="parse_observable", arg=fd, version="2.1", allow_custom=True)
    else:
        b.add(op="parse", arg=fd, version=rng.choice([None, "2.1"]), allow_custom=True)
    r = rng.random()
    tgt = rng.choice(objs)
    if r < 0.3:
        b.add(op="deepcopy", arg=tgt)
    elif r < 0.6:
        b.add(op="new_version", arg=tgt, kw=b.mk({"name": "renamed"}))
    elif r < 0.8:
        st = b.add(op="store_new", kind="memory", arg=None)
        b.add(op="store_add", store=st, arg=rng.choice(objs + [fd]))
    else:
        b.add(op="bundle", cls="v21.Bundle", args=objs[:2], allow_custom=True)
    return b.case()


SNAPSHOT_ONLY = [(sc_api, 3), (sc_stores, 2)]
MODELLED.append((sc_custom_types, 3))
MODELLED.append((sc_sizes, 1))
MODELLED.append((sc_unknown_types, 3))


KIND_OF = {sc_unknown_types: "unknown-types", sc_sizes: "sizes", sc_custom_types: "custom-types", sc_api_markings: "api-markings", sc_extensions: "extensions", sc_observed: "observed-data", sc_sdo: "sdo", sc_markings: "markings",
           sc_bundle_store: "bundle-store", sc_store_get: "store-get", sc_factory: "factory", sc_refusals: "refusals",
           sc_api: "api", sc_stores: "stores"}


def pick(rng, table):
    tot = sum(w for _, w in table)
    x = rng.random() * tot
    for f, w in table:
        x -= w
        if x < 0:
            return f
    return table[-1][0]


# ---- fixed witnesses: the inputs on which the frame theorem fails when a copy is missing ----

def witnesses():
    out = []
    for ver in ("2.0", "2.1"):
        b = B(None, "witness-ext")
        ext = b.mk({"ntfs-ext": {"sid": "x", "alternate_data_streams": [{"name": "s", "hashes": {"MD5": "a" * 32}}]}})
        kw = b.mk({"name": "a", "extensions": Ref(ext)})
        b.add(op="construct", cls=cls_name(ver, "File"), kw=kw)
        b.add(op="construct", cls=cls_name(ver, "File"), kw=kw)
        out.append(b.case())
        b = B(None, "witness-pobs")
        d = b.mk({"type": "file", "name": "a", "extensions": {"pdf-ext": {"version": "1.7"}}})
        b.add(op="parse_observable", arg=d, version=ver)
        b.add(op="parse_observable", arg=d, valid_refs=b.mk({"0": "file"}), version=ver)
        out.append(b.case())
        b = B(None, "witness-obs")
        objs = b.mk({"0": {"type": "file", "name": "a"}})
        kw = b.mk({"first_observed": TS[0], "last_observed": TS[1], "number_observed": 1, "objects": Ref(objs)})
        b.add(op="construct", cls=cls_name(ver, "ObservedData"), kw=kw)
        b.add(op="construct", cls=cls_name(ver, "ObservedData"), kw=kw)
        out.append(b.case())
        b = B(None, "witness-nv")
        t = {"type": "identity", "id": "identity--" + str(uuid.UUID(int=7, version=4)), "created": TS[0], "modified": TS[1],
             "name": "n", "identity_class": "individual", "labels": ["a"]}
        if ver == "2.1":
            t["spec_version"] = "2.1"
        d = b.mk(t)
        nk = b.mk({"labels": Ref(b.mk(["b", "c"]))})
        b.add(op="new_version", arg=d, kw=nk)
        o = b.add(op="parse", arg=d, version=ver)
        b.add(op="new_version", arg=o, kw=nk)
        b.add(op="new_version", arg=o, kw=nk)
        out.append(b.case())
        b = B(None, "witness-factory")
        f = b.add(op="factory_new", kw=b.mk({"external_references": Ref(b.mk([{"source_name": "s", "external_id": "1"}]))}), opts={})
        k = b.mk({"name": "n", "identity_class": "individual", "external_references": Ref(b.mk([{"source_name": "t", "external_id": "2"}]))})
        b.add(op="factory_create", factory=f, cls=cls_name(ver, "Identity"), kw=k)
        b.add(op="factory_create", factory=f, cls=cls_name(ver, "Identity"), kw=k)
        out.append(b.case())
    return out

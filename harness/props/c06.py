"""C06 -- STIX 2.1 observable identifiers are deterministic and specification-exact.

Model: coq/Model/ScoId.v (hand-written, mirrors _generate_id / _choose_one_hash /
_make_json_serializable of stix2/base.py on top of the C16 model of the
canonicalizer); tables regenerated from /repo on every run by
translators/tr_scoid.py (live 2.1 observable registry with every class's
_id_contributing_properties, the preference chain of _choose_one_hash read from
its ast, SCO_DET_ID_NAMESPACE); specification coq/Spec/ScoIdSpec.v; theorems
coq/Props/C06.v.  Correspondence on every check: every 2.1 observable type (and
registered custom observables) constructed and parsed with generated values in
shuffled argument / dictionary orders; the id must be
type--uuid5(NS, <data string computed by the model from the object's public
property values>).  Oracle (independent of the model): an RFC 8785
implementation written in harness/props/c16.py + Python's uuid5 over the
contributing properties of the standard."""
import copy
import math
import datetime as dt
import os
import uuid

import common
from common import Broken, Violation
from props import c16
import tr_scoid

MANIFEST = {
    "text": "Coq theorems about an executable model of _generate_id/_choose_one_hash/_make_json_serializable over the C16 "
            "model of the canonicalizer, uuid5 abstract: the id depends only on the contributing properties that are "
            "present (id_only_contrib), not on argument order, the order of the contributing list, or the order of nested "
            "dictionaries / nested object members at any depth (id_order_indep_args, _contrib_list, _nested; the last "
            "unconditionally for the repaired hash fallback and, for the pinned one, when `hashes` holds a preferred "
            "algorithm), the hashed string is the RFC 8785 text of exactly the present contributing "
            "properties with one hash chosen MD5, SHA-1, SHA-256, SHA-512, else the name that sorts first "
            "(id_input_spec, id_hash_choice; the pinned code takes the first in dictionary order: refuted variant with "
            "witness), different contributing JSON values give different hashed strings (id_input_injective) and hence "
            "different ids under the explicit hypothesis that uuid5 separates the two strings (id_distinct_partial), random "
            "when none is present (id_random_when_none); generated contributing lists = STIX 2.1 part 6 lists. Source text "
            "(Props/C06Src.v): the shape of _generate_id, _make_json_serializable, the 2.1 __init__ guard, the hash chain and "
            "the namespace constant, read from the ast on every run, are the ones the model transcribes; the source's hash "
            "fallback is the repaired ByName variant (source_hash_fallback), so nested-order independence holds of the source "
            "without side condition (source_id_order_indep_nested).",
    "design_ref": "DESIGN.md 6/C06",
    "note": "Model hand-written; tables regenerated from /repo by tr_scoid (fail closed); tied to /repo by a correspondence "
            "run each check over all 18 observable types + custom observables. Trusted: Coq kernel + vm_compute, tr_scoid, "
            "the C16 trusted base (canonicalizer model), Python's uuid.uuid5 (SHA-1; collision freedom is a hypothesis of "
            "id_distinct_partial, not an axiom), Spec/ScoIdSpec.v written from the standard. The model starts from the "
            "cleaned property values (obj[key]); cleaning itself is C02's subject. id_input_injective measures 'different values' "
            "with json_of = lit_deep (sort_deep .): numbers are compared by their canonical text, which is meaningful because "
            "C16 proves that text against an independent reading of the number (es6_denotes / num_value_preserved) and that "
            "sort_deep only reorders members (sort_deep_jperm). The 'serialization round trip' clause of the property has no "
            "theorem: it is checked by the correspondence run only (serialize, drop id, parse: same id, every case). "
            "Independence from the process (hash seed) and from process history are run-time checks as well. No axioms.",
    "technique": "Coq proof over a hand-written executable model + generated tables + correspondence run + independent oracle",
}

NS = uuid.UUID("00abedb4-aa42-466c-9c01-fed23315a9b7")      # STIX 2.1 section 2.9 (not read from /repo)
PREFERRED = ["MD5", "SHA-1", "SHA-256", "SHA-512"]

# STIX 2.1 part 6, "ID Contributing Properties" (same content as coq/Spec/ScoIdSpec.v)
SPEC_CONTRIB = {
    "artifact": ["hashes", "payload_bin"],
    "autonomous-system": ["number"],
    "directory": ["path"],
    "domain-name": ["value"],
    "email-addr": ["value"],
    "email-message": ["from_ref", "subject", "body"],
    "file": ["hashes", "name", "extensions", "parent_directory_ref"],
    "ipv4-addr": ["value"],
    "ipv6-addr": ["value"],
    "mac-addr": ["value"],
    "mutex": ["name"],
    "network-traffic": ["start", "end", "src_ref", "dst_ref", "src_port", "dst_port", "protocols", "extensions"],
    "process": [],
    "software": ["name", "cpe", "swid", "vendor", "version"],
    "url": ["value"],
    "user-account": ["account_type", "user_id", "account_login"],
    "windows-registry-key": ["key", "values"],
    "x509-certificate": ["hashes", "serial_number"],
}

HEADER = """From Coq Require Import String NArith ZArith List.
From V Require Import Base.UString Base.Json Model.JcsText Model.Jcs Model.ScoId Gen.ScoIdTables Model.ScoIdRun.
From V Require Model.Timestamp.
Import ListNotations. Open Scope N_scope. Open Scope string_scope.
Notation PAny := Timestamp.PAny. Notation PSecond := Timestamp.PSecond. Notation PMilli := Timestamp.PMilli.
Notation CExact := Timestamp.CExact. Notation CMin := Timestamp.CMin.
Notation Pad4 := Timestamp.Pad4. Notation Unpadded := Timestamp.Unpadded.
"""

FINDING_HASH = "C06-hash-fallback-dict-order"
FINDING_EXT = "C06-custom-observable-extension-id"
FINDING_NONE = "C06-explicit-none-id"
VARIANTS = {"ext_before_id": True, "none_is_given": True}      # set by check() from run-time witnesses

# --------------------------------------------------------------------------
# timestamps: the text format_datetime must give, computed here from the fields


def fmt_ts(t):
    d = dt.datetime(t["y"], t["mo"], t["d"], t["h"], t["mi"], t["s"], t["us"])
    if t.get("off_s"):
        d = d - dt.timedelta(seconds=t["off_s"])
    base = "%04d-%02d-%02dT%02d:%02d:%02d" % (d.year, d.month, d.day, d.hour, d.minute, d.second)
    us = "%06d" % d.microsecond
    prec, pc = t.get("prec") or "ANY", t.get("pc") or "EXACT"
    if prec == "ANY":
        frac = us.rstrip("0")
    elif prec == "SECOND":
        frac = us.rstrip("0") if pc == "MIN" else ""
    elif prec == "MILLISECOND":
        frac = us[:3] if pc == "EXACT" else us.rstrip("0").ljust(3, "0")
    else:
        raise ValueError("unknown precision %r" % prec)
    return base + ("." + frac if frac else "") + "Z"


EPOCH = dt.datetime(1, 1, 1)
YEAR_MODE = ["Pad4"]      # set by check() from a probe of format_datetime on a year below 1000


def stamp_term(t):
    """(PStamp ym p c instant): the UTC instant in microseconds since 0001-01-01T00:00:00Z (Model/Calendar.v) and
    the precision settings; the text is then produced inside Coq by C15's model of format_datetime"""
    try:
        d = dt.datetime(t["y"], t["mo"], t["d"], t["h"], t["mi"], t["s"], t["us"])
        if t.get("off_s"):
            d = d - dt.timedelta(seconds=t["off_s"])
    except (ValueError, OverflowError):
        raise Unsupported("instant outside years 1..9999")
    inst = (d - EPOCH) // dt.timedelta(microseconds=1)
    prec = {"ANY": "PAny", "SECOND": "PSecond", "MILLISECOND": "PMilli", None: "PAny"}[t.get("prec")]
    pc = {"EXACT": "CExact", "MIN": "CMin", None: "CExact"}[t.get("pc")]
    return "(PStamp %s %s %s %s)" % (YEAR_MODE[0], prec, pc, common.coq_Z(inst))


# --------------------------------------------------------------------------
# views (tagged, from the worker) -> plain Python values / Coq pval terms

class Unsupported(Exception):
    pass


def view_to_py(t):
    """plain JSON-able value of a tagged view: timestamps as text, mappings as dicts"""
    if t is None or t is True or t is False or isinstance(t, str):
        return t
    if "s" in t:
        return c16.dec_str(t)
    if "i" in t:
        return int(t["i"])
    if "f" in t:
        return float.fromhex(t["f"]) if t["f"] not in ("nan", "inf", "-inf") else float(t["f"])
    if "t" in t:
        return fmt_ts(t["t"])
    if "a" in t:
        return [view_to_py(x) for x in t["a"]]
    if "o" in t:
        return {c16.dec_str(k): view_to_py(v) for k, v in t["o"]}
    raise Unsupported(str(t)[:80])


def view_to_pval(t):
    if t is None:
        return "PNone"
    if t is True or t is False:
        return "(PBool %s)" % common.coq_bool(t)
    if isinstance(t, str):
        return "(PStr %s)" % common.coq_ustr(t)
    if "s" in t:
        return "(PStr %s)" % common.coq_ustr(c16.dec_str(t))
    if "i" in t:
        return "(PInt %s)" % common.coq_Z(int(t["i"]))
    if "f" in t:
        x = float.fromhex(t["f"]) if t["f"] not in ("nan", "inf", "-inf") else float(t["f"])
        return "(PFloat %s)" % common.coq_ustr(repr(x))
    if "t" in t:
        return stamp_term(t["t"])
    if "a" in t:
        return "(PList %s)" % common.coq_list([view_to_pval(x) for x in t["a"]])
    if "o" in t:
        return "(PDict %s)" % common.coq_list(
            ["(%s, %s)" % (common.coq_ustr(c16.dec_str(k)), view_to_pval(v)) for k, v in t["o"]])
    raise Unsupported(str(t)[:80])


def raw_to_view(v):
    """tagged view of a raw input value (used where the constructor raises, so no object exists:
    the cleaned value of these simple inputs is the input itself)"""
    if isinstance(v, dict) and set(v) == {"t"}:
        raise Unsupported("timestamp in raw model input")
    if isinstance(v, dict) and "o" in v:
        return {"o": [[k, raw_to_view(x)] for k, x in v["o"]]}
    if isinstance(v, dict) and "a" in v:
        return {"a": [raw_to_view(x) for x in v["a"]]}
    return v


def obj_term(view_items):
    return common.coq_list(["(%s, %s)" % (common.coq_ustr(c16.dec_str(k)), view_to_pval(v)) for k, v in view_items])


# --------------------------------------------------------------------------
# the property oracle: acceptable ids of an object, from its public values

def contributing(ty, contrib, view_items):
    """-> (list of acceptable member dicts, fallback) where fallback is True when the
    hash had to be taken outside the four preferred algorithms among several"""
    d = {c16.dec_str(k): v for k, v in view_items}
    members = {}
    hash_alts = None
    for k in contrib:
        if k not in d:
            continue
        if k == "hashes" and isinstance(d[k], dict) and "o" in d[k]:
            h = view_to_py(d[k])
            pick = [n for n in PREFERRED if n in h]
            if pick:
                members[k] = {pick[0]: h[pick[0]]}
            elif h:
                hash_alts = [{n: h[n]} for n in h]
                members[k] = None
            else:
                raise Unsupported("empty hashes")
        else:
            members[k] = view_to_py(d[k])
    if hash_alts is None:
        return [members], False
    out = []
    for alt in hash_alts:
        m = dict(members)
        m["hashes"] = alt
        out.append(m)
    return out, len(hash_alts) > 1


def det_id(ty, members):
    return "%s--%s" % (ty, uuid.uuid5(NS, c16.jcs_ref(members)))


def is_uuid4_id(ty, s):
    if not s.startswith(ty + "--"):
        return False
    try:
        u = uuid.UUID(s[len(ty) + 2:])
    except ValueError:
        return False
    return u.version == 4 and str(u) == s[len(ty) + 2:]


def uuid_part(case, id_):
    """ids of one group are compared without the type prefix (custom observables are registered once per case,
    under different type names)"""
    pre = case["type"] + "--"
    return id_[len(pre):] if id_.startswith(pre) else id_


def oracle_one(case, obs):
    """-> (list of (kind, what), projection key or None, fallback flag)"""
    if "exc" in obs:
        return [], None, False
    ty = case["type"]
    contrib = case["custom"]["contrib"] if case.get("custom") else SPEC_CONTRIB[ty]
    try:
        alts, fallback = contributing(ty, contrib, obs["view"])
        for m in alts:
            if not c16.in_oracle_domain(m):
                return [], None, False
    except Unsupported:
        return [], None, False
    out = []
    if any(c16.has_nonfinite(m) for m in alts):
        # RFC 8785 has no text for NaN / Infinity: an object holding one in a contributing property cannot get a
        # specification-exact id, the library must refuse it (it raises ValueError from the canonicalizer)
        return [("nonfinite", "a NaN/Infinity inside a contributing property was hashed into the id %r instead of being "
                              "refused" % obs["id"])], None, False
    if not alts[0]:
        if not is_uuid4_id(ty, obs["id"]):
            out.append(("random", "no contributing property is present but the id %r is not %s--<UUIDv4>" % (obs["id"], ty)))
        return out, None, False
    ids = [det_id(ty, m) for m in alts]
    if case.get("id_none") and is_uuid4_id(ty, obs["id"]):
        return [("random-none", "id=None was passed (no id given) and contributing properties are present, but the id %r is a "
                                "random UUIDv4" % obs["id"])], None, False
    if obs["id"] not in ids:
        out.append(("exact", "id %r is not %s--uuid5(NS, %r)" % (obs["id"], ty, c16.jcs_ref(alts[0])[:300])))
    if "rt_id" in obs and obs["rt_id"] != obs["id"]:
        out.append(("roundtrip", "id %r becomes %r after serialize / drop id / parse" % (obs["id"], obs["rt_id"])))
    key = c16.jcs_ref(alts[0]) if len(alts) == 1 else None
    return out, key, fallback


# --------------------------------------------------------------------------
# generators

def T(s):
    return {"t": s}


def gen_uuid(rng):
    return str(uuid.UUID(int=rng.getrandbits(128), version=4))


def ref(rng, *types):
    return "%s--%s" % (rng.choice(types), gen_uuid(rng))


TEXT_POOL = ["", "a", "foo.exe", "C:\\Windows\\System32", "/usr/bin/\u00e9t\u00e9", "line1\nline2", "tab\there", "quote\"d",
             "back\\slash", "\u20ac uro", "\U0001F600 grin", "\u0000nul", "\x1f\x7f", "caf\u00e9", "\ud7ff\ue000\uffff",
             "\U00010000\U0010FFFF", "a/b", "</script>", "\u2028\u2029", "  spaced  ", "UPPER", "1e5", "null", "true", "0"]


def gen_text(rng, nonempty=False):
    r = rng.random()
    if r < 0.55:
        s = rng.choice(TEXT_POOL)
    else:
        s = c16.gen_string(rng, 8)
    if nonempty and not s:
        s = "x"
    return s


def gen_ts(rng):
    y = rng.choice([1970, 1999, 2000, 2016, 2020, 2024, 2038, 999, 1, 9999])
    base = "%04d-%02d-%02dT%02d:%02d:%02d" % (y, rng.randrange(1, 13), rng.randrange(1, 29), rng.randrange(24),
                                                 rng.randrange(60), rng.randrange(60))
    frac = rng.choice(["", "", ".0", ".5", ".000", ".123", ".120", ".100000", ".123456", ".000001", ".999999", ".1234", ".12"])
    return T(base + frac + "Z")


HEX = "0123456789abcdef"


def hexs(rng, n):
    return "".join(rng.choice(HEX) for _ in range(n))


HASH_GEN = {
    "MD5": lambda r: hexs(r, 32), "SHA-1": lambda r: hexs(r, 40), "SHA-256": lambda r: hexs(r, 64),
    "SHA-512": lambda r: hexs(r, 128), "SHA3-256": lambda r: hexs(r, 64), "SHA3-512": lambda r: hexs(r, 128),
    "SSDEEP": lambda r: "%d:%s:%s" % (r.choice([3, 96, 1536]), hexs(r, 12), hexs(r, 8)),
    "TLSH": lambda r: hexs(r, 70),
}


def gen_hashes(rng, force_fallback=False):
    names = list(HASH_GEN)
    if force_fallback or rng.random() < 0.25:
        names = ["SHA3-256", "SHA3-512", "SSDEEP", "TLSH"]
    k = rng.choice([1, 1, 2, 2, 3, 4])
    pick = rng.sample(names, min(k, len(names)))
    return {"o": [[n, HASH_GEN[n](rng)] for n in pick]}


def maybe(rng, p=0.5):
    return rng.random() < p


def O(items):
    seen, out = set(), []
    for k, v in items:
        if k not in seen:           # a dict has each key once
            seen.add(k)
            out.append([k, v])
    return {"o": out}


def A(items):
    return {"a": list(items)}


def I(n):
    return {"i": str(n)}


def F(x):
    return {"f": float(x).hex()}


def gen_float(rng):
    """doubles biased to where number formatting changes form: around 1e-7..1e-4 and 1e15..1e22 (the switches of
    repr and of ECMAScript notation), integers in float form, short decimals, and anything by bit pattern"""
    r = rng.random()
    if r < 0.35:
        e = rng.choice([-8, -7, -6, -5, -4, -3, 15, 16, 17, 20, 21, 22])
        m = rng.choice([1.0, 1.5, 2.5, 9.99, 1.2345678, 9.999999999999999])
        x = float("%re%d" % (m, e))
    elif r < 0.5:
        lo, hi = rng.choice([(1e-8, 1e-4), (1e14, 1e23)])
        x = math.exp(rng.uniform(math.log(lo), math.log(hi)))
    elif r < 0.65:
        x = float(rng.randrange(0, 10 ** rng.randrange(1, 17)))
    elif r < 0.85:
        x = rng.randrange(1, 10 ** rng.randrange(1, 8)) / 10 ** rng.randrange(0, 12)
    else:
        x = c16.bits_to_float((rng.randrange(1, 2046) << 52) | rng.getrandbits(52))
    return -x if rng.random() < 0.2 else x


# integers that are exactly doubles but beyond 2^53 / at and beyond 10^21: the canonical text of such an int is the
# ECMAScript text of the double (9223372036854776000, 1e+21), not its digits
BIG_EXACT = [2 ** 53, 2 ** 53 + 2, 2 ** 63, 2 ** 64, 10 ** 21, 10 ** 22, 2 ** 70, 3 * 2 ** 60, 2 ** 62 + 2 ** 20, 123456789012345680000]


def gen_big_int(rng, signed=False):
    z = rng.choice(BIG_EXACT + [2 ** rng.randrange(53, 100)])
    return -z if signed and rng.random() < 0.3 else z


def gen_common_noncontrib(rng):
    out = []
    if maybe(rng, 0.3):
        out.append(("defanged", maybe(rng)))
    if maybe(rng, 0.2):
        out.append(("object_marking_refs", A([ref(rng, "marking-definition") for _ in range(rng.choice([1, 2]))])))
    return out


UNREG_EXT = "x-verif-unreg-ext"


def gen_json_dict(rng, depth=2):
    """a dictionary as only an unregistered (custom) extension can hold it: arbitrary Unicode member names -- keys
    that order differently in UTF-16 and in code point order, other non-ASCII keys, escapes -- nested values"""
    items = []
    n = rng.choice([1, 2, 2, 3, 4, 5])
    if rng.random() < 0.5:
        # one name above U+FFFF next to one in U+E000..U+FFFF, sharing a (possibly empty) prefix
        pre = rng.choice(["", "", "a", "\uffff", "k_"])
        items.append((pre + rng.choice(["\U00010000", "\U0001F600", "\U0010FFFF", "\U0001D306"]), I(rng.randrange(100))))
        items.append((pre + rng.choice(["\ue000", "\uffff", "\ufb33", "\uff61", "\uffe0"]), gen_text(rng)))
    for _ in range(n):
        k = c16.gen_key(rng)
        r = rng.random()
        if depth > 0 and r < 0.25:
            v = gen_json_dict(rng, depth - 1)
        elif r < 0.4:
            v = A([rng.choice([gen_text(rng), I(rng.randrange(-5, 1000)), maybe(rng)]) for _ in range(rng.choice([1, 2, 3]))])
        elif r < 0.55:
            v = I(rng.choice([rng.randrange(-10 ** 6, 10 ** 6), rng.randrange(-10 ** 6, 10 ** 6), gen_big_int(rng, True)]))
        elif r < 0.7:
            v = F(gen_float(rng))
        elif r < 0.8:
            v = maybe(rng)
        else:
            v = gen_text(rng)
        items.append((k, v))
    rng.shuffle(items)
    return O(items)


def has_unreg(v):
    if isinstance(v, dict) and "o" in v:
        return any(k == UNREG_EXT or has_unreg(x) for k, x in v["o"])
    if isinstance(v, dict) and "a" in v:
        return any(has_unreg(x) for x in v["a"])
    return False


def with_unreg(rng, exts, p=0.35):
    """add an unregistered extension (kept as a plain dict under allow_custom) to an `extensions` value"""
    if rng.random() >= p:
        return exts
    items = list(exts["o"]) if exts else []
    items.append([UNREG_EXT, gen_json_dict(rng)])
    rng.shuffle(items)
    return {"o": items}


def file_ext(rng):
    exts = []
    if maybe(rng, 0.4):
        ads = []
        for _ in range(rng.choice([1, 2])):
            a = [("name", gen_text(rng, True))]
            if maybe(rng):
                a.append(("hashes", gen_hashes(rng)))
            if maybe(rng):
                a.append(("size", I(rng.randrange(0, 10 ** 6))))
            ads.append(O(a))
        e = [("alternate_data_streams", A(ads))]
        if maybe(rng):
            e.insert(0, ("sid", gen_text(rng)))
        exts.append(("ntfs-ext", O(e)))
    if maybe(rng, 0.3):
        e = [("version", rng.choice(["1.4", "1.7", "2.0"]))]
        if maybe(rng):
            e.append(("is_optimized", maybe(rng)))
        if maybe(rng):
            e.append(("document_info_dict", O([(rng.choice(["Title", "Author", "Producer", "k_%d" % i]), gen_text(rng))
                                                for i in range(rng.choice([1, 2, 3]))])))
        if maybe(rng):
            e.append(("pdfid0", hexs(rng, 32).upper()))
        exts.append(("pdf-ext", O(e)))
    if maybe(rng, 0.3):
        e = []
        if maybe(rng):
            e.append(("image_height", I(rng.randrange(1, 10000))))
        if maybe(rng):
            e.append(("image_width", I(rng.randrange(1, 10000))))
        if maybe(rng):
            e.append(("bits_per_pixel", I(rng.choice([1, 8, 24, 32]))))
        tags = [("Make", gen_text(rng)), ("XResolution", I(rng.randrange(1, 10 ** 7))), ("Model", gen_text(rng)),
                ("Exposure", F(gen_float(rng)))]
        rng.shuffle(tags)
        e.append(("exif_tags", O(tags[:rng.choice([1, 2, 3, 4])])))
        exts.append(("raster-image-ext", O(e)))
    if maybe(rng, 0.3):
        secs = []
        for _ in range(rng.choice([1, 2])):
            s = [("name", gen_text(rng, True))]
            if maybe(rng):
                s.append(("size", I(rng.randrange(0, 10 ** 6))))
            if maybe(rng, 0.7):
                s.append(("entropy", F(rng.choice([0.0, 7.99, gen_float(rng), gen_float(rng)]))))
            if maybe(rng):
                s.append(("hashes", gen_hashes(rng)))
            secs.append(O(s))
        e = [("pe_type", rng.choice(["exe", "dll", "sys"]))]
        if maybe(rng):
            e.append(("imphash", hexs(rng, 32)))
        if maybe(rng):
            e.append(("number_of_sections", I(len(secs))))
        if maybe(rng):
            e.append(("time_date_stamp", gen_ts(rng)))
        if maybe(rng):
            e.append(("machine_hex", hexs(rng, 4)))
        if maybe(rng):
            oh = [("magic_hex", hexs(rng, 4)), ("size_of_code", I(rng.randrange(0, 10 ** 6))),
                  ("major_linker_version", I(rng.randrange(0, 20))), ("image_base", I(rng.choice([4194304, 2 ** 32, gen_big_int(rng)]))),
                  ("size_of_image", I(gen_big_int(rng)))]
            rng.shuffle(oh)
            e.append(("optional_header", O(oh[:rng.choice([1, 2, 3, 5])])))
        e.append(("sections", A(secs)))
        exts.append(("windows-pebinary-ext", O(e)))
    if maybe(rng, 0.2):
        e = [("contains_refs", A([ref(rng, "file", "directory") for _ in range(rng.choice([1, 2]))]))]
        if maybe(rng):
            e.append(("comment", gen_text(rng)))
        exts.append(("archive-ext", O(e)))
    rng.shuffle(exts)
    return with_unreg(rng, O(exts) if exts else None)


def nt_ext(rng):
    exts = []
    if maybe(rng, 0.4):
        e = [("request_method", rng.choice(["get", "post", "head"])), ("request_value", gen_text(rng, True))]
        if maybe(rng):
            e.append(("request_version", rng.choice(["http/1.1", "http/2"])))
        if maybe(rng):
            e.append(("request_header", O([("Accept-Encoding", A(["gzip,deflate"])), ("User-Agent", A([gen_text(rng)])),
                                           ("Host", A(["www.example.com"]))][:rng.choice([1, 2, 3])])))
        if maybe(rng):
            e.append(("message_body_length", I(rng.randrange(0, 10 ** 5))))
        exts.append(("http-request-ext", O(e)))
    if maybe(rng, 0.3):
        exts.append(("icmp-ext", O([("icmp_type_hex", hexs(rng, 2).upper()), ("icmp_code_hex", hexs(rng, 2).upper())])))
    if maybe(rng, 0.3):
        e = [("address_family", rng.choice(["AF_INET", "AF_INET6", "AF_IPX"]))]
        if maybe(rng):
            e.append(("is_listening", maybe(rng)))
        if maybe(rng):
            e.append(("options", O([("SO_KEEPALIVE", I(1)), ("SO_RCVBUF", I(rng.choice([rng.randrange(0, 65536), gen_big_int(rng)]))),
                                    ("SO_LINGER", I(0))][:rng.choice([1, 2, 3])])))
        if maybe(rng):
            e.append(("socket_type", rng.choice(["SOCK_STREAM", "SOCK_DGRAM"])))
        if maybe(rng):
            e.append(("socket_descriptor", I(rng.randrange(0, 1000))))
        exts.append(("socket-ext", O(e)))
    if maybe(rng, 0.3):
        e = [("src_flags_hex", hexs(rng, 2)), ("dst_flags_hex", hexs(rng, 2))]
        exts.append(("tcp-ext", O(e[:rng.choice([1, 2])])))
    rng.shuffle(exts)
    return with_unreg(rng, O(exts) if exts else None)


def build(rng, ty):
    """-> (contributing items, non-contributing items, required non-contributing items)"""
    c, n, req = [], [], []
    if ty == "artifact":
        if maybe(rng, 0.6):
            c.append(("payload_bin", rng.choice(["iVBORw0KGgoAAAANSUhEUgAAAAE=", "aGVsbG8gd29ybGQ=", "AA==", "Zm9v"])))
            if maybe(rng):
                c.append(("hashes", gen_hashes(rng)))
        else:
            req.append(("url", "https://example.com/" + hexs(rng, 6)))
            c.append(("hashes", gen_hashes(rng)))
        if maybe(rng):
            n.append(("mime_type", rng.choice(["image/png", "application/zip", "text/plain"])))
        if maybe(rng, 0.3):
            n.append(("encryption_algorithm", rng.choice(["AES-256-GCM", "ChaCha20-Poly1305", "mime-type-indicated"])))
            n.append(("decryption_key", gen_text(rng)))
    elif ty == "autonomous-system":
        c.append(("number", I(rng.choice([0, 1, 15139, 65535, 4294967295, rng.randrange(0, 2 ** 32), gen_big_int(rng)]))))
        if maybe(rng):
            n.append(("name", gen_text(rng)))
        if maybe(rng):
            n.append(("rir", rng.choice(["ARIN", "RIPE", "APNIC"])))
    elif ty == "directory":
        c.append(("path", gen_text(rng, True)))
        if maybe(rng, 0.3):
            n.append(("path_enc", rng.choice(["utf-8", "windows-1252", "Shift_JIS"])))
        for k in ("ctime", "mtime", "atime"):
            if maybe(rng, 0.3):
                n.append((k, gen_ts(rng)))
        if maybe(rng, 0.3):
            n.append(("contains_refs", A([ref(rng, "file", "directory") for _ in range(rng.choice([1, 2, 3]))])))
    elif ty in ("domain-name", "ipv4-addr", "ipv6-addr", "mac-addr", "url", "email-addr"):
        val = {"domain-name": lambda: rng.choice(["example.com", "xn--bcher-kva.example", gen_text(rng, True)]),
               "ipv4-addr": lambda: rng.choice(["198.51.100.3", "10.0.0.0/8", "0.0.0.0"]),
               "ipv6-addr": lambda: rng.choice(["2001:0db8:85a3:0000:0000:8a2e:0370:7334", "::1", "2001:db8::/96"]),
               "mac-addr": lambda: ":".join(hexs(rng, 2) for _ in range(6)),
               "url": lambda: rng.choice(["https://example.com/research/index.html", "http://x.test/?q=" + gen_text(rng)]),
               "email-addr": lambda: rng.choice(["john@example.com", gen_text(rng, True) + "@example.org"])}[ty]()
        c.append(("value", val))
        if ty == "domain-name" and maybe(rng, 0.4):
            n.append(("resolves_to_refs", A([ref(rng, "ipv4-addr", "ipv6-addr", "domain-name") for _ in range(rng.choice([1, 2]))])))
        if ty in ("ipv4-addr", "ipv6-addr") and maybe(rng, 0.4):
            n.append(("resolves_to_refs", A([ref(rng, "mac-addr")])))
        if ty in ("ipv4-addr", "ipv6-addr") and maybe(rng, 0.3):
            n.append(("belongs_to_refs", A([ref(rng, "autonomous-system")])))
        if ty == "email-addr":
            if maybe(rng):
                n.append(("display_name", gen_text(rng)))
            if maybe(rng, 0.3):
                n.append(("belongs_to_ref", ref(rng, "user-account")))
    elif ty == "email-message":
        req.append(("is_multipart", False))
        if maybe(rng, 0.7):
            c.append(("from_ref", ref(rng, "email-addr")))
        if maybe(rng, 0.7):
            c.append(("subject", gen_text(rng)))
        if maybe(rng, 0.6):
            c.append(("body", gen_text(rng)))
        if maybe(rng, 0.4):
            n.append(("date", gen_ts(rng)))
        if maybe(rng, 0.3):
            n.append(("content_type", "text/plain"))
        if maybe(rng, 0.3):
            n.append(("to_refs", A([ref(rng, "email-addr") for _ in range(rng.choice([1, 2]))])))
        if maybe(rng, 0.3):
            n.append(("message_id", "<" + hexs(rng, 8) + "@example.com>"))
        if maybe(rng, 0.3):
            n.append(("additional_header_fields", O([("Reply-To", A(["a@example.com", "b@example.com"])),
                                                      ("X-Mailer", A([gen_text(rng)]))][:rng.choice([1, 2])])))
    elif ty == "file":
        r = rng.random()
        if r < 0.7:
            c.append(("name", gen_text(rng, True)))
        if r > 0.4:
            c.append(("hashes", gen_hashes(rng)))
        if maybe(rng, 0.3):
            c.append(("parent_directory_ref", ref(rng, "directory")))
        e = file_ext(rng) if maybe(rng, 0.5) else None
        if e:
            c.append(("extensions", e))
        if maybe(rng):
            n.append(("size", I(rng.randrange(0, 10 ** 9))))
        if maybe(rng, 0.2):
            n.append(("name_enc", "windows-1252"))
        if maybe(rng, 0.2):
            n.append(("magic_number_hex", hexs(rng, 8)))
        if maybe(rng, 0.3):
            n.append(("mime_type", "application/msword"))
        for k in ("ctime", "mtime", "atime"):
            if maybe(rng, 0.2):
                n.append((k, gen_ts(rng)))
        if maybe(rng, 0.2):
            n.append(("content_ref", ref(rng, "artifact")))
    elif ty == "mutex":
        c.append(("name", gen_text(rng, True)))
    elif ty == "network-traffic":
        c.append(("protocols", A(rng.sample(["ipv4", "tcp", "http", "udp", "dns", "ipv6", "ssl"], rng.choice([1, 2, 3])))))
        r = rng.random()
        if r < 0.7:
            c.append(("src_ref", ref(rng, "ipv4-addr", "ipv6-addr", "mac-addr", "domain-name")))
        if r > 0.4:
            c.append(("dst_ref", ref(rng, "ipv4-addr", "ipv6-addr", "mac-addr", "domain-name")))
        if maybe(rng, 0.5):
            y = rng.choice([2000, 2016, 2020])
            start = "%04d-%02d-%02dT%02d:%02d:%02d%sZ" % (y, rng.randrange(1, 13), rng.randrange(1, 29), rng.randrange(24),
                                                          rng.randrange(60), rng.randrange(60),
                                                          rng.choice(["", ".5", ".000", ".123456", ".120"]))
            c.append(("start", T(start)))
            if maybe(rng):
                c.append(("end", T("%04d-01-01T00:00:00%sZ" % (y + 1, rng.choice(["", ".000", ".001", ".1"])))))
                n.append(("is_active", False))
        if maybe(rng):
            c.append(("src_port", I(rng.choice([0, 80, 443, 65535, rng.randrange(0, 65536)]))))
        if maybe(rng):
            c.append(("dst_port", I(rng.choice([0, 80, 443, 65535, rng.randrange(0, 65536)]))))
        e = nt_ext(rng) if maybe(rng, 0.5) else None
        if e:
            c.append(("extensions", e))
        for k in ("src_byte_count", "dst_byte_count", "src_packets", "dst_packets"):
            if maybe(rng, 0.25):
                n.append((k, I(rng.randrange(0, 10 ** 7))))
        if maybe(rng, 0.2):
            n.append(("ipfix", O([("minimumIpTotalLength", I(32)), ("maximumIpTotalLength", I(2556))])))
    elif ty == "process":
        if maybe(rng, 0.7):
            n.append(("pid", I(rng.randrange(0, 10 ** 5))))
        if maybe(rng, 0.6) or not n:
            n.append(("command_line", gen_text(rng)))
        if maybe(rng, 0.3):
            n.append(("created_time", gen_ts(rng)))
        if maybe(rng, 0.3):
            n.append(("environment_variables", O([("PATH", gen_text(rng)), ("HOME", "/root")])))
        req, n = n[:1], n[1:]
    elif ty == "software":
        c.append(("name", gen_text(rng, True)))
        if maybe(rng, 0.4):
            c.append(("cpe", "cpe:2.3:a:microsoft:word:2000:*:*:*:*:*:*:*"))
        if maybe(rng, 0.3):
            c.append(("swid", gen_text(rng)))
        if maybe(rng, 0.5):
            c.append(("vendor", gen_text(rng)))
        if maybe(rng, 0.5):
            c.append(("version", rng.choice(["2002", "1.0.0", gen_text(rng)])))
        if maybe(rng, 0.3):
            n.append(("languages", A(rng.sample(["en", "fr", "de", "ja"], rng.choice([1, 2])))))
    elif ty == "user-account":
        if maybe(rng, 0.6):
            c.append(("account_type", rng.choice(["unix", "windows-local", "facebook", gen_text(rng, True)])))
        if maybe(rng, 0.7):
            c.append(("user_id", gen_text(rng)))
        if maybe(rng, 0.5):
            c.append(("account_login", gen_text(rng)))
        if maybe(rng, 0.5) or not c:
            n.append(("display_name", gen_text(rng)))
        for k in ("is_service_account", "is_privileged", "can_escalate_privs", "is_disabled"):
            if maybe(rng, 0.2):
                n.append((k, maybe(rng)))
        if maybe(rng, 0.3):
            n.append(("account_created", gen_ts(rng)))
        if maybe(rng, 0.3):
            n.append(("extensions", O([("unix-account-ext", O([("gid", I(rng.randrange(0, 65536))), ("groups", A(["wheel"])),
                                                               ("home_dir", "/home/x"), ("shell", "/bin/sh")][:rng.choice([1, 2, 3, 4])]))])))
        if not c:
            req, n = n[:1], n[1:]
    elif ty == "windows-registry-key":
        if maybe(rng, 0.8):
            c.append(("key", rng.choice(["hkey_local_machine\\system\\bar\\foo", "HKEY_CURRENT_USER\\Software\\" + gen_text(rng, True)])))
        if maybe(rng, 0.6):
            vals = []
            for _ in range(rng.choice([1, 2, 3])):
                v = [("name", gen_text(rng))]
                if maybe(rng, 0.8):
                    v.append(("data", gen_text(rng)))
                if maybe(rng, 0.7):
                    v.append(("data_type", rng.choice(["REG_SZ", "REG_DWORD", "REG_BINARY", "REG_NONE"])))
                rng.shuffle(v)
                vals.append(O(v))
            c.append(("values", A(vals)))
        if maybe(rng, 0.3):
            n.append(("modified_time", gen_ts(rng)))
        if maybe(rng, 0.3) or not c:
            n.append(("number_of_subkeys", I(rng.randrange(0, 100))))
        if maybe(rng, 0.2):
            n.append(("creator_user_ref", ref(rng, "user-account")))
        if not c:
            req, n = n[:1], n[1:]
    elif ty == "x509-certificate":
        if maybe(rng, 0.6):
            c.append(("hashes", gen_hashes(rng)))
        if maybe(rng, 0.6):
            c.append(("serial_number", ":".join(hexs(rng, 2) for _ in range(rng.choice([4, 8, 16])))))
        if maybe(rng, 0.4) or not c:
            n.append(("issuer", "C=ZA, ST=Western Cape, O=" + gen_text(rng)))
        if maybe(rng, 0.3):
            n.append(("is_self_signed", maybe(rng)))
        if maybe(rng, 0.3):
            n.append(("validity_not_before", gen_ts(rng)))
        if maybe(rng, 0.3):
            n.append(("subject", "CN=" + gen_text(rng)))
        if maybe(rng, 0.2):
            n.append(("x509_v3_extensions", O([("basic_constraints", "critical,CA:TRUE"), ("key_usage", "critical")][:rng.choice([1, 2])])))
        if not c:
            req, n = n[:1], n[1:]
    else:
        raise KeyError(ty)
    n += gen_common_noncontrib(rng)
    return c, n, req


def shuffle_view(rng, v):
    """deep shuffle of dictionary orders in a tagged value"""
    if isinstance(v, dict) and "o" in v:
        items = [[k, shuffle_view(rng, x)] for k, x in v["o"]]
        rng.shuffle(items)
        return {"o": items}
    if isinstance(v, dict) and "a" in v:
        return {"a": [shuffle_view(rng, x) for x in v["a"]]}
    return v


def mutate_value(rng, v):
    """a different value of the same kind"""
    if isinstance(v, bool):
        return not v
    if isinstance(v, str):
        return v + rng.choice(["x", " ", "\u00e9", "0"])
    if isinstance(v, dict) and "i" in v:
        n = int(v["i"])
        return I(n + 1 if n < 65535 else n - 1)
    if isinstance(v, dict) and "f" in v:
        return F(float.fromhex(v["f"]) + 1.5)
    if isinstance(v, dict) and "t" in v:
        s = v["t"]
        return T(s[:17] + ("%02d" % ((int(s[17:19]) + 1) % 60)) + s[19:])
    if isinstance(v, dict) and "a" in v:
        if not v["a"]:
            return A(["x"])
        items = list(v["a"])
        i = rng.randrange(len(items))
        items[i] = mutate_value(rng, items[i])
        return A(items)
    if isinstance(v, dict) and "o" in v:
        items = [list(kv) for kv in v["o"]]
        if not items:
            return v
        i = rng.randrange(len(items))
        items[i][1] = mutate_value(rng, items[i][1])
        return {"o": items}
    return v


def hashes_fallback_multi(items):
    for k, v in items:
        if k == "hashes" and isinstance(v, dict) and "o" in v:
            names = [n for n, _ in v["o"]]
            if len(names) >= 2 and not any(n in PREFERRED for n in names):
                return True
    return False


CUSTOM_KINDS = ["str", "int", "float", "bool", "time", "dict", "liststr", "hashes"]


def gen_custom_value(rng, kind):
    if kind == "str":
        return gen_text(rng)
    if kind == "int":
        return I(rng.choice([0, -1, 7, 2 ** 31, 2 ** 53, -(2 ** 53), rng.randrange(-10 ** 9, 10 ** 9), gen_big_int(rng, True),
                             gen_big_int(rng, True)]))
    if kind == "float":
        return F(rng.choice([0.0, -0.0, 5e-324, 1.7976931348623157e308, gen_float(rng), gen_float(rng), gen_float(rng)]))
    if kind == "bool":
        return maybe(rng)
    if kind == "time":
        return gen_ts(rng)
    if kind == "dict":
        items = [("k_%s" % hexs(rng, 2), rng.choice([gen_text(rng), I(rng.randrange(100)), maybe(rng), F(gen_float(rng)),
                                                     A([gen_text(rng), I(3)]), O([("in", gen_text(rng)), ("z", I(1))])]))
                 for _ in range(rng.choice([1, 2, 3]))]
        return O(list(dict(items).items()))
    if kind == "liststr":
        return A([gen_text(rng) for _ in range(rng.choice([1, 2, 3]))])
    if kind == "hashes":
        return gen_hashes(rng)
    raise KeyError(kind)


def gen_groups(rng, tier, start_index=0):
    """-> list of groups; a group is a list of (case, relation) with relation in
    'base' | 'same' (must have the id of the base) | 'diff' (a contributing value was changed)"""
    per_type = 40 if tier != "thorough" else 400
    groups = []
    counter = [start_index]

    def mk(ty, items, mode, custom=None, allow_custom=False, raw_model=False):
        counter[0] += 1
        allow_custom = allow_custom or any(k == "extensions" and has_unreg(v) for k, v in items)
        c = {"n": counter[0], "type": ty, "mode": mode, "props": [[k, v] for k, v in items], "allow_custom": allow_custom,
             "custom": custom}
        if raw_model:
            c["raw_model"] = True
        return c

    for ty in SPEC_CONTRIB:
        for j in range(per_type):
            c, n, req = build(rng, ty)
            if ty == "file" and j % 8 == 0:
                c = [kv for kv in c if kv[0] != "hashes"] + [("hashes", gen_hashes(rng, force_fallback=True))]
            items = req + c + n
            g = [(mk(ty, items, "ctor"), "base")]
            sh = [(k, shuffle_view(rng, v)) for k, v in items]
            rng.shuffle(sh)
            g.append((mk(ty, sh, "ctor"), "same"))
            if j % 4 == 1:
                # `id=None` passed explicitly: None-valued arguments are dropped by the library, so no id was given
                cn = mk(ty, items, "ctor")
                cn["id_none"] = True
                g.append((cn, "same"))
            sh2 = [(k, shuffle_view(rng, v)) for k, v in items]
            rng.shuffle(sh2)
            g.append((mk(ty, sh2, rng.choice(["parse", "parse", "parse_text"])), "same"))
            # a change to non-contributing properties only
            c2, n2, req2 = build(rng, ty)
            keep = dict(req + c)
            extra = [(k, v) for k, v in n2 if k not in keep and k not in ("is_active",)]
            if ty == "network-traffic":
                extra = [(k, v) for k, v in extra] + [(k, v) for k, v in n if k == "is_active"]
            if ty == "artifact":
                extra = [(k, v) for k, v in extra if k not in ("encryption_algorithm", "decryption_key")] + \
                        [(k, v) for k, v in n if k in ("encryption_algorithm", "decryption_key")]
            alt = req + c + extra
            rng.shuffle(alt)
            g.append((mk(ty, alt, rng.choice(["ctor", "parse"])), "same"))
            # a change to one contributing value
            if c:
                i = rng.randrange(len(c))
                k, v = c[i]
                if k == "hashes":
                    v2 = gen_hashes(rng)
                elif k.endswith("_ref"):
                    v2 = v[:-1] + ("0" if v[-1] != "0" else "1")
                elif k == "extensions":
                    v2 = mutate_value(rng, v)
                elif k == "end":
                    v2 = T(v["t"][:3] + "9" + v["t"][4:])
                elif k == "protocols":
                    v2 = A(v["a"] + ["icmp"])
                elif k == "payload_bin":
                    v2 = "Zm9vYmFy"
                elif k == "cpe":
                    v2 = "cpe:2.3:a:microsoft:word:2003:*:*:*:*:*:*:*"
                else:
                    v2 = mutate_value(rng, v)
                c3 = c[:i] + [(k, v2)] + c[i + 1:]
                g.append((mk(ty, req + c3 + n, "ctor"), "diff"))
            groups.append(g)

    # custom observables
    n_custom = 60 if tier != "thorough" else 600
    for j in range(n_custom):
        counter[0] += 1
        ty = "x-verif-%d" % counter[0]
        kinds = [rng.choice(CUSTOM_KINDS) for _ in range(rng.choice([1, 2, 3, 4, 5]))]
        names, props = [], []
        for i, kd in enumerate(kinds):
            nm = "hashes" if kd == "hashes" and "hashes" not in names else "p%d_%s" % (i, kd)
            if kd == "hashes" and nm != "hashes":
                kd = "str"
            names.append(nm)
            props.append([nm, kd])
        contrib = [nm for nm in names if maybe(rng, 0.6)]
        if maybe(rng, 0.2):
            rng.shuffle(contrib)
        given = contrib
        if maybe(rng, 0.12):
            given, contrib = None, []          # id_contrib_props not passed: the builder's default
        present = [(nm, kd) for nm, kd in props if maybe(rng, 0.8)]
        items = [(nm, gen_custom_value(rng, kd)) for nm, kd in present]
        if not items:
            items = [(props[0][0], gen_custom_value(rng, props[0][1]))]
        if maybe(rng, 0.3):
            # every custom observable has the common `extensions` property; it may be listed as contributing
            items.append(("extensions", O([(UNREG_EXT, gen_json_dict(rng))])))
            if given is not None and maybe(rng, 0.8):
                contrib = contrib + ["extensions"]
                given = contrib
        ext_name = None
        if maybe(rng, 0.3):
            # declared with extension_name=...: every instance carries that extension; `extensions` may contribute
            ext_name = "extension-definition--%s" % gen_uuid(rng)
            if given is not None and "extensions" not in contrib and maybe(rng, 0.8):
                contrib = contrib + ["extensions"]
                given = contrib
        g = []
        for rel, order in (("base", items), ("same", [(k, shuffle_view(rng, v)) for k, v in rng.sample(items, len(items))])):
            counter[0] += 1
            t2 = "x-verif-%d" % counter[0]
            cu = {"props": props, "contrib": contrib, "given": given}
            if ext_name:
                # one extension definition per registered class (registration is per case)
                cu["extension_name"] = "extension-definition--%s" % uuid.uuid5(NS, "%s/%s" % (ext_name, t2))
            g.append((mk(t2, order, rng.choice(["ctor", "parse"]), custom=cu, allow_custom=True), rel))
        groups.append(g)

    # numbers inside contributing properties, over the branch structure of the number formatter: one double per
    # decade 1e-9..1e-3 and 1e14..1e23 (the notation switches of repr and of ECMAScript), with 1, 2 and 17 digits,
    # as a section entropy of a file's windows-pebinary-ext and as a contributing float of a custom observable
    decades = list(range(-9, -2)) + list(range(14, 24)) if tier != "thorough" else list(range(-30, 31))
    for e in decades:
        for mant in ("1", "2.5", "9.999999999999999", "%.16f" % (1 + rng.random() * 8.9)):
            x = float("%se%d" % (mant, e)) * rng.choice([1, 1, -1])
            items = [("name", "pe-%d" % e),
                     ("extensions", O([("windows-pebinary-ext", O([("pe_type", "exe"), ("sections", A([O([("name", ".text"), ("entropy", F(x))])]))]))]))]
            groups.append([(mk("file", items, "ctor"), "base"), (mk("file", list(reversed(items)), "parse"), "same")])
            counter[0] += 1
            ty = "x-verif-%d" % counter[0]
            groups.append([(mk(ty, [("val_f", F(x)), ("val_q", I(int(x)) if abs(x) < 2 ** 53 else "big")], rng.choice(["ctor", "parse"]),
                               custom={"props": [["val_f", "float"], ["val_q", "int" if abs(x) < 2 ** 53 else "str"]], "contrib": ["val_f", "val_q"]},
                               allow_custom=True), "base")])

    # exceptions raised inside _generate_id (no object exists: the model is fed the raw input)
    for bad, kind in ((O([("a", None)]), "dict"), (O([("a", O([("b", A([I(1), None]))]))]), "dict"),
                      ({"f": "nan"}, "float"), ({"f": "inf"}, "float"), ({"f": "-inf"}, "float"),
                      (I(10 ** 400), "int"), (I(-(2 ** 1024)), "int")):
        for contrib in (["val"], []):
            counter[0] += 1
            ty = "x-verif-%d" % counter[0]
            groups.append([(mk(ty, [("val", bad)], "ctor", custom={"props": [["val", kind]], "contrib": contrib},
                               allow_custom=True, raw_model=True), "base")])
    return groups


# --------------------------------------------------------------------------
# variant selection

W_H1 = {"o": [["SHA3-256", "a" * 64], ["SSDEEP", "96:abc:def"]]}
W_H2 = {"o": [["SSDEEP", "96:abc:def"], ["SHA3-256", "a" * 64]]}


def witness_cases():
    return [{"n": -1, "type": "file", "mode": "ctor", "props": [["hashes", W_H1]], "allow_custom": False, "custom": None},
            {"n": -2, "type": "file", "mode": "ctor", "props": [["hashes", W_H2]], "allow_custom": False, "custom": None}]


def select_variant(obs):
    a, b = obs
    if "exc" in a or "exc" in b:
        return None, "witness construction raised %s" % (a.get("exc") or b.get("exc"))
    by_name = det_id("file", {"hashes": {"SHA3-256": "a" * 64}})
    ssdeep = det_id("file", {"hashes": {"SSDEEP": "96:abc:def"}})
    if a["id"] == by_name and b["id"] == ssdeep:
        return "ByDictOrder", None
    if a["id"] == by_name and b["id"] == by_name:
        return "ByName", None
    return None, "witness ids %s / %s match neither variant" % (a["id"], b["id"])


# --------------------------------------------------------------------------

def run_cases(cases):
    return common.run_impl("c06_impl", cases)


def run_cases_other_process(cases, hashseed):
    """the same cases in a fresh interpreter with another PYTHONHASHSEED (ids must not depend on the process)"""
    import json
    import subprocess
    env = common.impl_env()
    env["PYTHONHASHSEED"] = str(hashseed)
    if hashseed:
        env["TZ"] = "JST-9" if hashseed % 2 else "EST5EDT"      # a non-UTC POSIX zone: ids must not depend on it
        env["VERIF_NO_JSON_ACCEL"] = "1"                        # and without the C accelerator of the json module
    script = os.path.join(common.VERIF, "harness", "impl", "c06_impl.py")
    p = subprocess.run([common.PY, script], input="\n".join(json.dumps(c) for c in cases) + "\n", stdout=subprocess.PIPE,
                       stderr=subprocess.PIPE, text=True, env=env, timeout=1800, cwd=common.scratch())
    if p.returncode != 0:
        raise RuntimeError("c06_impl failed under PYTHONHASHSEED=%s:\n%s" % (hashseed, p.stderr[-1500:]))
    return [json.loads(l) for l in p.stdout.split("\n") if l.strip()]


def process_violations(cases, obs, rng, n=400):
    idx = [i for i, o in enumerate(obs) if "id" in o and not is_uuid4_id(cases[i]["type"], o["id"])]
    idx = rng.sample(idx, min(n, len(idx)))
    if not idx:
        return [], 0
    other = run_cases_other_process([cases[i] for i in idx], rng.randrange(1, 2 ** 31))
    out = []
    for i, o2 in zip(idx, other):
        if o2.get("id") != obs[i]["id"]:
            out.append(Violation("the id depends on the process: %s with PYTHONHASHSEED=0, %s with another hash seed"
                                 % (obs[i]["id"], o2.get("id") or o2.get("exc")), {"kind": "process", "cases": [cases[i]]}))
    return out, len(idx)


HIST_OPS = ["new_version_obj", "new_version_dict", "revoke_obj", "revoke_dict", "reparse", "deepcopy", "register"]


def history_lines(cases, obs, rng, per_type=3):
    """one interpreter, one long history: for every observable type, ask some ids, run library operations on
    objects and dicts of that class (new_version, revoke, parse, deepcopy, a registration), ask the same ids again;
    finally read every class's _id_contributing_properties.  -> (lines, indices of the asked cases in `cases`)"""
    by_type = {}
    for i, (c, o) in enumerate(zip(cases, obs)):
        if "id" in o and not c.get("custom") and not is_uuid4_id(c["type"], o["id"]):
            by_type.setdefault(c["type"], []).append(i)
    lines, asked = [], []
    for ty in sorted(by_type):
        idx = rng.sample(by_type[ty], min(per_type, len(by_type[ty])))
        for i in idx:
            lines.append(cases[i]); asked.append(i)
        ops = list(HIST_OPS)
        rng.shuffle(ops)
        for k, op in enumerate(ops):
            lines.append({"hist": {"op": op, "case": cases[idx[k % len(idx)]], "n": len(lines)}}); asked.append(None)
        for i in idx:
            lines.append(cases[i]); asked.append(i)
    # and once more across all types, after every class has seen its operations
    for ty in sorted(by_type):
        i = rng.choice(by_type[ty])
        lines.append(cases[i]); asked.append(i)
    lines.append({"probe": "contrib_tables"}); asked.append(None)
    return lines, asked


def history_violations(cases, obs, rng, table):
    lines, asked = history_lines(cases, obs, rng)
    if not lines:
        return [], 0, {}
    res = run_cases_other_process(lines, 0)
    out, n, ops = [], 0, {}
    for k, (ln, i, r) in enumerate(zip(lines, asked, res)):
        if "hist" in ln:
            ops[r.get("hist", "?")] = ops.get(r.get("hist", "?"), 0) + 1
        elif i is not None:
            n += 1
            if r.get("id") != obs[i]["id"]:
                # the shortest history that shows it: everything before this line
                out.append(Violation(
                    "the id depends on what the process did before: %s in a fresh interpreter, %s after %d earlier "
                    "library operations (new_version / revoke / parse / deepcopy / registration) in the same interpreter"
                    % (obs[i]["id"], r.get("id") or r.get("exc"), sum(1 for x in lines[:k] if "hist" in x)),
                    {"kind": "history", "cases": [], "lines": lines[:k + 1], "ask": cases[i]}))
                if len(out) >= 3:
                    break
        elif "tables" in r and table is not None:
            live = r["tables"]
            diff = {ty: (table.get(ty), live.get(ty)) for ty in set(table) | set(live) if table.get(ty) != live.get(ty)}
            if diff:
                ty = sorted(diff)[0]
                out.append(Violation(
                    "%s._id_contributing_properties is %r at the end of the run, it was %r when the process started"
                    % (ty, diff[ty][1], diff[ty][0]), {"kind": "history", "cases": [], "lines": lines, "ask": None}))
    return out, n, ops


def model_terms(cases, obs, hp):
    terms, idx = [], []
    for i, (c, o) in enumerate(zip(cases, obs)):
        try:
            if "view" in o:
                items = model_view(c, o["view"])
            elif c.get("raw_model"):
                items = [[k, raw_to_view(v)] for k, v in c["props"]]
            else:
                continue
            ot = obj_term(items)
        except Unsupported:
            continue
        if c.get("custom"):
            given = c["custom"].get("given", c["custom"]["contrib"])
            t = "run_id_custom %s %s %s %s" % (hp, common.coq_ustr(c["type"]),
                                               common.coq_option(None if given is None else
                                                                 common.coq_list([common.coq_ustr(x) for x in given])), ot)
        else:
            t = "run_id %s %s %s" % (hp, common.coq_ustr(c["type"]), ot)
        terms.append(t)
        idx.append(i)
    return terms, idx


def model_view(case, items):
    """the property values as _generate_id saw them: on a tree where a custom observable's own extension is added after the
    id was computed (variant ext_before_id), that extension is not there yet"""
    cu = case.get("custom") or {}
    ext = cu.get("extension_name")
    if not (ext and VARIANTS["ext_before_id"]):
        return items
    out = []
    for k, v in items:
        if c16.dec_str(k) == "extensions" and isinstance(v, dict) and "o" in v:
            rest = [kv for kv in v["o"] if c16.dec_str(kv[0]) != ext]
            if not rest and not any(kk == "extensions" for kk, _ in case["props"]):
                continue                     # the dictionary itself was inserted together with the extension
            v = {"o": rest}
        out.append([k, v])
    return out


def compare_model(case, o, line):
    """None if the model line agrees with the observation, else a description"""
    if case.get("id_none") and VARIANTS["none_is_given"] and "id" in o:
        # on this tree an explicit None counts as a given id: _generate_id is not called, the uuid4 default stays
        return None if is_uuid4_id(case["type"], o["id"]) else "id=None: expected the uuid4 default of this variant, got %s" % o["id"]
    if line.startswith("EXC OutOfModel") or line == "NOTYPE":
        return "skip"
    if "exc" in o:
        return None if line == "EXC " + o["exc"] else "impl raised %s, model: %s" % (o["exc"], line[:200])
    if line == "RANDOM":
        return None if is_uuid4_id(case["type"], o["id"]) else "model: no contributing property present (random id); impl id %s" % o["id"]
    if line.startswith("DET "):
        data = common.ustr_unescape(line[4:])
        want = "%s--%s" % (case["type"], uuid.uuid5(NS, data))
        return None if want == o["id"] else "impl id %s; model hashes %r -> %s" % (o["id"], data[:300], want)
    return "impl id %s; model: %s" % (o.get("id"), line[:200])


def evaluate(groups, hp, run=None, tag="c06"):
    """run all cases; -> (cases, obs, correspondence disagreements, violations, stats)"""
    cases = [c for g in groups for c, _ in g]
    obs = run_cases(cases)
    dis, skipped, compared = [], 0, 0
    if hp is not None:
        terms, idx = model_terms(cases, obs, hp)
        lines = c16.eval_terms(tag, HEADER, terms, max_chars=30000, max_terms=200)
        for i, line in zip(idx, lines):
            r = compare_model(cases[i], obs[i], line)
            if r == "skip":
                skipped += 1
            elif r is not None:
                dis.append({"case": cases[i], "impl": {k: v for k, v in obs[i].items() if k != "view"}, "model": r})
            else:
                compared += 1
    vio = []
    by_proj = {}
    pos = 0
    stats = {"ok": 0, "exc": 0, "random": 0, "fallback_multi": 0}
    oracle_errors = []
    for g in groups:
        base_case, base_obs, base_key = None, None, None
        for c, rel in g:
            o = obs[pos]
            pos += 1
            if "exc" in o:
                stats["exc"] += 1
            else:
                stats["ok"] += 1
            try:
                fails, key, fallback = oracle_one(c, o)
            except Exception as e:  # noqa: BLE001 -- the oracle must not stop the check: report the case, go on
                fails, key, fallback = [], None, False
                oracle_errors.append({"case": c, "error": "%s: %s" % (type(e).__name__, str(e)[:200])})
            fb_multi = hashes_fallback_multi(c["props"])
            if fb_multi:
                stats["fallback_multi"] += 1
            for kind, what in fails:
                finding = None
                cu = c.get("custom") or {}
                if cu.get("extension_name") and "extensions" in cu.get("contrib", []) and kind in ("exact", "roundtrip"):
                    finding = FINDING_EXT        # the id was computed before the class's own extension was added
                if c.get("id_none") and kind == "random-none":
                    finding = FINDING_NONE
                vio.append(Violation(what, {"kind": kind, "cases": [c]}, finding=finding))
            if "id" in o and key is None and not fails and not fallback:
                stats["random"] += 1
            if "id" in o and key is not None:
                by_proj.setdefault((c["type"], o["id"]), set()).add(key)
            if rel == "base":
                base_case, base_obs, base_key = c, o, key
            elif rel == "same" and base_obs is not None and "id" in base_obs and "id" in o \
                    and not (c.get("custom") or {}).get("extension_name"):
                contrib_present = key is not None or fallback
                if contrib_present and uuid_part(c, o["id"]) != uuid_part(base_case, base_obs["id"]):
                    finding = FINDING_HASH if (fb_multi and hashes_fallback_multi(base_case["props"])) else None
                    if c.get("id_none") and is_uuid4_id(c["type"], o["id"]):
                        finding = FINDING_NONE
                    vio.append(Violation(
                        "same contributing values, different ids: %s vs %s (argument/dictionary order or non-contributing "
                        "properties differ)" % (base_obs["id"], o["id"]),
                        {"kind": "same", "cases": [base_case, c]}, finding=finding))
    stats["oracle_errors"] = len(oracle_errors)
    for oe in oracle_errors[:3]:
        vio.append(Violation("the reference computation failed on the values this object shows (%s); its id cannot be the "
                             "specification's" % oe["error"], {"kind": "exact", "cases": [oe["case"]]}))
    for (ty, i), keys in by_proj.items():
        if len(keys) > 1:
            vio.append(Violation("different contributing values share the id %s: %s" % (i, sorted(keys)[:2]),
                                 {"kind": "collision", "cases": []}))
    return cases, obs, dis, compared, skipped, vio, stats


def check(run):
    run.coverage["rule"] = (
        "for each of the 18 STIX 2.1 observable types, objects with generated contributing and non-contributing properties "
        "(strings with escapes/BMP/astral characters, timestamps with 0-6 fraction digits, integers, nested extensions with "
        "floats, hashes dictionaries with and without the preferred algorithms, reference lists); each object is built by "
        "the constructor, by the constructor with shuffled argument and nested dictionary orders, by parse() with shuffled "
        "orders, with other non-contributing properties, and with one contributing value changed; registered custom "
        "observables with random property kinds and contributing lists; inputs on which _generate_id raises; a sample "
        "recomputed in a fresh interpreter under another PYTHONHASHSEED; a history stream (ids asked before and after "
        "new_version / revoke / parse / deepcopy / registrations in one interpreter, class attributes re-read at the end). The model "
        "receives the public property values of the constructed object and must give the string whose uuid5 is the id. "
        "Non-trivial = the object was constructed (no exception).")
    meta = None
    with common.Lock():
        try:
            text, meta = tr_scoid.translate(common.REPO, common.PY)
            common.write_if_changed(os.path.join(common.COQ, "Gen", "ScoIdTables.v"), text)
        except Exception as e:  # noqa: BLE001 -- fail closed
            run.broken.append(Broken("translator", "tr_scoid", {"error": "%s: %s" % (type(e).__name__, str(e)[-800:])}))
        res = common.build_props("Props/C06.v", extra_targets=["Model/ScoIdRun.vo"])
        run.add_build(res, "make -C coq Props/C06.vo Props/C06Src.vo (coqc 8.16.1, full .vo) + Print Assumptions per theorem")
        # the id is specified through the RFC 8785 text: C06 rests on what the source says about the canonicalizer
        c16.source_step(run)
        res2 = common.build_props("Props/C06Src.v")
        run.add_build(res2, "make -C coq Props/C06.vo Props/C06Src.vo (coqc 8.16.1, full .vo) + Print Assumptions per theorem")
    model_ok = meta is not None and os.path.exists(os.path.join(common.COQ, "Model", "ScoIdRun.vo"))

    # ---- which variant does the code match?
    probe = run_cases([{"probe": "year999"}])[0].get("text", "")
    YEAR_MODE[0] = "Pad4" if probe.startswith("0999-") else "Unpadded"
    run.coverage["year_mode"] = YEAR_MODE[0]
    ext_w = "extension-definition--%s" % uuid.uuid5(NS, "c06-witness-extension")
    vw = run_cases([
        {"n": -3, "type": "x-verif-witness-ext", "mode": "ctor", "props": [["val_a", "x"]], "allow_custom": True,
         "custom": {"props": [["val_a", "str"]], "contrib": ["val_a", "extensions"], "given": ["val_a", "extensions"],
                    "extension_name": ext_w}},
        {"n": -4, "type": "file", "mode": "ctor", "props": [["name", "a"]], "allow_custom": False, "custom": None, "id_none": True}])
    if "id" in vw[0]:
        VARIANTS["ext_before_id"] = vw[0]["id"] == det_id("x-verif-witness-ext", {"val_a": "x"})
    if "id" in vw[1]:
        VARIANTS["none_is_given"] = is_uuid4_id("file", vw[1]["id"])
    run.coverage["variants"] = dict(VARIANTS)
    wobs = run_cases(witness_cases())
    hp, why = select_variant(wobs)
    run.coverage["variant"] = hp or "none (%s)" % why
    vio = []
    if hp is None:
        run.broken.append(Broken("correspondence", "hash fallback variant", {"why": why}))
    else:
        if meta is not None and meta["pick"] != hp:
            run.broken.append(Broken("correspondence", "tr_scoid reads the else branch of _choose_one_hash as %s, the witness "
                                                        "behaves as %s" % (meta["pick"], hp), {}))
        if hp == "ByDictOrder":
            vio.append(Violation(
                "file with hashes {SHA3-256, SSDEEP} gets %s, with the same hashes in the order {SSDEEP, SHA3-256} gets %s"
                % (wobs[0]["id"], wobs[1]["id"]), {"kind": "same", "cases": witness_cases()}, finding=FINDING_HASH))
    if meta is not None:
        run.coverage["generated_tables"] = {"types": len(meta["table"]), "hash_prefs": meta["prefs"], "else": meta["pick"],
                                            "namespace": meta["namespace"]}
        if meta["namespace"] != str(NS):
            run.broken.append(Broken("obligation", "SCO_DET_ID_NAMESPACE differs from the standard's namespace", {"got": meta["namespace"]}))

    # ---- correspondence + oracle
    groups = gen_groups(run.rng, run.tier)
    try:
        cases, obs, dis, compared, skipped, v2, stats = evaluate(groups, hp if model_ok else None)
    except RuntimeError as e:
        run.broken.append(Broken("correspondence", "model evaluation failed", {"error": str(e)[-1500:]}))
        cases, obs, dis, compared, skipped, v2, stats = evaluate(groups, None)
    vio += v2
    try:
        v4, n_proc = process_violations(cases, obs, run.rng)
        vio += v4
        run.coverage["other_process_cases"] = n_proc
    except RuntimeError as e:
        run.broken.append(Broken("correspondence", "second process run failed", {"error": str(e)[-800:]}))
    try:
        v5, n_hist, hist_ops = history_violations(cases, obs, run.rng, None if meta is None else meta["table"])
        vio += v5
        run.coverage["history_asks"] = n_hist
        run.coverage["history_ops"] = hist_ops
    except RuntimeError as e:
        run.broken.append(Broken("correspondence", "history run failed", {"error": str(e)[-800:]}))
    for c, o in zip(cases, obs):
        run.count({"c": c["type"], "m": c["mode"], "p": c["props"], "cu": c["custom"]}, nontrivial="id" in o)
    run.coverage["distribution"] = stats
    run.coverage["correspondence_cases"] = compared
    run.coverage["correspondence_disagreements"] = len(dis)
    run.coverage["out_of_model"] = skipped
    by_type = {}
    for c, o in zip(cases, obs):
        k = c["type"] if not c["custom"] else "custom"
        by_type.setdefault(k, [0, 0])
        by_type[k][0 if "id" in o else 1] += 1
    run.coverage["per_type_ok_exc"] = by_type
    for i in (0, len(cases) // 2, len(cases) - 20):
        run.sample({"case": {k: cases[i][k] for k in ("type", "mode", "props")}, "impl": {k: v for k, v in obs[i].items() if k != "view"}})
    if dis:
        run.broken.append(Broken("correspondence", "Model/ScoId.v gen_id vs the id of the constructed object", {"first": dis[:5]}))

    # ---- search harder when something no longer checks and the ordinary stream found nothing new
    unlisted = [v for v in vio if v.finding is None]
    if run.broken and not unlisted:
        import random
        srng = random.Random(run.seed + 1)
        extra = []
        if meta is not None:
            # objects that hold a property on which the live table and the standard disagree
            for ty, spec in SPEC_CONTRIB.items():
                live = meta["table"].get(ty, [])
                if set(live) != set(spec):
                    for _ in range(300):
                        extra += gen_groups_for_type(srng, ty, len(extra) * 10 + 10 ** 6)
        more = gen_groups(srng, "thorough", start_index=2 * 10 ** 6)[:6000] + extra
        _, _, _, _, _, v3, _ = evaluate(more, None)
        vio += v3
        run.coverage["search_groups"] = len(more)

    seen = {}
    for v in vio:
        k = (v.replay["kind"], v.finding)
        seen[k] = seen.get(k, 0) + 1
        if seen[k] <= 3:
            run.violations.append(v)

    run.coverage["trusted_base"] += [
        "translators/tr_scoid.py (live 2.1 observable registry + ast of _choose_one_hash, _generate_id, _make_json_serializable, "
        "v21 _Observable.__init__ -> Gen/ScoIdTables.v; fail closed); Props/C06Src.v states that the text is the one the model transcribes",
        "the C16 model of the canonicalizer (coq/Model/Jcs.v) and its trusted base",
        "Python's uuid.uuid5 (applied by the harness to the model's data string; abstract in the theorems)",
        "coq/Spec/ScoIdSpec.v and SPEC_CONTRIB in harness/props/c06.py: STIX 2.1 part 6 contributing-property lists, written from the standard",
        "harness/props/c06.py fmt_ts: the timestamp text recomputed from the datetime fields (C15 is the property about format_datetime)",
    ]
    run.assumptions += [
        "the model starts from the cleaned property values the object shows (obj[key]); input cleaning is C02/C03",
        "uuid5 is abstract in the theorems; id_distinct_partial assumes it separates the two hashed strings (SHA-1 collision freedom is not provable)",
        "integers beyond 2^53 and values of non-JSON Python types inside dictionaries are outside the model",
        "with none of MD5/SHA-1/SHA-256/SHA-512 present the oracle accepts the id of any single hash and demands order independence separately",
    ]


def gen_groups_for_type(rng, ty, start):
    g = []
    c, n, req = build(rng, ty)
    items = req + c + n
    base = {"n": start, "type": ty, "mode": "ctor", "props": [[k, v] for k, v in items], "allow_custom": False, "custom": None}
    g.append((base, "base"))
    for j, (k, v) in enumerate(n):
        alt = [(kk, vv) for kk, vv in items if kk != k] + [(k, mutate_value(rng, v))]
        g.append(({"n": start + j + 1, "type": ty, "mode": "ctor", "props": [[a, b] for a, b in alt], "allow_custom": False,
                   "custom": None}, "same"))
    return [g]


def replay(payload):
    r = payload["replay"]
    if r.get("kind") == "history":
        lines = r["lines"]
        res = run_cases_other_process(lines, 0)
        bad = False
        ask = r.get("ask")
        if ask is not None:
            fresh = run_cases([ask])[0]
            print("replay: %s in a fresh interpreter -> %s" % (ask["type"], fresh.get("id") or fresh.get("exc")))
            print("        after %d earlier operations in one interpreter -> %s"
                  % (sum(1 for x in lines if "hist" in x), res[-1].get("id") or res[-1].get("exc")))
            fails, _, _ = oracle_one(ask, res[-1])
            for kind, what in fails:
                print("  " + what)
            bad = bool(fails) or res[-1].get("id") != fresh.get("id")
        else:
            first = run_cases_other_process([{"probe": "contrib_tables"}], 0)[0]["tables"]
            last = res[-1].get("tables", {})
            for ty in sorted(first):
                if first[ty] != last.get(ty):
                    print("replay: %s._id_contributing_properties %r -> %r" % (ty, first[ty], last.get(ty)))
                    bad = True
        if bad:
            print("VIOLATION property=C06 replay=(given)")
            return 1
        print("no violation on this input")
        return 0
    cases = r.get("cases") or []
    if not cases:
        print("nothing to replay (collision report)")
        return 0
    obs = run_cases(cases)
    bad = False
    for c, o in zip(cases, obs):
        print("replay: %s %s(%s) -> %s" % (c["type"], c["mode"], ", ".join(k for k, _ in c["props"]),
                                           o.get("id") or o.get("exc")))
        fails, key, _ = oracle_one(c, o)
        for kind, what in fails:
            print("  " + what)
            bad = True
    if r["kind"] == "same" and len(obs) == 2 and "id" in obs[0] and "id" in obs[1]:
        if obs[0]["id"] != obs[1]["id"]:
            print("  same contributing values, different ids")
            bad = True
    if r["kind"] == "process":
        for hs in (1, 12345, 987654321):
            o2 = run_cases_other_process(cases, hs)
            for a, b in zip(obs, o2):
                if a.get("id") != b.get("id"):
                    print("  PYTHONHASHSEED=0 -> %s, PYTHONHASHSEED=%d -> %s" % (a.get("id"), hs, b.get("id") or b.get("exc")))
                    bad = True
    if bad:
        print("VIOLATION property=C06 replay=(given)")
        return 1
    print("no violation on this input")
    return 0

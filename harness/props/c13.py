"""C13 -- library operations never modify their arguments or existing objects;
setattr/delattr refused; a deep copy is equal and disjoint.  PARTIAL.

Proof side: explicit-heap model (coq/Model/Heap*.v) of the copy-then-mutate
skeletons, frame theorems for all heaps and arguments (coq/Props/C13.v), class
tables regenerated from the live classes (tr_heapworld -> Gen/HeapWorld.v).
Tie: aliasing correspondence -- the same operation sequences are run on the
model (vm_compute) and on the real library; per operation the harness compares
which earlier values changed (model: provably none) and which pre-existing
containers are reachable from the result.
Oracle (independent of the model): deep snapshots + serialize() of every
argument and previously created object before/after every call; refusals;
deep copies equal and unshared."""
import os

import common
from common import Broken, Violation
import tr_heapworld
from props import c13_gen as G

MANIFEST = {
    "text": "PARTIAL. Explicit-heap Coq model of the library's copy-then-mutate mechanisms (every container-handling "
            "Property.clean incl. ObservableProperty/ExtensionsProperty, _STIXBase.__init__ with dict/list kwargs and "
            "custom_properties=, "
            "dict_to_stix2, parse_observable, new_version/revoke, remove_custom_stix, expand/compress and "
            "add/clear/remove/set granular markings (incl. the marking_ref=/lang= options), object markings, the "
            "stix2.markings API dispatch, utils.deduplicate, copy.copy, Bundle (objects "
            "kept, observables re-parsed), the custom-type constructor of stix2/custom.py (extension_name=: the "
            "type's own extension written into the stored extensions dict, new _inner when absent), MarkingDefinition.__init__, ObjectFactory.create, MemoryStore _add, __deepcopy__, __setattr__) "
            "with class tables (incl. custom classes the worker registers through the public decorators), property "
            "defaults and the list of classes overriding __init__ "
            "regenerated from the live classes each run. Theorems for ALL heaps/arguments/class tables: no pre-existing "
            "heap node is written (frame) by any modelled operation (store: only its own table), hence all deep values "
            "are kept; deepcopy yields an equal value in all-new containers; for the guards the proved content is that no "
            "property name in the regenerated class tables is private (property_names_refused) and that every operation "
            "keeps the invariant 'every instance attribute of every library object is private' (private_attrs_kept) -- "
            "setattr_refused and delattr_public_refused then follow by unfolding the model's one-line guards and are not "
            "independent evidence; the frame theorem is "
            "refuted for the variants without the defensive copies; the frame holds for every operation of the case "
            "language and for every finite HISTORY of operations from any starting heap (values defined at any "
            "step are kept at every later step). The frame theorems are SAFETY statements: they hold equally when an "
            "operation returns an exception or runs out of fuel (FUEL = 40) and for env indices that do not exist; "
            "that the operations succeed is shown by 9 Examples (deepcopy, extensions clean, new_version, "
            "parse_observable, factory create, store add, granular add_markings, custom-type constructor, a 5-step "
            "history) and measured by the correspondence (the library's and the model's status are compared per call). "
            "Model tied to the code by an aliasing "
            "correspondence (same operation sequences on model and library: mutation set and argument/result "
            "sharing compared per operation). All other public operations x argument shapes are covered only by the "
            "before/after snapshot oracle (testing, labelled as such in the evidence).",
    "design_ref": "DESIGN.md 6/C13",
    "note": "Modelled and proved: the skeletons listed in text (allocation/copy/sharing/write structure only; validation "
            "is not modelled, so the model predicts success where the library may reject; in particular "
            "_STIXBase.__deepcopy__ re-runs the constructor on the copied mapping and the model does not re-validate: "
            "'a deep copy of a library object is equal' therefore relies on cleaned values being fixed points of clean "
            "(property C01) -- for plain dicts/lists it is unconditional, and on the real library copy == original is "
            "checked by the oracle on every deepcopy call; which ids get_markings returns and "
            "what is_marked answers is not modelled either, only their heap effect). Only snapshot-tested: validate/iterpath, "
            "serialization, equality, parse of text, filesystem store, Environment, queries, "
            "save/load, object similarity (harness/impl/snapshot.py offers the same oracle to other workers). The snapshot also covers what the caller handed over at registration time (property lists, "
            "id_contrib_props) and the class-level tables of all registered classes; 90 cases are re-run under other "
            "TZ / PYTHONHASHSEED and must behave the same. Trusted: Coq kernel + "
            "vm_compute, hand-written heap model (validated each run by the aliasing correspondence), CPython "
            "semantics of dict/list/copy.deepcopy, the snapshot function of harness/impl/c13_impl.py. No axioms.",
    "technique": "Coq proof over a hand model with explicit heap + aliasing correspondence + snapshot oracle",
}

HEADER = """From Coq Require Import NArith ZArith List String.
From V Require Import Model.HeapRun Gen.HeapWorld.
Import ListNotations. Open Scope string_scope.
"""

REFUSAL_OPS = ("setattr", "delattr", "setitem", "delitem")


# --------------------------------------------------------------------------
# generation

def gen_cases(run, n_model, n_snap):
    rng = run.rng
    cases = list(G.witnesses())
    for _ in range(n_model):
        cases.append(G.pick(rng, G.MODELLED)(rng))
    for _ in range(n_snap):
        cases.append(G.pick(rng, G.SNAPSHOT_ONLY)(rng))
    return cases


# --------------------------------------------------------------------------
# oracle: the property on the implementation's observations

def oracle_case(case, obs):
    """Violations of C13 visible in one executed case (never raises: a case the oracle cannot
    judge is reported as one, with the case as replay)."""
    try:
        return _oracle_case(case, obs)
    except Exception as e:  # noqa: BLE001
        return [Violation("the C13 oracle could not judge a %s case (%s: %s)" % (case.get("kind"), type(e).__name__, e),
                          {"case": {"kind": case.get("kind"), "ops": case["ops"]}, "at": len(case["ops"]) - 1, "oracle_error": True})]


def _oracle_case(case, obs):
    out = []
    if "harness_error" in obs:
        return out
    for k, (op, o) in enumerate(zip(case["ops"], obs["ops"])):
        what = None
        if o["mut"]:
            idx = [m["env"] for m in o["mut"]]
            what = ("%s (op %d of a %s case) changed the value of earlier object(s) env%s" %
                    (describe(op), k, case.get("kind", "?"), idx))
        ex = o.get("extra", {})
        if op["op"] == "deepcopy" and o["exc"] is None:
            # the property's word is "equal": the library's own ==.  A difference of the
            # harness's snapshots while == holds is only noted (coverage["deepcopy_snapshot_differs"]).
            if not ex.get("equal", True):
                what = "copy.deepcopy of env[%d] is not equal (==) to its original" % op["arg"]
            elif ex.get("same_instants") is False:
                # == on datetimes of one zone ignores fold / offset: equal values denote the same instants
                what = "copy.deepcopy of env[%d] holds a datetime that denotes another instant than the original's" % op["arg"]
            elif not ex.get("unshared", True):
                what = "copy.deepcopy of env[%d] shares mutable state with it at %s" % (op["arg"], ex.get("common"))
        if op["op"] == "same_id" and ex.get("same_id") is False:
            what = ("two observables built from the same content (env[%d], env[%d]) got different deterministic ids: "
                    "something the library keeps changed in between" % (op["arg"], op["other"]))
        if op["op"] in REFUSAL_OPS and ex.get("is_prop"):
            if ex.get("refused") is False:
                what = "%s of property %r on a library object was not refused" % (op["op"], op.get("name"))
            elif ex.get("attr_same") is False:
                what = "%s of property %r changed the object although it raised" % (op["op"], op.get("name"))
        if what:
            out.append(Violation(what, {"case": {"kind": case.get("kind"), "ops": case["ops"][:k + 1]}, "at": k}))
            break
    return out


def essence(r):
    """what must not depend on the process environment: status, mutation set, sharing per call"""
    if "ops" not in r:
        return r
    return [(o["exc"], sorted((str(m["env"]) for m in o["mut"])), o["shared"]) for o in r["ops"]]


def run_impl_env(cases, extra_env):
    """common.run_impl with extra environment variables for the worker (one process)"""
    import json
    import subprocess
    script = os.path.join(common.VERIF, "harness", "impl", "c13_impl.py")
    env = common.impl_env()
    env.update(extra_env)
    inp = "\n".join(json.dumps(c) for c in cases) + "\n"
    p = subprocess.run([common.PY, script], input=inp, stdout=subprocess.PIPE, stderr=subprocess.PIPE, text=True, env=env,
                       timeout=1800, cwd=common.scratch())
    if p.returncode != 0:
        raise RuntimeError(p.stderr[-2000:])
    res = [json.loads(l) for l in p.stdout.split("\n") if l.strip()]
    if len(res) != len(cases):
        raise RuntimeError("%d results for %d cases" % (len(res), len(cases)))
    return res


def is_public_name(n):
    return not n.startswith("_")


def describe(op):
    o = op["op"]
    if o in ("mark", "util"):
        return "%s.%s" % (o, op["fn"])
    if o in ("construct", "bundle", "factory_create", "env_create"):
        return "%s %s" % (o, op.get("cls"))
    return o


# --------------------------------------------------------------------------
# correspondence

def parse_model_line(line):
    out = []
    for part in line.split(" # "):
        f = part.split("|")
        status = f[0]
        m = [int(x) for x in f[1][2:].split(",") if x != ""]
        s = [common.ustr_unescape(x) for x in f[2][2:].split(";") if x != ""]
        out.append({"status": status, "m": m, "s": sorted(s)})
    return out


def refs_of(op):
    """env indices an op reads"""
    out = set()
    for key in ("arg", "kw", "marking", "selectors", "store", "factory", "other", "valid_refs", "env"):
        if isinstance(op.get(key), int) and not isinstance(op.get(key), bool):
            out.add(op[key])
    out.update(op.get("args", []))

    def walk(j):
        if isinstance(j, dict):
            if "$r" in j:
                out.add(j["$r"])
            for v in j.values():
                walk(v)
        elif isinstance(j, list):
            for v in j:
                walk(v)
    if op["op"] == "mk":
        walk(op["v"])
    return out


def compare(case, obs, model):
    """-> (disagreement or None, first divergence exception name or None, ops compared).
    Where the library rejects what the model accepts (validation is not modelled) the result of
    that call is tainted; the comparison goes on with the calls that do not read a tainted result."""
    n = 0
    tainted = set()
    first_div = None
    for k, (op, o, m) in enumerate(zip(case["ops"], obs["ops"], model)):
        if refs_of(op) & tainted:
            tainted.add(k)
            continue
        n += 1
        imut = sorted((x["env"] for x in o["mut"]), key=str)
        if imut != sorted(m["m"]):
            return ({"op": k, "what": "changed earlier values", "impl": imut, "model": m["m"]}, None, n)
        if o["exc"] is None and m["status"] == "ok":
            if sorted(o["shared"]) != m["s"]:
                return ({"op": k, "what": "containers shared between earlier objects and the result",
                         "impl": sorted(o["shared"]), "model": m["s"], "call": describe(op)}, None, n)
        elif o["exc"] is not None and m["status"] == "ok":
            tainted.add(k)                       # the library rejected (validation is not modelled)
            if isinstance(op.get("store"), int):
                tainted.add(op["store"])         # ... and the model's store took what the library's did not
            first_div = first_div or o["exc"]
        elif o["exc"] is None:
            return ({"op": k, "what": "model fails, library succeeds", "model": m["status"], "call": describe(op)}, None, n)
        else:
            if op["op"] in REFUSAL_OPS and m["status"] != "exc:" + o["exc"]:
                return ({"op": k, "what": "refusal", "impl": o["exc"], "model": m["status"]}, None, n)
    return (None, first_div, n)


# --------------------------------------------------------------------------

def check(run):
    thorough = run.tier == "thorough"
    n_model, n_snap = (4000, 3000) if thorough else (260, 200)
    run.coverage["rule"] = (
        "operation sequences over caller-built nested dicts/lists with the same containers reused by several calls "
        "(scenarios: file extensions, observed-data objects, SDOs with list/dict members, granular/object markings, "
        "the stix2.markings API on objects and dicts, every entry point on unregistered-type dicts with allow_custom off and on, bundles and memory stores sharing objects, store get of parsed vs unknown-type dicts, ObjectFactory list "
        "defaults, attribute refusals; plus API/markings/serialization/filesystem/environment sequences that are "
        "snapshot-tested only; custom object/observable types with extension_name= sharing one extensions dict; plus 10 fixed witnesses of the missing-copy variants); a case is non-trivial when at "
        "least two library calls in it completed without raising")
    gen_ok = False
    with common.Lock():
        try:
            text, world = tr_heapworld.translate(common.REPO, common.PY)
            common.write_if_changed(os.path.join(common.COQ, "Gen", "HeapWorld.v"), text)
            gen_ok = True
            run.coverage["world"] = {"classes": len(world["classes"]), "registry": len(world["registry"])}
        except tr_heapworld.TranslateError as e:
            run.broken.append(Broken("translator", "tr_heapworld", {"error": str(e)}))
        except Exception as e:  # noqa: BLE001
            run.broken.append(Broken("translator", "tr_heapworld", {"error": "%s: %s" % (type(e).__name__, e)}))
        if gen_ok:
            res = common.build_props("Props/C13.v")
            run.add_build(res, "make -C coq Props/C13.vo (coqc 8.16.1, full .vo) + Print Assumptions per theorem")
            gen_ok = res["ok"] or (res["failed_at"] or ("",))[0] not in ("Gen/HeapWorld.v",)
            model_ok = res["ok"] or (res["failed_at"] or ("",))[0].startswith(("Proofs/", "Props/"))
        else:
            run.coverage["obligations"] += len(common.theorems_in("Props/C13.v"))
            model_ok = False

    cases = gen_cases(run, n_model, n_snap)
    impl = common.run_impl("c13_impl", cases)
    herr = [(c, r) for c, r in zip(cases, impl) if "harness_error" in r]
    if herr:
        run.broken.append(Broken("harness", "implementation worker error", {"first": [r["harness_error"] for _, r in herr[:3]]}))

    kinds, ops_hist, exc_hist = {}, {}, {}
    for c, r in zip(cases, impl):
        if "harness_error" in r:
            continue
        done = sum(1 for op, o in zip(c["ops"], r["ops"]) if op["op"] != "mk" and o["exc"] is None)
        run.count(c, nontrivial=done >= 2)
        kinds[c["kind"]] = kinds.get(c["kind"], 0) + 1
        for op, o in zip(c["ops"], r["ops"]):
            if op["op"] != "mk":
                d = describe(op).split(" ")[0]
                ops_hist[d] = ops_hist.get(d, 0) + 1
                if o["exc"]:
                    exc_hist[o["exc"]] = exc_hist.get(o["exc"], 0) + 1
    run.coverage["cases_by_kind"] = kinds
    run.coverage["library_calls_by_operation"] = ops_hist
    run.coverage["exceptions_seen"] = exc_hist

    # ---- oracle on everything
    for c, r in zip(cases, impl):
        run.violations += oracle_case(c, r)
    run.coverage["deepcopy_snapshot_differs"] = sum(
        1 for c, r in zip(cases, impl) for op, o in zip(c["ops"], r.get("ops", []))
        if op["op"] == "deepcopy" and o["exc"] is None and o.get("extra", {}).get("equal") and not o["extra"].get("same_snap", True))
    hung = [(c, r) for c, r in zip(cases, impl) if any(o.get("timeout") for o in r.get("ops", []))]
    if hung:
        c, r = hung[0]
        k = [i for i, o in enumerate(r["ops"]) if o.get("timeout")][0]
        run.broken.append(Broken("harness", "a library call did not return within the time limit",
                                 {"cases": len(hung), "first": {"kind": c["kind"], "call": describe(c["ops"][k]), "ops": c["ops"][:k + 1]}}))

    # ---- process environment: the same cases under another zone / hash seed must behave the same
    sub = [c for c in cases if "harness_error" not in c][10:(610 if thorough else 100)]
    base = {common.case_hash(c): r for c, r in zip(cases, impl)}
    env_diff = []
    variants = (("TZ=EST5EDT", {"TZ": "EST5EDT"}), ("TZ=JST-9 PYTHONHASHSEED=1234", {"TZ": "JST-9", "PYTHONHASHSEED": "1234"}))
    from concurrent.futures import ThreadPoolExecutor

    def _variant(extra):
        try:
            return run_impl_env(sub, extra)
        except RuntimeError as e:
            return e
    with ThreadPoolExecutor(max_workers=2) as ex:
        results = list(ex.map(_variant, [v[1] for v in variants]))
    for (label, extra), got in zip(variants, results):
        try:
            if isinstance(got, RuntimeError):
                raise got
        except RuntimeError as e:
            run.broken.append(Broken("harness", "worker failed under " + label, {"error": str(e)[-800:]}))
            continue
        for c, r in zip(sub, got):
            run.violations += oracle_case(c, r)
            b = base[common.case_hash(c)]
            if essence(r) != essence(b):
                env_diff.append({"env": label, "kind": c["kind"], "ops": c["ops"]})
    run.coverage["environment_variants"] = {"cases_each": len(sub), "variants": 2, "behaviour_differences": len(env_diff)}
    if env_diff:
        run.broken.append(Broken("correspondence", "behaviour depends on the process environment (TZ / hash seed)",
                                 {"first": env_diff[:2]}))

    # ---- correspondence on the modelled cases
    modelled = [(c, r, G.case_to_coq(c)) for c, r in zip(cases, impl) if "harness_error" not in r]
    modelled = [(c, r, t) for c, r, t in modelled if t is not None]
    run.coverage["correspondence_cases"] = len(modelled)
    run.coverage["snapshot_only_cases"] = len(cases) - len(modelled)
    dis = []
    if model_ok and modelled:
        try:
            lines = common.coq_eval_lines("c13m", HEADER, [t for _, _, t in modelled], shard=12, timeout=1200)
            compared = diverged = 0
            div_hist = {}
            for (c, r, _), line in zip(modelled, lines):
                d, div, n = compare(c, r, parse_model_line(line))
                compared += n
                if div:
                    diverged += 1
                    div_hist[div] = div_hist.get(div, 0) + 1
                if d:
                    dis.append({"kind": c["kind"], "disagreement": d, "ops": c["ops"][:d["op"] + 1]})
            run.coverage["correspondence_ops_compared"] = compared
            run.coverage["correspondence_disagreements"] = len(dis)
            run.coverage["library_rejected_where_model_accepts"] = div_hist
            if dis:
                run.broken.append(Broken("correspondence", "heap model vs stix2 (aliasing / mutation set)", {"first": dis[:4]}))
            if diverged * 3 > len(modelled):
                run.broken.append(Broken("correspondence", "the library rejects more than a third of the modelled cases",
                                         {"exceptions": div_hist}))
            if modelled:
                c, r, _ = modelled[len(modelled) // 2]
                run.sample({"ops": [describe(o) for o in c["ops"]], "model": lines[len(modelled) // 2],
                            "impl_shared": [o["shared"] for o in r["ops"]]})
        except RuntimeError as e:
            run.broken.append(Broken("correspondence", "model evaluation failed", {"error": str(e)[-1500:]}))

    # ---- something no longer checks and the oracle is silent: look harder for a failing input
    if run.broken and not run.violations:
        extra = []
        want = {d["kind"] for d in dis}
        table = G.MODELLED + G.SNAPSHOT_ONLY          # the FULL generator, whatever broke
        for _ in range(3 * (n_model + n_snap)):
            extra.append(G.pick(run.rng, table)(run.rng))
        got = common.run_impl("c13_impl", extra)
        for c, r in zip(extra, got):
            run.count(c, nontrivial=False)
            run.violations += oracle_case(c, r)
        run.coverage["search_cases"] = len(extra)

    run.coverage["exhaustive"] = False
    run.coverage["trusted_base"] += [
        "coq/Model/Heap.v, HeapOps.v, HeapApi.v, HeapRun.v: hand-written explicit-heap model (validated each run by the "
        "aliasing correspondence on %d operation sequences)" % len(modelled),
        "translators/tr_heapworld.py + harness/impl/c13_impl.py --world: class tables read from the live classes, "
        "fail closed on an unknown Property class",
        "harness/impl/c13_impl.py snap()/walk(): what counts as the deep value and the mutable containers of an object",
    ]
    run.assumptions += [
        "validation is not modelled: where the library rejects an input the model predicts success; the result of that "
        "call is then ignored and the comparison continues with the calls that do not read it",
        "operations outside the modelled skeletons (see MANIFEST note) are covered by before/after snapshots only",
        "private attributes (leading underscore) may be assigned and deleted: the property speaks of an object's properties",
    ]


def replay(payload):
    r = payload["replay"]
    case = dict(r["case"])
    case["explain"] = True
    obs = common.run_impl("c13_impl", [case], procs=1)[0]
    if "harness_error" in obs:
        print("replay: worker error %s" % obs["harness_error"])
        return 1
    for k, (op, o) in enumerate(zip(case["ops"], obs["ops"])):
        print("op %d %-28s exc=%s mut=%s shared=%s %s" % (k, describe(op), o["exc"], o["mut"], o["shared"], o.get("extra", "")))
    vs = oracle_case(case, obs)
    if vs:
        print("  what: %s" % vs[0].what)
        print("VIOLATION property=C13 replay=(given)")
        return 1
    print("no violation on this input")
    return 0

"""C20 -- confidence scales.  Model regenerated from scales.py by tr_scales;
theorems in coq/Props/C20.v; correspondence of the generated model with the
real functions; oracle = the frozen specification tables (evaluated in Coq)."""
import os

import common
from common import Broken, Violation
import tr_scales

MANIFEST = {
    "text": "Theorems over unbounded Z and all strings about the model REGENERATED from scales.py on every run "
            "(total on 0..100, refusal outside, one-directional, label round trip, unknown labels refused, "
            "= STIX 2.1 Appendix A tables); kernel-evaluated window check lifted to Z by a generic lemma. "
            "Two table entries are disclosed in coq/Spec/ConfidenceSpec.v: WEP 'Unlikely/Probably Not' = 30 is SEEDED "
            "from the code (its docstring says 20; both lie in the label's range 20-39, so the round trip holds either way) "
            "and Admiralty '6 - Truth cannot be judged' has no value and is treated as an unknown label (refused). "
            "Oracle-only on the real functions: every call is made twice, the small domain is asked again in descending "
            "and shuffled order in one interpreter (answers must not depend on earlier calls), and non-string arguments "
            "(None, numbers, bools, bytes, lists, objects that merely print like a label) must be refused by X_to_value.",
    "design_ref": "DESIGN.md 6/C20",
    "note": "Trusted: Coq kernel + vm_compute, tr_scales translator (validated by a full-domain sweep against the real "
            "functions each run), the hand-written Appendix A tables in coq/Spec/ConfidenceSpec.v. No axioms. "
            "The theorems are about integers (value_to_X) and strings (X_to_value); floats/bools given to value_to_X are "
            "outside the property's quantifier.",
    "technique": "Coq proof over a model translated from source + exhaustive sweep of the real functions",
}

SCALES = [
    ("nlmh", "value_to_none_low_medium_high", "none_low_med_high_to_value"),
    ("zero_ten", "value_to_zero_ten", "zero_ten_to_value"),
    ("admiralty", "value_to_admiralty_credibility", "admiralty_credibility_to_value"),
    ("wep", "value_to_wep", "wep_to_value"),
    ("dni", "value_to_dni", "dni_to_value"),
]

SPEC_LABELS = {
    "nlmh": ["None", "Low", "Med", "High"],
    "zero_ten": [str(i) for i in range(11)],
    "admiralty": ["5 - Improbable", "4 - Doubtful", "3 - Possibly True", "2 - Probably True",
                  "1 - Confirmed by other sources", "6 - Truth cannot be judged"],
    "wep": ["Impossible", "Highly Unlikely/Almost Certainly Not", "Unlikely/Probably Not", "Even Chance",
            "Likely/Probable", "Highly likely/Almost Certain", "Certain"],
    "dni": ["Almost No Chance / Remote", "Very Unlikely / Highly Improbable", "Unlikely / Improbable",
            "Roughly Even Chance / Roughly Even Odds", "Likely / Probable", "Very Likely / Highly Probable",
            "Almost Certain / Nearly Certain"],
}

HEADER_SPEC = """From Coq Require Import ZArith List String.
From V Require Import Model.Chain Spec.ConfidenceSpec.
Import ListNotations. Open Scope string_scope.
Definition sid (s : string) := s.
"""
HEADER_MODEL = HEADER_SPEC + "From V Require Import Gen.Scales.\n"


def label_mutants(rng, label):
    out = {label.lower(), label.upper(), label + " ", " " + label, label[:-1], label + "x", ""}
    if len(label) > 1:
        i = rng.randrange(len(label))
        out.add(label[:i] + label[i + 1:])
        out.add(label[:i] + "z" + label[i + 1:])
    out.discard(label)
    return sorted(x for x in out if all(32 <= ord(c) <= 126 for c in x))


def gen_cases(run):
    ints = list(range(-1000, 1101))
    ks = range(7, 81) if run.tier == "thorough" else range(7, 81, 6)
    for k in ks:
        for d in (-1, 0, 1):
            ints += [2 ** k + d, -(2 ** k) + d]
    for k in (21, 30, 100, 308, 309, 400):      # beyond every float / fixed-width conversion
        ints += [10 ** k, -(10 ** k), 10 ** k + 1]
    cases = []
    for sc, v2l, l2v in SCALES:
        for x in ints:
            cases.append({"scale": sc, "fn": v2l, "arg": x})
        labels = list(SPEC_LABELS[sc])
        for other in SPEC_LABELS:
            if other != sc:
                labels += SPEC_LABELS[other][:3]
        muts = []
        for l in SPEC_LABELS[sc]:
            muts += label_mutants(run.rng, l)
        for l in dict.fromkeys(labels + muts):
            cases.append({"scale": sc, "fn": l2v, "arg": l})
    return cases


def spec_term(c):
    if isinstance(c["arg"], int):
        return "show_outcome sid (spec_label %s_ranges %s)" % (c["scale"], common.coq_Z(c["arg"]))
    return "show_outcome show_Z (spec_value %s_labels %s)" % (c["scale"], common.coq_str(c["arg"]))


def model_term(c):
    if isinstance(c["arg"], int):
        return "show_outcome sid (eval_vchain %s_chain %s)" % (c["fn"], common.coq_Z(c["arg"]))
    return "show_outcome show_Z (eval_lfun %s_fun %s)" % (c["fn"], common.coq_str(c["arg"]))


def oracle(cases, impl, spec):
    """The property evaluated on the implementation: agreement with the
    tabulated ranges/labels on every explored point (which, on the explored
    domain, contains totality, refusal, direction and unknown-label refusal),
    plus the round trip through the real functions."""
    out = []
    by = {}
    for c, i, s in zip(cases, impl, spec):
        by[(c["fn"], c["arg"])] = i
        if i != s:
            out.append(Violation(
                "%s(%r) gives %s, the STIX 2.1 table gives %s" % (c["fn"], c["arg"], i, s),
                {"kind": "point", "case": c, "impl": i, "spec": s}))
    for sc, v2l, l2v in SCALES:
        for l in SPEC_LABELS[sc]:
            r = by.get((l2v, l))
            if r and r.startswith("V "):
                back = by.get((v2l, int(r[2:])))
                if back is not None and back != "V " + l:
                    out.append(Violation("%s(%s(%r)) = %s, not the label" % (v2l, l2v, l, back),
                                         {"kind": "roundtrip", "case": {"scale": sc, "fn": l2v, "arg": l}, "impl": back}))
    return out


def nonstring_oracle(run):
    """A scale label is a string: a value that is not a string (None, a number, a
    bool, bytes, a one-element list, an object that merely PRINTS like a label)
    is not a label of the scale and must be refused like any unknown label."""
    cases = []
    for sc, v2l, l2v in SCALES:
        args = [{"py": "None"}, {"py": "bool", "v": 1}, {"py": "bool", "v": 0}, {"py": "float", "v": 5.0}, 0, 5, 50, 100]
        for l in SPEC_LABELS[sc]:
            args += [{"py": "strobj", "s": l}, {"py": "bytes", "s": l}, {"py": "list", "s": l}]
        for a in args:
            cases.append({"scale": sc, "fn": l2v, "arg": a})
    got = common.run_impl("c20_impl", cases, procs=1)
    run.coverage["nonstring_label_calls"] = len(cases)
    out = []
    for c, g in zip(cases, got):
        if g != "ValueError":
            out.append(Violation("%s(%r) is not a label of the scale (not a string) but gives %s instead of being refused"
                                 % (c["fn"], c["arg"], g), {"kind": "nonstring", "case": c, "impl": g}))
    return out


def textshape_oracle(run):
    """Only the exact label texts are labels (theorem unknown label refused:
    every string that is not byte-for-byte a label of the scale).  Texts that a
    lenient conversion (int(), strip(), casefold(), unicode normalisation)
    would map onto a label must be refused like any other unknown text."""
    cases = []
    for sc, v2l, l2v in SCALES:
        texts = set()
        for l in SPEC_LABELS[sc]:
            texts |= {l + "\n", l + "\t", "\t" + l, l + "\u00a0", "\u00a0" + l, l + "\x00", l.replace(" ", "\u00a0"),
                      l.replace(" ", "  "), l.replace("-", "\u2013"), l.swapcase(), l.title(), l.casefold(),
                      l.replace("i", "\u0131"), l.replace("/", " / "), l.replace(" / ", "/"), l + l}
            for sep in (" / ", "/", " - "):
                parts = l.split(sep)
                if len(parts) > 1:
                    # the same phrasings in another order / repeated / one of them alone
                    texts |= {sep.join(reversed(parts)), sep.join(parts + parts[:1]), sep.join(parts[:1] + parts), parts[0], parts[-1],
                              sep.join(sorted(parts)), sep.join(p.strip() for p in parts), sep.strip().join(parts)}
            if l.isdigit():
                n = int(l)
                texts |= {"+%d" % n, "0%d" % n, "%d.0" % n, "%d_0" % n, "%de0" % n, " %d " % n, "-%d" % n, "0x%x" % n,
                          "".join(chr(0xFF10 + int(ch)) for ch in l), "".join(chr(0x0660 + int(ch)) for ch in l),
                          "%d" % (n * 10), "%d%%" % (n * 10)}
        for n in (0, 5, 10, 30, 50, 100):
            texts |= {str(n), "+%d" % n, "%d.0" % n}
        texts -= set(SPEC_LABELS[sc])
        for t in sorted(texts):
            cases.append({"scale": sc, "fn": l2v, "arg": t})
    got = common.run_impl("c20_impl", cases, procs=1)
    run.coverage["near_label_text_calls"] = len(cases)
    out = []
    for c, g in zip(cases, got):
        if g != "ValueError":
            out.append(Violation("%s(%r) is not a label of the scale (not the exact text) but gives %s instead of being refused"
                                 % (c["fn"], c["arg"], g), {"kind": "nonstring", "case": c, "impl": g}))
    return out


def outside_float_oracle(run):
    """"refuses values outside the range": a value below 0 or above 100 is outside
    the range whether or not it is an integer.  (What a non-integer INSIDE 0..100
    should map to is not specified and not judged.)"""
    cases = []
    outs = ["-0.5", "-1e-09", "-0.999999", "100.5", "100.000001", "100.999999", "-1.5", "101.5", "1e308", "-1e308", "inf", "-inf", "nan"]
    for sc, v2l, l2v in SCALES:
        for x in outs:
            cases.append({"scale": sc, "fn": v2l, "arg": {"py": "float", "v": x}})
            cases.append({"scale": sc, "fn": v2l, "arg": {"py": "float", "v": x}, "kw": True})
    got = common.run_impl("c20_impl", cases, procs=1)
    run.coverage["outside_float_calls"] = len(cases)
    out = []
    for c, g in zip(cases, got):
        if g != "ValueError":
            out.append(Violation("%s(%s) is outside the range 0..100 but gives %s instead of being refused"
                                 % (c["fn"], c["arg"]["v"], g), {"kind": "nonstring", "case": c, "impl": g}))
    return out


def keyword_oracle(run, cases, spec):
    """Every public call form of the same function is the same function: the
    argument given by keyword (under the name the function declares) must get
    the tabulated answer too.  Asked for -150..250, the powers and every label
    / mutant of the positional sweep."""
    seq, want = [], []
    for c, s in zip(cases, spec):
        if isinstance(c["arg"], int) and not (-150 <= c["arg"] <= 250 or abs(c["arg"]) > 10 ** 20):
            continue
        k = dict(c)
        k["kw"] = True
        seq.append(k)
        want.append(s)
    got = common.run_impl("c20_impl", seq, procs=4)
    run.coverage["keyword_form_calls"] = len(seq)
    out = []
    for c, g, w in zip(seq, got, want):
        if g != w:
            out.append(Violation("%s(<its parameter>=%r) (argument given by keyword) gives %s, the STIX 2.1 table gives %s"
                                 % (c["fn"], c["arg"], g, w), {"kind": "point", "case": c, "impl": g, "spec": w}))
    return out


def order_oracle(run, cases, spec):
    """The conversions are functions of their argument: the answers must not
    depend on what was asked before.  The small domain (-5..105 and every
    label) is asked again in ONE interpreter in descending and in a seeded
    random order and compared with the tabulated answer."""
    want = {}
    small = []
    for c, s in zip(cases, spec):
        if isinstance(c["arg"], int) and not -5 <= c["arg"] <= 105:
            continue
        want[(c["fn"], c["arg"])] = s
        small.append(c)
    out = []
    orders = [("descending", list(reversed(small)))]
    sh = list(small)
    run.rng.shuffle(sh)
    orders.append(("shuffled", sh))
    run.coverage["order_independence_calls"] = 0
    for name, seq in orders:
        got = common.run_impl("c20_impl", seq, procs=1)
        run.coverage["order_independence_calls"] += len(seq)
        for k, (c, g) in enumerate(zip(seq, got)):
            if g != want[(c["fn"], c["arg"])]:
                # shrink: does the immediately preceding call of the same function suffice?
                prev = [x for x in seq[:k] if x["fn"] == c["fn"]][-1:]
                short = prev + [c]
                if common.run_impl("c20_impl", short, procs=1)[-1] == g:
                    seqr = short
                else:
                    seqr = seq[:k + 1]
                out.append(Violation(
                    "%s(%r) gives %s after other calls (%s order), the STIX 2.1 table gives %s"
                    % (c["fn"], c["arg"], g, name, want[(c["fn"], c["arg"])]),
                    {"kind": "sequence", "seq": seqr, "impl": g, "spec": want[(c["fn"], c["arg"])]}))
                break
    return out


def check(run):
    run.coverage["rule"] = ("every integer -1000..1100, 2^k+-1 (k<=80) and +-10^k (k<=400) through each value_to_X, every scale label, "
                            "labels of other scales and one-edit mutants through each X_to_value; implementation vs "
                            "generated model vs specification table; a case is non-trivial unless the integer lies "
                            "outside -50..150 (plain refusal)")
    gen_ok = False
    with common.Lock():
        try:
            text, extra = tr_scales.translate(common.REPO, None)
            common.write_if_changed(os.path.join(common.COQ, "Gen", "Scales.v"), text)
            gen_ok = True
            if extra:
                run.notes.append("functions in scales.py not covered by the property: %s" % extra)
        except tr_scales.TranslateError as e:
            run.broken.append(Broken("translator", "tr_scales", {"error": str(e)}))
        except (OSError, SyntaxError) as e:
            run.broken.append(Broken("translator", "tr_scales", {"error": "%s: %s" % (type(e).__name__, e)}))
        if gen_ok:
            res = common.build_props("Props/C20.v")
            run.add_build(res, "make -C coq Props/C20.vo (coqc 8.16.1, full .vo) + Print Assumptions per theorem")
            gen_ok = res["ok"] or (res["failed_at"] or ("",))[0] != "Gen/Scales.v"
        else:
            run.coverage["obligations"] += len(common.theorems_in("Props/C20.v"))
    cases = gen_cases(run)
    impl = common.run_impl("c20_impl", cases, procs=4)
    spec = common.coq_eval_lines("c20s", HEADER_SPEC, [spec_term(c) for c in cases], shard=1500)
    for c, i in zip(cases, impl):
        run.count(c, nontrivial=not (isinstance(c["arg"], int) and not -50 <= c["arg"] <= 150))
    run.sample({"case": cases[1029], "impl": impl[1029], "spec": spec[1029]})
    run.sample({"case": cases[-3], "impl": impl[-3], "spec": spec[-3]})
    if gen_ok:
        try:
            model = common.coq_eval_lines("c20m", HEADER_MODEL, [model_term(c) for c in cases], shard=1500)
            dis = [(c, i, m) for c, i, m in zip(cases, impl, model) if i != m]
            run.coverage["correspondence_cases"] = len(cases)
            run.coverage["correspondence_disagreements"] = len(dis)
            if dis:
                run.broken.append(Broken("correspondence", "generated Gen/Scales.v vs stix2.confidence.scales",
                                         {"first": [{"case": c, "impl": i, "model": m} for c, i, m in dis[:5]]}))
        except RuntimeError as e:
            run.broken.append(Broken("correspondence", "model evaluation failed", {"error": str(e)[-1500:]}))
    run.violations += oracle(cases, impl, spec)
    run.violations += order_oracle(run, cases, spec)
    run.violations += nonstring_oracle(run)
    run.violations += textshape_oracle(run)
    run.violations += keyword_oracle(run, cases, spec)
    run.violations += outside_float_oracle(run)
    run.coverage["exhaustive"] = True
    run.coverage["trusted_base"] += [
        "translators/tr_scales.py (fail-closed AST translator; validated each run by the sweep above)",
        "coq/Spec/ConfidenceSpec.v: STIX 2.1 Appendix A tables written from memory (ranges audited; wep 'Unlikely/Probably Not'=30 seeded)",
    ]
    run.assumptions += ["inputs to value_to_X are Python ints (the property quantifies over integers); of non-integers only the refusal of values outside 0..100 is judged (oracle); bools are out of scope"]


def replay(payload):
    r = payload["replay"]
    if r.get("kind") == "sequence":
        seq = r["seq"]
        got = common.run_impl("c20_impl", seq, procs=1)[-1]
        c = seq[-1]
        spec = common.coq_eval_lines("c20r", HEADER_SPEC, [spec_term(c)])[0]
        print("replay of %d calls in one interpreter, last %s(%r): implementation=%s specification=%s"
              % (len(seq), c["fn"], c["arg"], got, spec))
        if got != spec:
            print("VIOLATION property=C20 replay=(given)")
            return 1
        print("no violation on this input")
        return 0
    c = r["case"]
    if r.get("kind") == "nonstring":
        impl = common.run_impl("c20_impl", [c], procs=1)[0]
        print("replay %s(%r): implementation=%s, a non-string is not a label and must be refused" % (c["fn"], c["arg"], impl))
        if impl != "ValueError":
            print("VIOLATION property=C20 replay=(given)")
            return 1
        print("no violation on this input")
        return 0
    impl = common.run_impl("c20_impl", [c], procs=1)[0]
    spec = common.coq_eval_lines("c20r", HEADER_SPEC, [spec_term(c)])[0]
    print("replay %s(%r): implementation=%s specification=%s" % (c["fn"], c["arg"], impl, spec))
    if r.get("kind") == "roundtrip":
        sc = [s for s in SCALES if s[0] == c["scale"]][0]
        if impl.startswith("V "):
            back = common.run_impl("c20_impl", [{"fn": sc[1], "arg": int(impl[2:])}], procs=1)[0]
            print("  back through %s: %s" % (sc[1], back))
            if back != "V " + c["arg"]:
                print("VIOLATION property=C20 replay=(given)")
                return 1
    if impl != spec:
        print("VIOLATION property=C20 replay=(given)")
        return 1
    print("no violation on this input")
    return 0

"""C10 -- pattern text and pattern object model convert into each other faithfully.

Model: coq/Model/PatternSyntax.v (the 2.1 grammar as a datatype of parse
trees, stix2/pattern_visitor.py method by method, every __str__ of
stix2/patterns.py, unvisit, meaning); theorems in coq/Props/C10.v.
Tie to the source, on every run: parse trees from a grammar-directed
generator -> text -> the REAL ANTLR parser (tree compared with the generated
tree: "the datatype is the grammar") and the real visitor (dumped object,
str(), tokens of str(), re-parse) compared with the model evaluated by
vm_compute on the same trees; objects built through the public classes
compared the same way.  Oracle: the property itself on the implementation's
observations (meaning read off real parse trees, independent of the model).
"""
import json
import os

import common
from common import Broken, Violation
from . import c10_gen as G

MANIFEST = {
    "text": "Coq theorems about an executable model of stix2.pattern_visitor / stix2.patterns over the STIX 2.1 pattern "
            "grammar as a datatype of parse trees, all for the fully repaired variant of the code (which Props/C10Src.v shows "
            "the current source text to be).  Every theorem about parse trees is for trees that are well formed AND inside the "
            "side condition `sem` (Spec/PatternSpec.v), which EXCLUDES: (1) EXISTS comparisons -- valid STIX 2.1, but the visitor "
            "has no visitPropTestExists and fails on them under every variant (theorem visit_refuted_exists, known finding "
            "C10-exists-unhandled); (2) an index step directly after an index step, a:b[1][2] (AttributeError, known finding); "
            "(3) timestamps Python's datetime cannot hold: second 60, more than 6 fraction digits, year 0, unreal dates (known "
            "finding C10-timestamp-unrepresentable); (4) ANDs of comparisons with no common object type (refused deliberately by "
            "the library); (5) floats with more than 15 significant digits or more than 300 integer / fraction digits (`fshort`): "
            "the model keeps every digit of a float, Python rounds beyond that, so outside the bound the model is not a model of "
            "the library and nothing is claimed.  Within wf and sem: the visitor yields an object with the same meaning "
            "(comparison, negation, operator, constant, path step, qualifier, grouping), and is the plain structural function "
            "sv_fb; the printed tokens of every object the visitor yields are the yield of a parse tree, again wf and in sem, that "
            "the visitor maps back to the same object and that has the meaning of the original tree (print is a fixed point); "
            "every object assembled from the public classes that is well grouped (syntactic predicate), printable (`aprint`: names "
            "and constants that print to single tokens, floats fshort) and constructible has a parse tree (wf, in sem) with "
            "exactly its printed tokens which the visitor reads back to an object with the same MEANING -- not the same "
            "structure: n-ary chains are read as the text reads them, And(And(x,y),z) prints and reads back as And(x,y,z); "
            "escaped string constants read back to the same string (the only statement at character level).  NOT modelled or "
            "proved: that the lexer cuts the characters of str(a) into exactly the tokens `print a` (maximal munch, spacing), "
            "the ANTLR parser, and unambiguity of the grammar -- these are trusted and exercised by the run-time comparison only.  "
            "Thirteen deviations of the tree as found are variant parameters (detected at run time) with refutation witnesses.  "
            "The model is tied to /repo on every run by a correspondence run against the real ANTLR parser and visitor (tree "
            "shape, visitor result, str(), the real lexer's tokens of str() against `print`, meaning, re-parse; every case a "
            "second time in fresh interpreters under other time zones, another hash seed, reverse order and other public "
            "argument forms, the 2.0 grammar on the same texts), and by a "
            "source-text translator (tr_visitor: child indices per visit method, instantiated classes, variant sites, __str__ "
            "templates, escape / quote_if_needed / make_constant / make_object_path) whose facts Props/C10Src.v equates with the tables the model "
            "transcribes, including that the variant record the source flags denote is `repaired`.",
    "design_ref": "DESIGN.md 6/C10, Appendix A.6",
    "note": "Trusted: Coq kernel + vm_compute; the hand-written model (compared with the implementation on every run, parse "
            "trees included); the ANTLR lexer and parser of stix2patterns and the unambiguity of the grammar (not proved: "
            "Appendix A.6) -- in particular the step from the characters of str(a) to the token list `print a` is not modelled, "
            "only checked at run time on the generated cases; the reading of 'meaning' in harness/impl/c10_impl.py; that a "
            "Python float holds a decimal of at most 15 significant digits in the normal range exactly (DBL_DIG; the `fshort` "
            "hypothesis of sem and aprint is this bound, the generator stays inside it).  The installed 2.0 grammar (= 2.1 without "
            "EXISTS) is run through the same model lines and oracle.  The theorems speak of objects of the object model; how a "
            "string-encoded path handed to the classes is cut into steps (make_object_path / create_ObjectPathComponent, both "
            "transcribed and source-tied) is compared at run time only -- known finding C10-text-path-separator-in-quoted-key "
            "lives there.  sv_lit falls back to CInt 0 on a token the visitor "
            "rejects; unreachable under wf and sem (Proofs/PatternLit.v visit_lit: the visitor returns exactly sv_lit t there).",
    "technique": "Coq proof over a hand-written executable model + correspondence run against the real parser and visitor",
}

HEADER = """From Coq Require Import NArith ZArith List String.
From V Require Import Model.PatternSyntax Model.PatternShow.
Import ListNotations. Open Scope string_scope. Open Scope N_scope.
Definition k (kd : tkind) (s : string) := Tok kd (u s).
"""

FLAGS = ["neg_eq", "neg_order", "neg_set", "neg_like", "neg_regex", "neg_subset", "neg_superset", "within_float",
         "float_pos", "key_quote", "hex_empty", "rt_append", "star_quoted"]     # order = fields of PatternSyntax.cfg
# flag -> (finding id when the code matches the defective variant, witness text, witness tree)
_pa = ["path", ["IdentifierWithoutHyphen", "a"], ["IdentifierWithoutHyphen", "b"], []]
_one = ["IntPosLiteral", "1"]
_sx = ["StringLiteral", "'x'"]
WITNESS = {
    "neg_eq": ("C10-not-neq-loses-negation", ["eq", _pa, True, ["NEQ", "!="], _one]),
    "neg_order": ("C10-not-order-typeerror", ["ord", _pa, True, ["GT", ">"], _one]),
    "neg_set": ("C10-not-dropped-in", ["set", _pa, True, [_one, ["IntPosLiteral", "2"]]]),
    "neg_like": ("C10-not-dropped-like", ["str", "LIKE", _pa, True, _sx]),
    "neg_regex": ("C10-not-dropped-matches", ["str", "MATCHES", _pa, True, _sx]),
    "neg_subset": ("C10-not-dropped-issubset", ["str", "ISSUBSET", _pa, True, _sx]),
    "neg_superset": ("C10-not-dropped-issuperset", ["str", "ISSUPERSET", _pa, True, _sx]),
}
WITNESS_TREE = {f: G.simple(pt) for f, (_, pt) in WITNESS.items()}
WITNESS_TREE["within_float"] = [[[["qual", ["simple", [[["eq", _pa, False, ["EQ", "="], _one]]]], ["within", ["FloatPosLiteral", "5.5"]]]]]]
_eq1 = lambda pa: G.simple(["eq", pa, False, ["EQ", "="], _one])     # noqa: E731
_lit = lambda t: G.simple(["eq", _pa, False, ["EQ", "="], t])        # noqa: E731
_pk = lambda steps: ["path", ["IdentifierWithoutHyphen", "a"], ["IdentifierWithoutHyphen", "b"], steps]   # noqa: E731
_rt_stale = [[[["simple", [[["paren", [[["eq", ["path", ["IdentifierWithoutHyphen", t], ["IdentifierWithoutHyphen", "b"], []], False,
                                          ["EQ", "="], _one]] for t in ("x", "y", "a")]],
                            ["eq", _pa, False, ["EQ", "="], _one]]]]]]]
WITNESS_TREE["float_pos"] = _lit(["FloatPosLiteral", "0.00001"])
WITNESS_TREE["key_quote"] = _eq1(_pk([["key", ["StringLiteral", "'a b'"]]]))
WITNESS_TREE["hex_empty"] = _lit(["HexLiteral", "h''"])
WITNESS_TREE["rt_append"] = _rt_stale
WITNESS_TREE["star_quoted"] = _eq1(_pk([["key", ["StringLiteral", "'a-b'"]], ["idx", ["ASTERISK", "*"]]]))
FLAG_FINDING = {f: w[0] for f, w in WITNESS.items()}
FLAG_FINDING.update({"within_float": "C10-within-float-valueerror", "float_pos": "C10-float-exponent-notation",
                     "key_quote": "C10-quoted-key-printed-unquoted", "hex_empty": "C10-empty-hex-valueerror",
                     "rt_append": "C10-chain-root-types-stale", "star_quoted": "C10-quoted-key-star-attributeerror"})
# defect classes without a variant, and further witnesses of the others: (finding id, witness tree)
FIXED_WITNESS = [
    ("C10-exists-unhandled", G.simple(["exists", False, _pa])),
    ("C10-exists-unhandled", G.simple(["exists", True, _pa])),
    ("C10-float-exponent-notation", _lit(["FloatPosLiteral", "10000000000000000.0"])),
    ("C10-quoted-key-printed-unquoted", _eq1(_pk([["key", ["StringLiteral", "'it\\'s'"]]]))),
    ("C10-quoted-key-printed-unquoted", _eq1(_pk([["key", ["StringLiteral", "'AND'"]]]))),
    ("C10-index-after-index-attributeerror", _eq1(_pk([["idx", ["IntPosLiteral", "1"]], ["idx", ["IntPosLiteral", "2"]]]))),
    ("C10-timestamp-unrepresentable", _lit(["TimestampLiteral", "t'2020-01-01T00:00:00.1234567Z'"])),
    ("C10-timestamp-unrepresentable", _lit(["TimestampLiteral", "t'2016-12-31T23:59:60Z'"])),
    ("C10-year-below-1000", _lit(["TimestampLiteral", "t'0999-01-02T03:04:05Z'"])),
]


def cfg_term(cfg):
    return "(Cfg %s)" % " ".join("true" if cfg[f] else "false" for f in FLAGS)


def parse_case(tree, rng=None, fancy=0.0, version="2.1"):
    return {"kind": "parse", "cst": tree, "text": G.text_of(G.y_fb(tree), rng, fancy), "version": version}


ENV_KEYS = ("tz", "forms", "alt_k", "hashseed", "hist")      # how a case is to be run (alternate run): kept by derived cases


def carry(src, c):
    for k in ENV_KEYS:
        if k in src:
            c[k] = src[k]
    return c


def run_cases(cases, procs=None, ordered=False):
    """the implementation worker over cases; cases that ask for another PYTHONHASHSEED go to interpreters started with
    it.  ordered: contiguous chunks (neighbouring cases stay neighbours in one interpreter) instead of strided ones."""
    if not cases:
        return []
    out = [None] * len(cases)
    groups = {}
    for i, c in enumerate(cases):
        groups.setdefault(c.get("hashseed"), []).append(i)
    for hs, idx in groups.items():
        args = ("--hashseed=%s" % hs,) if hs is not None else ()
        sub = [cases[i] for i in idx]
        if ordered:
            from concurrent.futures import ThreadPoolExecutor
            n = procs or min(common.NCPU, max(1, len(sub) // 200))
            size = -(-len(sub) // n)
            chunks = [sub[j:j + size] for j in range(0, len(sub), size)]
            with ThreadPoolExecutor(max_workers=len(chunks)) as ex:
                parts = list(ex.map(lambda ch: common.run_impl("c10_impl", ch, procs=1, args=args), chunks))
            res = [r for part in parts for r in part]
        else:
            res = common.run_impl("c10_impl", sub, procs=procs, args=args)
        for i, r in zip(idx, res):
            out[i] = r
    return out


# --------------------------------------------------------------------------
# comparison of one case: model line vs implementation observations

HASH_MASK = (1 << 61) - 1


def hash_text(s):
    """Model/PatternShow.hash_go over the ASCII rendering"""
    h = 7
    for ch in s.encode("ascii"):
        h = (h * 131 + ch) & HASH_MASK
    return str(h)


class Full:
    """fields of the model line are printed in full"""
    run_case, run_prog = "run_case", "run_prog"

    @staticmethod
    def eq(model_field, impl_text):
        return impl_text is not None and model_field == impl_text


class Hashed:
    """fields of the model line are hashes"""
    run_case, run_prog = "run_case_h", "run_prog_h"

    @staticmethod
    def eq(model_field, impl_text):
        return impl_text is not None and model_field == hash_text(impl_text)


def model_parse_term(cfg, c, mode=Hashed):
    return "%s %s %s" % (mode.run_case, cfg_term(cfg), G.c_fb(c["cst"]))


def model_prog_term(cfg, c, mode=Hashed):
    return "%s %s %s" % (mode.run_prog, cfg_term(cfg), G.a_expr(c["spec"]))


def norm_ast(s):
    """implementation dump -> the model's vocabulary"""
    if s is None:
        return None
    if s.startswith("JUNK"):
        return "EXC Junk"
    return s


CURRENT = {"cfg": None}      # the variant selected for this run


def compare_parse(c, r, line, mode=Full):
    """list of (field, impl, model) differences"""
    m = line.split("\t")
    if len(m) != 8:
        return [("line", None, line[:200])]
    shape, kind, res, text, toks, m_cst, m_ast, flags = m
    eq = mode.eq
    d = []
    if not eq(shape, r.get("tree")):
        d.append(("tree", r.get("tree"), shape))
    if not eq(m_cst, r.get("m_tree")):
        d.append(("meaning of the parse tree", r.get("m_tree"), m_cst))
    ia = norm_ast(r.get("ast"))
    fs = G.features(c["cst"])
    if "C10-exists-unhandled" in fs:
        # the object model has no class for EXISTS: the visitor leaves a Python list inside the object, which the
        # model calls Junk at the point of creation while Python fails later (or never); only failure is compared
        if not ((ia or "").startswith("EXC") and kind.startswith("EXC")):
            d.append(("visitor result (EXISTS)", ia, kind))
        return d
    if not eq(res, ia):
        d.append(("visitor result", ia, res if mode is Full else kind))
        return d
    if kind != "OK":
        return d
    if not eq(text, r.get("str")):
        d.append(("str()", r.get("str"), text))
    if not eq(m_ast, r.get("m_ast")):
        d.append(("meaning of the object", r.get("m_ast"), m_ast))
    key_quote = (CURRENT["cfg"] or {}).get("key_quote", False)
    if r.get("valid_out") and (key_quote or "C10-quoted-key-printed-unquoted" not in fs):
        if not eq(toks, r.get("toks")):
            d.append(("tokens of str()", r.get("toks"), toks))
        # the model's unvisit gives a tree with the printed tokens that the visitor maps back to the object
        want = "Y" + ("V" if r.get("re_ast") == r.get("ast") else "v" if (r.get("re_ast") or "").startswith("OK") else "x")
        if flags != want:
            d.append(("unvisit (yield = print, visit back)", want, flags))
        if r.get("re_tree") is None:
            d.append(("re-parse of str()", None, "model has a tree"))
    return d


def compare_prog(c, r, line, mode=Full):
    m = line.split("\t")
    if len(m) != 5:
        return [("line", None, line[:200])]
    text, m_ast, shape, res, yflag = m
    eq = mode.eq
    d = []
    if not (r.get("ast") or "").startswith("OK "):
        return [("construction", r.get("ast"), "model builds it")]
    if not eq(text, r.get("str")):
        d.append(("str()", r.get("str"), text))
    if not eq(m_ast, r.get("m_ast")):
        d.append(("meaning of the object", r.get("m_ast"), m_ast))
    if G.SEP_FINDING in G.prog_features(c["spec"]):
        # a quoted key torn apart at a separator inside its quotes (known finding): the printed text is not the text of
        # any object; object and str() are compared, what the parser makes of the debris is not
        return d
    if c.get("wg"):
        if shape == "none":
            d.append(("unvisit", "well grouped by construction", "none"))
        else:
            if yflag != "Y":
                d.append(("yield of unvisit = printed tokens", "Y", yflag))
            if not eq(shape, r.get("re_tree")):
                d.append(("tree of str()", r.get("re_tree"), shape))
            if not eq(res, norm_ast(r.get("re_ast"))):
                d.append(("visitor result on str()", norm_ast(r.get("re_ast")), res))
    elif shape != "none":
        # the model found a tree with these tokens: the real parser must find the same one
        if not eq(shape, r.get("re_tree")):
            d.append(("tree of str()", r.get("re_tree"), shape))
    return d


def compare_all(run, cfg, cases, impl, tag):
    """hashed screen of every case, then the disagreeing cases again in full for the report"""
    terms = [model_parse_term(cfg, c) if c["kind"] == "parse" else model_prog_term(cfg, c) for c in cases]
    # the few large terms (sizes family) are dealt round the shards instead of sitting in one
    nsh = -(-len(terms) // 150)
    by_cost = sorted(range(len(terms)), key=lambda i: -len(terms[i]))
    perm = [i for s in range(nsh) for i in by_cost[s::nsh]]
    plines = common.coq_eval_lines(tag, HEADER, [terms[i] for i in perm], shard=150, timeout=1200)
    lines = [None] * len(terms)
    for i, ln in zip(perm, plines):
        lines[i] = ln
    suspects = []
    for i, (c, r, line) in enumerate(zip(cases, impl, lines)):
        if c["kind"] == "parse":
            d = compare_parse(c, r, line, Hashed)
        else:
            if c["wg"] is None:      # systematic programmatic objects: the model decides whether it is well grouped
                c["wg"] = line.split("\t")[2] != "none" if line.count("\t") == 4 else False
            d = compare_prog(c, r, line, Hashed)
        if d:
            suspects.append(i)
    dis = []
    if suspects:
        sub = suspects[:40]
        terms = [model_parse_term(cfg, cases[i], Full) if cases[i]["kind"] == "parse" else model_prog_term(cfg, cases[i], Full) for i in sub]
        full = common.coq_eval_lines(tag + "f", HEADER, terms, shard=10, timeout=1200)
        for i, line in zip(sub, full):
            c, r = cases[i], impl[i]
            d = compare_parse(c, r, line, Full) if c["kind"] == "parse" else compare_prog(c, r, line, Full)
            dis.append({"case": c.get("text", c.get("spec")), "cst": c.get("cst"),
                        "differences": [{"what": w, "impl": a, "model": b} for w, a, b in (d or [("hash only", None, None)])[:3]]})
    return len(suspects), dis, lines


# --------------------------------------------------------------------------
# oracle: the property on the implementation's observations

def same_meaning(a, b):
    """equal up to redundant doubled parentheses: Par[Par[x]] says what Par[x] says
    (brackets inside constants are escaped by the renderers, so bracket matching is safe)"""
    if a is None or b is None:
        return a == b
    return a == b or collapse_par(a) == collapse_par(b)


def collapse_par(s):
    i = s.find("Par[Par[")
    while i >= 0:
        j = i + 4
        depth, k = 0, j + 3
        while k < len(s):
            if s[k] == "[":
                depth += 1
            elif s[k] == "]":
                depth -= 1
                if depth == 0:
                    break
            k += 1
        if k + 1 < len(s) and s[k + 1] == "]":
            s = s[:i] + s[j:k + 1] + s[k + 2:]
            i = s.find("Par[Par[", i)
        else:
            i = s.find("Par[Par[", i + 1)
    return s


def oracle_parse(c, r):
    """list of problem strings; empty = the property holds on this input"""
    if not r.get("valid_in"):
        return []          # not a valid pattern: nothing is demanded
    if not G.in_scope(c["cst"]):
        return []          # unreal date or AND over disjoint object types: rejection is deliberate
    ast = r.get("ast") or ""
    if not ast.startswith("OK "):
        return ["create_pattern_object raises/returns %s on a valid pattern" % ast]
    out = []
    if r.get("str") is None:
        return ["str() of the object raises %s" % r.get("str_exc")]
    if not r.get("valid_out"):
        return ["the printed text is not a valid pattern: %r" % r.get("str_raw")]
    if not same_meaning(r.get("m_tree"), r.get("re_m_tree")):
        out.append("the printed text means something else: %s, the input meant %s" % (r.get("re_m_tree"), r.get("m_tree")))
    if not same_meaning(r.get("m_ast"), r.get("m_tree")):
        out.append("the object model means something else: %s, the input meant %s" % (r.get("m_ast"), r.get("m_tree")))
    if r.get("re_str") != r.get("str"):
        out.append("printing is not a fixed point: %r prints again as %r" % (r.get("str"), r.get("re_str")))
    return out


def oracle_prog(c, r):
    """objects assembled from the public classes: the object is what was assembled (compared with the
    generator's own reading of its specification); if it is well grouped, its text is a valid pattern that
    parses back to the same structure, also through the visitor, and prints again to the same text"""
    ast = r.get("ast") or ""
    if not ast.startswith("OK "):
        return []          # the classes refused to build it
    out = []
    want = G.prog_meaning(c["spec"])
    if not same_meaning(r.get("m_ast"), want):
        out.append("the object is not what was assembled: it means %s, the classes were given %s" % (r.get("m_ast"), want))
    if not c.get("wg"):
        return out
    if r.get("str") is None:
        return out + ["str() of the object raises %s" % r.get("str_exc")]
    if not r.get("valid_out"):
        return out + ["the printed text is not a valid pattern: %r" % r.get("str_raw")]
    if not same_meaning(r.get("re_m_tree"), want):
        out.append("the printed text parses to another structure: %s, assembled was %s" % (r.get("re_m_tree"), want))
    if (r.get("re_ast") or "").startswith("OK ") and not same_meaning(r.get("re_m_ast"), want):
        out.append("the re-parsed object means something else: %s, assembled was %s" % (r.get("re_m_ast"), want))
    if not (r.get("re_ast") or "").startswith("OK "):
        out.append("the printed text does not parse back into the object model: %s" % r.get("re_ast"))
    return out


# --------------------------------------------------------------------------

def select_variant(run):
    """run the witness of every variant flag on the implementation and on both
    variants of the model; the flag is the variant whose result the code gives"""
    flags = list(FLAGS)
    cases = [parse_case(WITNESS_TREE[f]) for f in flags]
    impl = run_cases(cases, procs=1)
    rep = {f: True for f in FLAGS}
    pin = {f: False for f in FLAGS}
    terms = []
    for f, c in zip(flags, cases):
        terms.append(model_parse_term(rep, c, Full))
        terms.append(model_parse_term(pin, c, Full))
    lines = common.coq_eval_lines("c10v", HEADER, terms)
    cfg, detail = {}, {}
    for i, (f, c, r) in enumerate(zip(flags, cases, impl)):
        ok_rep = not compare_parse(c, r, lines[2 * i])
        ok_pin = not compare_parse(c, r, lines[2 * i + 1])
        if ok_rep:
            cfg[f] = True
            detail[f] = "repaired"
        elif ok_pin:
            cfg[f] = False
            detail[f] = "defective"
        else:
            cfg[f] = True
            detail[f] = "neither"
            run.broken.append(Broken("correspondence", "variant witness %s: %r matches neither variant of the model" % (f, c["text"]),
                                     {"impl": {k: r.get(k) for k in ("ast", "str")}, "repaired": lines[2 * i], "defective": lines[2 * i + 1]}))
    run.coverage["variant"] = detail
    return cfg


def attribute(run, cases, results, problems_of, label):
    """Turn oracle failures into Violations.  A failure on a tree that contains
    constructs of known defect classes is attributed to a class only if the tree
    with ALL such constructs neutralised passes the oracle and the tree with all
    OTHER classes neutralised (this one kept) still fails; anything else is
    unclassified (a VIOLATION)."""
    failing = [(i, p) for i, p in enumerate(problems_of) if p]
    retry, key = [], []
    feats = {}

    def neutral(c, ids):
        if c["kind"] == "parse":
            return carry(c, parse_case(G.neutralise(c["cst"], ids), version=c.get("version", "2.1")))
        return carry(c, {"kind": "prog", "spec": G.prog_neutralise(c["spec"], ids), "wg": c.get("wg"), "version": c.get("version", "2.1")})

    for i, p in failing:
        c = cases[i]
        fs = sorted(G.features(c["cst"]) if c["kind"] == "parse" else G.prog_features(c["spec"]))
        feats[i] = fs
        if fs:
            retry.append(neutral(c, set(fs)))
            key.append((i, None))
            if len(fs) > 1:
                for f in fs:
                    retry.append(neutral(c, set(fs) - {f}))
                    key.append((i, f))
    rres = run_cases(retry, procs=min(common.NCPU, 4)) if retry else []
    passes = {}
    for kx, c2, r2 in zip(key, retry, rres):
        passes[kx] = not (oracle_parse(c2, r2) if c2["kind"] == "parse" else oracle_prog(c2, r2))
    by_class = {}
    for i, p in failing:
        c = cases[i]
        replay = {"case": c, "problems": p}
        fs = feats.get(i, [])
        what = "%s: %s -- %s" % (label, json.dumps(c.get("text", c.get("spec")))[:300], p[0])
        blamed = []
        if fs and passes.get((i, None)):
            blamed = fs if len(fs) == 1 else [f for f in fs if not passes.get((i, f))]
        if blamed:
            for f in blamed:
                by_class[f] = by_class.get(f, 0) + 1
                run.violations.append(Violation(what, replay, finding=f))
        else:
            by_class["unclassified"] = by_class.get("unclassified", 0) + 1
            run.violations.append(Violation(what, replay, finding=None))
    return by_class


def problem_kind(p):
    """the kind of an oracle failure (what must stay the same while an input is shrunk)"""
    return p[0].split(":")[0].split(" -- ")[0][:40] if p else None


def reproduces_alone(c, kind=None):
    """does the oracle fail on this single input in a fresh interpreter (what --replay will do)?"""
    r = run_cases([c], procs=1)[0]
    p = oracle_parse(c, r) if c["kind"] == "parse" else oracle_prog(c, r)
    return bool(p) and (kind is None or problem_kind(p) == kind)


def shrink(v, rounds=40, width=60):
    """Greedy shrinking of the input of a Violation: keep a smaller tree / object as long as the
    oracle fails on it in the same way and with the same attribution features."""
    c = v.replay.get("case")
    if not c or c.get("kind") not in ("parse", "prog"):
        return v
    kind = problem_kind(v.replay.get("problems"))
    feats = G.features(c["cst"]) if c["kind"] == "parse" else G.prog_features(c["spec"])
    cur, curp = c, v.replay.get("problems")
    for _ in range(rounds):
        if cur["kind"] == "parse":
            cands = [carry(cur, parse_case(t, version=cur.get("version", "2.1"))) for t in G.shrink_candidates(cur["cst"])]
            cands = [x for x in cands if G.features(x["cst"]) <= feats and G.in_scope(x["cst"])]
        else:
            cands = [carry(cur, {"kind": "prog", "spec": sp, "wg": cur.get("wg"), "version": cur.get("version", "2.1")})
                     for sp in G.shrink_candidates_prog(cur["spec"]) if G.prog_features(sp) <= feats]
        cands.sort(key=lambda x: len(json.dumps(x.get("cst", x.get("spec")))))
        cands = cands[:width]
        if not cands:
            break
        res = run_cases(cands, procs=1)
        nxt = None
        for x, r in zip(cands, res):
            p = oracle_parse(x, r) if x["kind"] == "parse" else oracle_prog(x, r)
            if p and problem_kind(p) == kind:
                nxt, nxtp = x, p
                break
        if nxt is None:
            break
        cur, curp = nxt, nxtp
    if cur is not c and not reproduces_alone(cur, kind):
        cur = c           # candidates of one round share an interpreter; keep only what fails on its own
    if cur is not c:
        what = "%s: %s -- %s" % (v.what.split(":")[0], json.dumps(cur.get("text", cur.get("spec")))[:300], curp[0])
        return Violation(what, {"case": cur, "problems": curp, "shrunk_from": c.get("text", c.get("spec"))}, finding=v.finding)
    return v


def source_step(run):
    """Regenerate Gen/VisitorFacts.v from the source text of /repo (translators/tr_visitor.py) and build the
    source-tied obligations Props/C10Src.v.  Inside common.Lock().  Returns the variant flags the text denotes."""
    import tr_visitor
    flags = None
    try:
        text, facts = tr_visitor.translate(common.REPO, None)
        common.write_if_changed(os.path.join(common.COQ, "Gen", "VisitorFacts.v"), text)
        flags = facts["flags"]
    except tr_visitor.TranslateError as e:
        run.broken.append(Broken("translator", "tr_visitor", {"error": str(e)}))
    except (OSError, SyntaxError, ValueError, AttributeError, IndexError, KeyError) as e:
        run.broken.append(Broken("translator", "tr_visitor", {"error": "%s: %s" % (type(e).__name__, e)}))
    if flags is not None:
        res = common.build_props("Props/C10Src.v")
        run.add_build(res, "make -C coq Props/C10.vo Props/C10Src.vo (coqc 8.16.1, full .vo) + Print Assumptions per theorem")
        run.coverage["source_text_variant"] = {f: flags[f] for f in FLAGS}
    else:
        run.coverage["obligations"] += len(common.theorems_in("Props/C10Src.v"))
    return flags


def check(run):
    thorough = run.tier == "thorough"
    n_random = 12000 if thorough else 1000
    n_prog = 4000 if thorough else 350
    depth = 4 if thorough else 3
    run.coverage["rule"] = (
        "parse trees of the 2.1 grammar: a systematic family (every propTest alternative x NOT x operator spelling x literal "
        "kind, alone / inside AND-OR chains / inside parentheses; every path-step form; every qualifier; every observation "
        "operator at every precedence and parenthesisation) plus %d random trees (depth <= %d, boundary-biased literals: "
        "escapes, signs, leading zeros, 2^63, exponent-range floats, leap days, sub-second digits), printed to text with "
        "varied whitespace, parsed by the real ANTLR parser (tree compared with the generated tree) and visited by the real "
        "visitor; the same constructs at sizes 0..256 / depths 1..11 (set elements, path steps, chains, nesting, lengths of "
        "strings, names and numbers), every keyword of either grammar version as a name; %d objects built through the public "
        "classes (well grouped by construction, plus a not-well-grouped stream); every case again in the alternate run (fresh "
        "interpreters, TZ JST-9 / EST5EDT / UTC0 / +05:45, PYTHONHASHSEED 4242, reverse order, 2.0 before 2.1 on the same text, "
        "other public argument forms; programmatic objects also with a history: paths built from a prefix of their steps, "
        "the object printed, the rest added through ObjectPath.merge / property_path, then observed). "
        "Model and implementation are compared on tree shape, visitor result or exception class, str(), tokens of str(), "
        "meaning of tree and object, and the re-parse.  A case is non-trivial when the visitor produced an object and the "
        "pattern has more than one comparison or a qualifier/parenthesis" % (n_random, depth, n_prog))
    import time
    t0 = time.time()
    with common.Lock():
        t_lock = time.time() - t0
        res = common.build_props("Props/C10.v", extra_targets=("Model/PatternShow.vo",))
        run.add_build(res, "make -C coq Props/C10.vo Props/C10Src.vo (coqc 8.16.1, full .vo) + Print Assumptions per theorem")
        src_flags = source_step(run)
    timing = {"lock_wait_s": round(t_lock, 1), "build_s": round(time.time() - t0 - t_lock, 1)}
    run.coverage["timing"] = timing
    t1 = time.time()
    try:
        cfg = select_variant(run)
    except RuntimeError as e:
        run.broken.append(Broken("correspondence", "model evaluation failed (variant selection)", {"error": str(e)[-1500:]}))
        cfg = {f: True for f in FLAGS}

    CURRENT["cfg"] = cfg
    if src_flags is not None:
        diff = {f: {"text": src_flags[f], "behaviour": cfg[f]} for f in FLAGS
                if src_flags[f] is not None and (src_flags[f] == "true") != bool(cfg[f])}
        if diff:
            run.broken.append(Broken("correspondence", "the source text and the behaviour of the witnesses denote different variants",
                                     {"differences": diff}))
    rng = run.rng
    # ---- cases
    cases = []
    for fid, tree in FIXED_WITNESS:
        cases.append(parse_case(tree))
    for f in FLAGS:
        cases.append(parse_case(WITNESS_TREE[f]))
    n_fixed = len(cases)
    for tree in G.systematic():
        cases.append(parse_case(tree))
    n_sys = len(cases) - n_fixed
    g = G.Gen(rng, depth, cfg=cfg, max_size=120 if thorough else 70)
    for i in range(n_random):
        cases.append(parse_case(g.pattern(), rng, 0.08 if i % 5 == 0 else 0.0))
    pg = G.ProgGen(rng, depth)
    for spec in G.prog_systematic():
        cases.append({"kind": "prog", "spec": spec, "wg": None, "version": "2.1"})
    for i in range(n_prog):
        wg = i % 6 != 0
        cases.append({"kind": "prog", "spec": pg.obj(wg), "wg": wg, "version": "2.1"})

    timing["variant_s"] = round(time.time() - t1, 1)
    t1 = time.time()
    impl = run_cases(cases)
    timing["impl_s"] = round(time.time() - t1, 1)
    t1 = time.time()

    # ---- model
    dis, ndis, lines = [], 0, None
    hist = {"parse": 0, "prog": 0, "visitor_ok": 0, "visitor_exc": 0, "invalid_text": 0, "out_of_scope": 0, "prog_not_well_grouped": 0}
    try:
        ndis, dis, lines = compare_all(run, cfg, cases, impl, "c10")
    except RuntimeError as e:
        run.broken.append(Broken("correspondence", "model evaluation failed", {"error": str(e)[-1500:]}))
    timing["model_s"] = round(time.time() - t1, 1)
    # ---- the 2.0 grammar of the installed parser (= the 2.1 grammar without EXISTS): the same trees through
    #      create_pattern_object(..., version="2.0"), compared with the same model lines and the same oracle
    idx20 = [i for i, c in enumerate(cases) if c["kind"] == "parse" and i < n_fixed + n_sys
             and "C10-exists-unhandled" not in G.features(c["cst"])]
    cases20 = [dict(cases[i], version="2.0") for i in idx20]
    # names that are keywords of the 2.1 grammar only: ordinary identifiers in 2.0 patterns (own model lines)
    only20 = [parse_case(t, version="2.0") for t in G.only20_family()]
    impl20 = run_cases(cases20 + only20)
    lines20 = []
    if lines is not None:
        try:
            lines20 = common.coq_eval_lines("c10v20", HEADER, [model_parse_term(cfg, c) for c in only20], shard=150, timeout=600)
        except RuntimeError as e:
            run.broken.append(Broken("correspondence", "model evaluation failed (2.0-only names)", {"error": str(e)[-1500:]}))
            lines = None
    cases20 += only20
    dis20 = []
    if lines is not None:
        for ln, c2, r2 in zip([lines[i] for i in idx20] + list(lines20), cases20, impl20):
            d = compare_parse(c2, r2, ln, Hashed)
            if d:
                dis20.append({"case": c2["text"], "version": "2.0", "differences": [w for w, _, _ in d[:3]]})
    run.coverage["correspondence_cases_2_0"] = len(cases20)
    # ---- alternate run: the same questions in fresh interpreters under another time zone and hash seed, in reverse
    #      order, the 2.0 question directly before the 2.1 one on the same text, through other public argument forms
    #      (version positional / default, constants from text, keyword arguments), the first ones asked a second time at
    #      the end; every answer is held against the same model line and the same oracle as the default run
    zones = ["JST-9", "EST5EDT", "UTC0", "<+0545>-5:45"]
    in20 = set(idx20)
    alt_cases, alt_of = [], []
    order = list(range(len(cases) - 1, -1, -1)) + list(range(min(200, len(cases))))
    for n, i in enumerate(order):
        env = {"tz": zones[(n // 97) % len(zones)], "forms": "alt", "alt_k": n % 6, "hashseed": "4242"}
        if i in in20 and n < len(cases):
            alt_cases.append(dict(cases[i], version="2.0", **env))
            alt_of.append(i)
        if cases[i]["kind"] == "prog" and n % 3:
            # a history: paths built from a prefix of their steps, the object printed, the rest added through
            # ObjectPath.merge / by extending property_path, then observed
            env["hist"] = "merge" if n % 3 == 1 else "extend"
        alt_cases.append(dict(cases[i], **env))
        alt_of.append(i)
    n_alt_main = len(alt_cases)
    for n, c in enumerate(only20):           # the 2.0-only names through every call form as well
        alt_cases.append(dict(c, tz=zones[n % len(zones)], forms="alt", alt_k=n % 6, hashseed="4242"))
        alt_of.append(None)
    t1 = time.time()
    impl_alt = run_cases(alt_cases, ordered=True)
    timing["impl_alt_s"] = round(time.time() - t1, 1)
    dis_alt = []
    if lines is not None:
        for n, (i, c2, r2) in enumerate(zip(alt_of, alt_cases, impl_alt)):
            if i is None:
                d = compare_parse(c2, r2, lines20[n - n_alt_main], Hashed) if lines20 else []
                if d:
                    dis_alt.append({"case": c2["text"], "version": "2.0", "run": {k: c2[k] for k in ENV_KEYS if k in c2},
                                    "differences": [w for w, _, _ in d[:3]]})
                continue
            d = compare_parse(c2, r2, lines[i], Hashed) if c2["kind"] == "parse" else compare_prog(c2, r2, lines[i], Hashed)
            same = None
            if c2["version"] == cases[i]["version"] and not (c2["kind"] == "parse" and "C10-exists-unhandled" in G.features(c2["cst"])):
                same = all(r2.get(k) == impl[i].get(k) for k in ("ast", "str", "m_ast", "re_ast", "re_str"))
            if d or same is False:
                dis_alt.append({"case": c2.get("text", c2.get("spec")), "version": c2["version"],
                                "run": {k: c2[k] for k in ENV_KEYS if k in c2}, "differences": [w for w, _, _ in d[:3]] or ["differs from the default run"]})
    run.coverage["alternate_run_cases"] = len(alt_cases)
    if dis_alt:
        run.broken.append(Broken("correspondence", "alternate run (time zone, hash seed, order, argument forms) vs the model / the default run",
                                 {"count": len(dis_alt), "first": dis_alt[:4]}))
    if dis20:
        run.broken.append(Broken("correspondence", "2.0 parser/visitor vs the model", {"count": len(dis20), "first": dis20[:4]}))
    for c, r in zip(cases, impl):
        hist[c["kind"]] += 1
        ok = (r.get("ast") or "").startswith("OK ")
        if c["kind"] == "parse":
            hist["visitor_ok" if ok else "visitor_exc"] += 1
            if not r.get("valid_in"):
                hist["invalid_text"] += 1
            elif not G.in_scope(c["cst"]):
                hist["out_of_scope"] += 1
            run.count(c["text"], nontrivial=ok and G.has_compound(c["cst"]))
        else:
            if not c.get("wg"):
                hist["prog_not_well_grouped"] += 1
            run.count(c["spec"], nontrivial=ok and c["spec"]["k"] != "obs")
    run.coverage["distribution"] = hist
    run.coverage["correspondence_cases"] = len(cases)
    run.coverage["correspondence_disagreements"] = ndis
    if ndis:
        run.broken.append(Broken("correspondence", "Model/PatternSyntax.v vs stix2.pattern_visitor / stix2.patterns / the ANTLR parser",
                                 {"count": ndis, "first": [{k: v for k, v in x.items() if k != "cst"} for x in dis[:4]]}))
    rejected = [c["text"] for c, r in zip(cases, impl) if c["kind"] == "parse" and r.get("tree") is None]
    if rejected:     # a generated tree whose text the real parser refuses: the datatype is not the grammar
        run.broken.append(Broken("correspondence", "generated parse trees whose text the real parser rejects",
                                 {"count": len(rejected), "first": rejected[:3]}))

    # ---- oracle
    problems = [oracle_parse(c, r) if c["kind"] == "parse" else oracle_prog(c, r) for c, r in zip(cases, impl)]
    by_class = attribute(run, cases, impl, problems, "pattern")
    problems20 = [oracle_parse(c, r) for c, r in zip(cases20, impl20)]
    by_class20 = attribute(run, cases20, impl20, problems20, "pattern (2.0 grammar)")
    run.coverage["oracle_failures_by_class_2_0"] = by_class20
    problems_alt = [oracle_parse(c, r) if c["kind"] == "parse" else oracle_prog(c, r) for c, r in zip(alt_cases, impl_alt)]
    # only what the default run did not already report: a failure of the same input there is the same failure
    failed_default = {i for i, p in enumerate(problems) if p}
    problems_alt = [p if (p and (i is None or i not in failed_default or c["version"] != cases[i]["version"])) else []
                    for i, c, p in zip(alt_of, alt_cases, problems_alt)]
    for c in alt_cases:
        if c["kind"] == "prog" and c.get("wg") is None:
            c["wg"] = False
    by_class_alt = attribute(run, alt_cases, impl_alt, problems_alt, "pattern (alternate run: TZ, hash seed, order, argument forms, print-then-mutate history)")
    run.coverage["oracle_failures_by_class_alternate_run"] = by_class_alt
    size = lambda v: len(json.dumps(v.replay.get("case", {}).get("text") or v.replay.get("case", {}).get("spec") or ""))   # noqa: E731
    # smallest failing input first; the unclassified ones that will be printed are shrunk
    run.violations.sort(key=size)
    # an unclassified failure is reported with an input that fails on its own in a fresh interpreter (some defects
    # depend on what the worker process converted before); others are kept only if none reproduces alone
    unl_all = [v for v in run.violations if v.finding is None]
    unl, history = [], []
    for v in unl_all[:40]:
        if len(unl) >= 5:
            break
        (unl if reproduces_alone(v.replay["case"]) else history).append(v)
    if unl:
        drop = {id(v) for v in history}
        run.violations = [v for v in run.violations if id(v) not in drop]
        run.coverage["history_dependent_failures_dropped"] = len(history)
    shrunk = {id(v): shrink(v) for v in unl}
    seen_inputs, kept = set(), []
    for v in [shrunk.get(id(v), v) for v in run.violations]:
        key = (v.finding, json.dumps(v.replay.get("case", {}).get("text") or v.replay.get("case", {}).get("spec"), sort_keys=True))
        if v.finding is None and key in seen_inputs:
            continue
        seen_inputs.add(key)
        kept.append(v)
    run.violations = sorted(kept, key=size)
    run.coverage["oracle_failures_by_class"] = by_class
    # variant flags: the witness of a defective flag must have been reported
    for f in FLAGS:
        if not cfg[f] and FLAG_FINDING[f] not in by_class:
            run.broken.append(Broken("correspondence", "variant %s is the defective one but its witness passes the oracle" % f, {}))
    for c, r in list(zip(cases, impl))[:len(FIXED_WITNESS) + len(FLAGS) + 3:7]:
        run.sample({"text": c.get("text"), "impl": {k: r.get(k) for k in ("ast", "str_raw")}})
    run.coverage["trusted_base"] += [
        "coq/Model/PatternSyntax.v: hand-written model of the grammar, the visitor and the printers (compared with the implementation each run)",
        "the ANTLR-generated lexer/parser of stix2patterns 2.1.2 (grammar unambiguity is not proved; real parse trees are compared with the generated trees)",
        "harness/impl/c10_impl.py: the reading of a pattern's meaning off real parse trees and off the object model (oracle)",
        "translators/tr_visitor.py (source-text facts of pattern_visitor.py / patterns.py, fail closed) and the tables of "
        "coq/Spec/PatternSource.v they are compared with",
    ]
    run.assumptions += [
        "valid pattern = accepted by the real parser and stix2patterns' duplicate-qualifier check, every timestamp a real calendar date, "
        "every AND of comparison expressions satisfiable by one object type (the library rejects the others deliberately)",
        "floats are modelled exactly for literals of at most 15 significant digits",
        "the 2.0 grammar of the installed stix2patterns is the 2.1 grammar without EXISTS (its START/STOP take t'...' literals); "
        "the systematic family is also run with version='2.0' against the same model lines",
        "redundant doubled parentheses ((x)) and (x) are taken to mean the same (oracle); the theorems keep them apart",
    ]


def replay(payload):
    r = payload["replay"]
    c = r["case"]
    res = run_cases([c], procs=1)[0]
    print("replay %s" % json.dumps(c.get("text", c.get("spec")))[:400])
    for k in ("valid_in", "ast", "str_raw", "valid_out", "m_tree", "m_ast", "re_m_tree", "re_str"):
        if k in res:
            print("  %s: %s" % (k, res[k]))
    p = oracle_parse(c, res) if c["kind"] == "parse" else oracle_prog(c, res)
    for x in p:
        print("  problem: %s" % x)
    if p:
        print("VIOLATION property=C10 replay=(given)")
        return 1
    print("no violation on this input")
    return 0

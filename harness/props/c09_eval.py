"""C09 oracle: an independent small evaluator of STIX patterns (abstract ASTs
of c09_gen) over explicit sequences of observations, used ONLY to find an
input on which two patterns reported equivalent match differently.  It shares
no code with stix2.

Semantics (DESIGN.md Appendix A.5).  An observation is (time, [SCO]); an SCO
is (type, {concrete path: value}).  A comparison expression is evaluated
against ONE SCO (STIX 2.1 9.4: all comparison expressions of an observation
expression must match the same SCO); an atom is false on an SCO of another
type or without the property.  [c] binds {i} when some SCO of observation i
satisfies c; AND = disjoint unions; OR = union; FOLLOWEDBY = disjoint unions
with every time of an earlier operand <= every time of a later one; REPEATS n
= n pairwise disjoint bindings; WITHIN d = all times within d seconds; START
s STOP t = all times in [s, t).  A pattern matches when some binding exists.

Special values: on ipv4-addr:value / ipv6-addr:value both sides are reduced
to the CIDR network they denote (platform inet_aton / inet_pton, own
masking), on windows-registry-key key / values[].name comparison is
case-insensitive (MATCHES = the regular expression as written, with
IGNORECASE) -- the context-sensitive equalities the normaliser documents.
"""
import base64
import decimal
import ipaddress
import itertools
import re
import socket
from fractions import Fraction

from . import c09_gen as G

# ---------------------------------------------------------------- values


def den(k):
    t = k[0]
    if t == "int":
        return ("num", Fraction(k[1]))
    if t == "float":
        return ("num", Fraction(decimal.Decimal(k[1])))
    if t == "str":
        return ("str", k[1])
    if t == "bool":
        return ("bool", bool(k[1]))
    if t == "time":
        return ("time", G.time_micros(k[1]))
    if t == "hex":
        return ("bytes", bytes.fromhex(k[1]))
    if t == "bin":
        return ("bytes", base64.b64decode(k[1]))
    if t == "list":
        return ("list", [den(x) for x in k[1]])
    raise ValueError(k)


def special_kind(typ, steps):
    names = [("k", s[1]) if s[0] in ("k", "q") else s for s in steps]
    if typ in ("ipv4-addr", "ipv6-addr") and names == [("k", "value")]:
        return "ip4" if typ == "ipv4-addr" else "ip6"
    if typ == "windows-registry-key":
        if names == [("k", "key")]:
            return "reg"
        if len(names) == 3 and names[0] == ("k", "values") and names[1][0] in ("i", "star") and names[2] == ("k", "name"):
            return "reg"
    return None


def ip_canon(kind, s):
    """the network a CIDR / address string denotes, as text; the string itself if it denotes none"""
    if "\x00" in s:
        return s
    ip, sl, pfx = s.partition("/")
    bits = 32 if kind == "ip4" else 128
    try:
        raw = socket.inet_aton(ip) if kind == "ip4" else socket.inet_pton(socket.AF_INET6, ip)
    except (OSError, ValueError):
        return s
    n = bits
    if sl:
        try:
            n = int(pfx)
        except ValueError:
            return s
        if n < 0 or n > bits:
            return s
    v = int.from_bytes(raw, "big")
    v = (v >> (bits - n)) << (bits - n) if n < bits else v
    return "%s:%x/%d" % (kind, v, n)


def ip_text_canon(kind, s):
    """the canonical TEXT the normaliser is documented to produce for an address / CIDR string
    (own masking; platform inet_* for parsing and printing); the string itself if it is none"""
    if "\x00" in s:
        return s
    ip, sl, pfx = s.partition("/")
    bits = 32 if kind == "ip4" else 128
    try:
        raw = socket.inet_aton(ip) if kind == "ip4" else socket.inet_pton(socket.AF_INET6, ip)
    except (OSError, ValueError):
        return s
    n = bits
    if sl:
        try:
            n = int(pfx)
        except ValueError:
            return s
        if n < 0 or n > bits:
            return s
    v = int.from_bytes(raw, "big")
    v = (v >> (bits - n)) << (bits - n) if n < bits else v
    raw = v.to_bytes(bits // 8, "big")
    txt = socket.inet_ntoa(raw) if kind == "ip4" else socket.inet_ntop(socket.AF_INET6, raw)
    return txt if n == bits else "%s/%d" % (txt, n)


def canon_value(kind, v):
    if kind is None or v[0] != "str":
        return v
    if kind == "reg":
        return ("str", v[1].lower())
    return ("str", ip_canon(kind, v[1]))


def like_to_re(p):
    out = []
    for ch in p:
        out.append(".*" if ch == "%" else "." if ch == "_" else re.escape(ch))
    return "^" + "".join(out) + "$"


def net(s):
    try:
        return ipaddress.ip_network(s, strict=False)
    except ValueError:
        pass
    # spellings the platform parser accepts and ipaddress does not (leading zeros, short forms)
    for kind in ("ip4", "ip6"):
        t = ip_text_canon(kind, s)
        if t != s:
            try:
                return ipaddress.ip_network(t, strict=False)
            except ValueError:
                return None
    return None


def test(op, v, d, kind):
    """one observed value against the denotation of the constant"""
    if op == "IN":
        return d[0] == "list" and any(canon_value(kind, v) == canon_value(kind, m) for m in d[1])
    if op == "MATCHES":
        if v[0] != "str" or d[0] != "str":
            return False
        try:
            return re.search(d[1], v[1], re.S | (re.I if kind == "reg" else 0)) is not None
        except (re.error, RecursionError, OverflowError):
            return False
    if op in ("ISSUBSET", "ISSUPERSET"):
        if v[0] != "str" or d[0] != "str":
            return False
        a, b = net(v[1]), net(d[1])
        if a is None or b is None or a.version != b.version:
            return False
        return a.subnet_of(b) if op == "ISSUBSET" else b.subnet_of(a)
    cv, cd = canon_value(kind, v), canon_value(kind, d)
    if op == "LIKE":
        if cv[0] != "str" or cd[0] != "str":
            return False
        return re.match(like_to_re(cd[1]), cv[1], re.S) is not None
    if op == "=":
        return cv == cd
    if op == "!=":
        return cv != cd
    if cv[0] != cd[0] or cv[0] in ("bool", "list"):
        return False
    a, b = cv[1], cd[1]
    return a < b if op == "<" else a <= b if op == "<=" else a > b if op == ">" else a >= b


def path_matches(steps, concrete):
    if len(steps) != len(concrete):
        return False
    for s, c in zip(steps, concrete):
        if s[0] == "star":
            if c[0] != "i":
                return False
        elif s[0] in ("k", "q"):
            if c != ("k", s[1]):
                return False
        elif s != c:
            return False
    return True


def atom_true(a, sco):
    _, typ, steps, op, neg, k = a
    if sco[0] != typ:
        return False
    kind = special_kind(typ, steps)
    d = den(k)
    for cp, v in sco[1].items():
        if path_matches(steps, cp):
            r = test(op, v, d, kind)
            if r != bool(neg):
                return True
    return False


def c_true(c, sco):
    t = c[0]
    if t == "atom":
        return atom_true(c, sco)
    if t == "and":
        return all(c_true(x, sco) for x in c[1])
    return any(c_true(x, sco) for x in c[1])


# ---------------------------------------------------------------- bindings

LIMIT = 4000


class TooBig(Exception):
    pass


def combos(parts, times, ordered):
    """unions of one binding per part, pairwise disjoint (and time-ordered)"""
    acc = [frozenset()]
    accs = [[]]
    for bs in parts:
        nxt, nxts = [], []
        for cur, hist in zip(acc, accs):
            for b in bs:
                if cur & b:
                    continue
                if ordered and b and any(h and max(times[i] for i in h) > min(times[j] for j in b) for h in hist):
                    continue
                nxt.append(cur | b)
                nxts.append(hist + [b])
        if len(nxt) > LIMIT:
            raise TooBig()
        acc, accs = nxt, nxts
    return set(acc)


def bindings(e, obs, times):
    t = e[0]
    if t == "obs":
        return {frozenset([i]) for i, o in enumerate(obs) if any(c_true(e[1], s) for s in o[1])}
    if t == "oor":
        out = set()
        for x in e[1]:
            out |= bindings(x, obs, times)
        return out
    if t in ("oand", "ofby"):
        return combos([bindings(x, obs, times) for x in e[1]], times, t == "ofby")
    q = e[2]
    inner = bindings(e[1], obs, times)
    if q[0] == "repeat":
        return combos([inner] * q[1], times, False) if q[1] <= len(obs) + 1 else set()
    if q[0] in ("within", "withinf"):
        d = int(Fraction(decimal.Decimal(str(q[1]))) * 1000000)
        return {b for b in inner if not b or max(times[i] for i in b) - min(times[i] for i in b) <= d}
    s, u = G.time_micros(q[1]), G.time_micros(q[2])
    return {b for b in inner if all(s <= times[i] < u for i in b)}


def matches(p, obs):
    times = [o[0] for o in obs]
    return bool(bindings(p, obs, times))


# ---------------------------------------------------------------- universe

def atoms_of(p):
    return [x for _, x in G.positions(p) if x[0] == "atom"]


def variants(rng, v, kind):
    t = v[0]
    out = [v]
    if t == "num":
        out += [("num", v[1] + 1), ("num", v[1] - 1)]
    elif t == "str":
        s = v[1]
        out += [("str", s + "x"), ("str", s.swapcase()), ("str", s.lower()), ("str", s.upper())]
        if kind in ("ip4", "ip6"):
            out += [("str", x) for x in (["1.2.3.0/24", "1.2.3.77/24", "1.2.3.4", "1.2.3.4/32", "1.2.3.0/25", "1.2.3.128/25", "10.1.2.3/8",
                                          "10.0.0.0/8", "1.0.0.2", "127.0.0.1", "8.1.1.1"] if kind == "ip4" else
                                         ["2001:db8::1", "2001:db8::/64", "2001:db8::ffff/64", "::1", "::", "::/0", "1::/16",
                                          "::ffff:1.2.3.4", "::1.2.3.4", "2001:db8::1:0:0:1"])]
        else:
            out += [("str", x) for x in ("5", "ab", "a_b", "foo", "Foo.exe", "D", "d", "9", "_", "HKLM\\foo\\bar")]
    elif t == "bool":
        out += [("bool", not v[1])]
    elif t == "time":
        out += [("time", v[1] + 1000000), ("time", v[1] - 1), ("time", v[1] + 1)]
    elif t == "bytes":
        out += [("bytes", v[1] + b"\x00"), ("bytes", v[1][:-1])]
    return out


def concretise(rng, steps):
    return tuple(("k", s[1]) if s[0] in ("k", "q") else ("i", rng.choice([0, 1])) if s[0] == "star" else s for s in steps)


def collect_times(p, acc):
    for _, x in G.positions(p):
        if x[0] == "qual":
            q = x[2]
            if q[0] == "startstop":
                acc["abs"] += [G.time_micros(q[1]), G.time_micros(q[2])]
            elif q[0] in ("within", "withinf"):
                acc["gap"].append(int(Fraction(decimal.Decimal(str(q[1]))) * 1000000))


def universe(rng, pats, count):
    """`count` observation sequences built from the constants of the patterns"""
    atoms = []
    tacc = {"abs": [], "gap": []}
    for p in pats:
        atoms += atoms_of(p)
        collect_times(p, tacc)
    if not atoms:
        return []
    by_type = {}
    cands = {}
    for a in atoms:
        _, typ, steps, op, neg, k = a
        kind = special_kind(typ, steps)
        by_type.setdefault(typ, []).append(a)
        d = den(k)
        vals = d[1] if d[0] == "list" else [d]
        for fam in (tuple(("k", s[1]) if s[0] in ("k", "q") else s for s in steps),):
            c = cands.setdefault((typ, fam), [])
            for v in vals:
                for w in variants(rng, v, kind):
                    if w not in c:
                        c.append(w)
            if not vals:
                c.append(("num", Fraction(0)))
    types = sorted(by_type)
    base = tacc["abs"] or [1389596597000000]
    gaps = sorted(set(tacc["gap"] + [0, 1000000, 5000000]))
    tpool = []
    for b in base:
        for g in gaps[:4] + [-1, -1000000]:
            tpool += [b + g, b + g + 1]
    out = []
    for _ in range(count):
        n = rng.choice([1, 1, 2, 2, 3, 3, 4])
        seq = []
        t0 = rng.choice(tpool)
        for _i in range(n):
            scos = []
            for _s in range(rng.choice([1, 1, 1, 2])):
                typ = rng.choice(types)
                props = {}
                for a in by_type[typ]:
                    if rng.random() < 0.8:
                        fam = tuple(("k", s[1]) if s[0] in ("k", "q") else s for s in a[2])
                        props[concretise(rng, a[2])] = rng.choice(cands[(typ, fam)])
                scos.append((typ, props))
            t = rng.choice(tpool) if rng.random() < 0.5 else t0 + rng.choice(gaps + [g + 1 for g in gaps])
            seq.append((t, scos))
        out.append(seq)
    return out


def differ(rng, p, q, count=40):
    """an observation sequence on which p and q match differently, or None"""
    try:
        for seq in universe(rng, [p, q], count):
            mp, mq = matches(p, seq), matches(q, seq)
            if mp != mq:
                return {"matches_first": mp, "matches_second": mq, "observations": show_seq(seq), "seq": seq_to_json(seq)}
    except TooBig:
        return None
    return None


def show_seq(seq):
    def sv(v):
        if v[0] == "num":
            return str(v[1])
        if v[0] == "bytes":
            return "bytes:" + v[1].hex()
        return "%s:%s" % (v[0], v[1])
    return [{"time_us": t, "objects": [{"type": s[0], "props": {G.print_path("", list(cp))[0][1:]: sv(v) for cp, v in s[1].items()}}
                                        for s in scos]} for t, scos in seq]


# ---------------------------------------------------------------- JSON forms (replay files)

def to_json(x):
    if isinstance(x, (tuple, list)):
        return [to_json(y) for y in x]
    return x


def ast_from_json(x):
    """lists whose head is a tag string become tuples again"""
    if isinstance(x, list):
        conv = [ast_from_json(y) for y in x]
        if conv and isinstance(conv[0], str) and isinstance(x[0], str) and _is_tag(x):
            return tuple(conv)
        return conv
    return x


_TAGS = {"atom", "and", "or", "obs", "oand", "oor", "ofby", "qual", "k", "q", "i", "star", "int", "float", "str", "bool",
         "time", "hex", "bin", "list", "repeat", "within", "withinf", "startstop"}


def _is_tag(x):
    return x[0] in _TAGS


def seq_to_json(seq):
    def sv(v):
        if v[0] == "num":
            return ["num", str(v[1])]
        if v[0] == "bytes":
            return ["bytes", v[1].hex()]
        return [v[0], v[1]]
    return [[t, [[s[0], [[to_json(cp), sv(v)] for cp, v in s[1].items()]] for s in scos]] for t, scos in seq]


def seq_from_json(js):
    def vs(v):
        if v[0] == "num":
            return ("num", Fraction(v[1]))
        if v[0] == "bytes":
            return ("bytes", bytes.fromhex(v[1]))
        return (v[0], v[1])
    return [(t, [(s[0], {tuple(tuple(st) for st in cp): vs(v) for cp, v in s[1]}) for s in scos]) for t, scos in js]

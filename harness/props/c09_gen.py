"""C09 helpers: abstract pattern ASTs, grammar-directed generator, printer
(text + the object model the visitor is expected to build), documented
rewrites / edits for pairs and triples, rendering of the implementation's dump
as a Gallina term and in the model's `show_*` syntax.

Abstract AST (n-ary, no parentheses; tuples):
  comparison level  ('atom', type, steps, op, neg, const) | ('and', [..]) | ('or', [..])
     steps   ('k', name) | ('q', name)  quoted key | ('i', n) | ('star',)
     op      '=' '!=' '<' '<=' '>' '>=' 'IN' 'LIKE' 'MATCHES' 'ISSUBSET' 'ISSUPERSET'
     const   ('int', n, plus) ('float', literal text) ('str', denoted string) ('bool', b)
             ('time', literal text without t'..') ('hex', text) ('bin', text) ('list', [const..])
  observation level ('obs', C) | ('oand', [..]) | ('oor', [..]) | ('ofby', [..]) | ('qual', E, Q)
     Q       ('repeat', n) | ('within', n) | ('withinf', literal text) | ('startstop', t1, t2)
"""
import datetime
import decimal

# --------------------------------------------------------------------------
# printing: abstract AST -> (text, expected parse dump in c09_impl's format)
#
# The expected dump is what an ideal visitor builds: `negated` = NOT xor '!='.

EPOCH = datetime.datetime(1970, 1, 1, tzinfo=datetime.timezone.utc)


def time_micros(text):
    """microseconds since the epoch of a literal YYYY-MM-DDTHH:MM:SS(.f)?Z (<= 6 fraction digits)"""
    main, _, rest = text[:-1].partition(".")
    d = datetime.datetime.strptime(main, "%Y-%m-%dT%H:%M:%S").replace(tzinfo=datetime.timezone.utc)
    us = int((rest + "000000")[:6]) if rest else 0
    dd = d - EPOCH
    return (dd.days * 86400 + dd.seconds) * 1000000 + us


def esc(s):
    return s.replace("\\", "\\\\").replace("'", "\\'")


def print_const(k):
    t = k[0]
    if t == "int":
        return ("+" if (len(k) > 2 and k[2] and k[1] >= 0) else "") + str(k[1]), ["int", k[1]]
    if t == "float":
        return k[1], ["float", repr(float(k[1]))]
    if t == "str":
        return "'" + esc(k[1]) + "'", ["str", esc(k[1])]
    if t == "bool":
        return ("true" if k[1] else "false"), ["bool", k[1]]
    if t == "time":
        return "t'" + k[1] + "'", ["time", time_micros(k[1])]
    if t == "hex":
        return "h'" + k[1] + "'", ["hex", k[1]]
    if t == "bin":
        return "b'" + k[1] + "'", ["bin", k[1]]
    if t == "list":
        parts = [print_const(x) for x in k[1]]
        return "(" + ", ".join(p[0] for p in parts) + ")", ["list", [p[1] for p in parts]]
    raise ValueError(k)


def print_path(typ, steps):
    """Text and expected raw path values (None if the visitor is known not to
    handle the shape: quoted key followed by [*], index after index)."""
    out = typ + ":"
    dump = []
    ok = True
    for n, s in enumerate(steps):
        nxt = steps[n + 1] if n + 1 < len(steps) else None
        if s[0] in ("k", "q"):
            txt = s[1] if s[0] == "k" else "'" + esc(s[1]) + "'"
            out += ("" if n == 0 else ".") + txt
            if s[0] == "k":
                dump.append(["k", s[1]])
            elif n == 0 or (nxt is not None and nxt[0] == "i"):
                dump.append(["k", "'" + esc(s[1]) + "'"])
            else:
                dump.append(["k", esc(s[1])])
                if nxt is not None and nxt[0] == "star":
                    ok = False
        elif s[0] == "i":
            out += "[%d]" % s[1]
            dump.append(["i", s[1]])
            if n > 0 and steps[n - 1][0] in ("i", "star"):
                ok = False
        else:
            out += "[*]"
            dump.append(["k", "*"])
            if n > 0 and steps[n - 1][0] in ("i", "star"):
                ok = False
    return out, (dump if ok else None)


def print_c(e, rng=None, extra=0.0):
    """-> (text, dump, level) with level 0 = OR chain, 1 = AND chain, 2 = propTest"""
    t = e[0]
    if t == "atom":
        _, typ, steps, op, neg, k = e
        ptxt, pdump = print_path(typ, steps)
        ktxt, kdump = print_const(k)
        txt = "%s %s%s %s" % (ptxt, "NOT " if neg else "", op, ktxt)
        dop = "=" if op == "!=" else op
        dneg = bool(neg) != (op == "!=")
        dump = ["atom", typ, pdump, dop, dneg, kdump]
        return txt, dump, 2
    lvl = 0 if t == "or" else 1
    parts = []
    dumps = []
    for x in e[1]:
        tx, dx, lx = print_c(x, rng, extra)
        need = lx <= lvl if lvl == 1 else lx < 1     # AND: wrap and/or operands; OR: wrap or operands
        if lvl == 0 and lx == 0:
            need = True
        if need or (rng is not None and rng.random() < extra):
            tx, dx = "(" + tx + ")", ["paren", dx]
        parts.append(tx)
        dumps.append(dx)
    return (" AND " if lvl == 1 else " OR ").join(parts), [t, dumps], lvl


def print_q(q):
    if q[0] == "repeat":
        return "REPEATS %d TIMES" % q[1], ["repeat", ["int", q[1]]]
    if q[0] == "within":
        return "WITHIN %d SECONDS" % q[1], ["within", ["int", q[1]]]
    if q[0] == "withinf":
        return "WITHIN %s SECONDS" % q[1], ["within", ["float", repr(float(q[1]))]]
    return ("START t'%s' STOP t'%s'" % (q[1], q[2]),
            ["startstop", ["time", time_micros(q[1])], ["time", time_micros(q[2])]])


O_LEVEL = {"ofby": 0, "oor": 1, "oand": 2}
O_WORD = {"ofby": " FOLLOWEDBY ", "oor": " OR ", "oand": " AND "}


def print_o(e, rng=None, extra=0.0):
    """-> (text, dump, level) with level 0 FOLLOWEDBY, 1 OR, 2 AND, 3 primary/qualified"""
    t = e[0]
    if t == "obs":
        tx, dx, _ = print_c(e[1], rng, extra)
        return "[" + tx + "]", ["obs", dx], 3
    if t == "qual":
        tx, dx, lx = print_o(e[1], rng, extra)
        if lx < 3 or (rng is not None and rng.random() < extra):
            tx, dx = "(" + tx + ")", ["oparen", dx]
        qt, qd = print_q(e[2])
        return tx + " " + qt, ["qual", dx, qd], 3
    lvl = O_LEVEL[t]
    txt = None
    dump = None
    for x in e[1]:
        tx, dx, lx = print_o(x, rng, extra)
        if lx <= lvl or (rng is not None and rng.random() < extra):
            tx, dx = "(" + tx + ")", ["oparen", dx]
        if txt is None:
            txt, dump = tx, dx
        else:
            txt, dump = txt + O_WORD[t] + tx, [t, [dump, dx]]     # the parser nests to the left
    return txt, dump, lvl


def strip_neg(d):
    """dump with every `negated` erased (the visitor's handling of NOT is C10's subject)"""
    if isinstance(d, list):
        if d and d[0] == "atom":
            return ["atom", d[1], d[2], d[3], None, d[5]]
        return [strip_neg(x) for x in d]
    return d


# --------------------------------------------------------------------------
# dump -> Gallina term of Model.PatternEq, and dump -> the model's show syntax

def u(s):
    out = []
    for ch in s:
        c = ord(ch)
        if 32 <= c <= 126 and ch not in '\\"':
            out.append(ch)
        else:
            out.append("\\%06X" % c)
    return '(u "%s")' % "".join(out)


def zlit(n):
    return "(%d)" % n if n < 0 else "%d" % n


def float_me(rep):
    """repr of a float -> (m, e) with value m * 10^-e, canonical (no trailing zero digit while e > 0)"""
    d = decimal.Decimal(rep)
    sign, digits, exp = d.as_tuple()
    m = int("".join(map(str, digits)))
    if sign:
        m = -m
    if exp > 0:
        m, exp = m * 10 ** exp, 0
    e = -exp
    while e > 0 and m % 10 == 0:
        m, e = m // 10, e - 1
    return m, e


class Unmodelled(Exception):
    pass


class Unprintable(Exception):
    pass


import re as _re
_IDENT = _re.compile(r"^[a-zA-Z_][a-zA-Z0-9_]*$")


def unesc(raw):
    out, i = [], 0
    while i < len(raw):
        if raw[i] == "\\" and i + 1 < len(raw):
            out.append(raw[i + 1])
            i += 2
        else:
            out.append(raw[i])
            i += 1
    return "".join(out)


def micros_text(us):
    d = EPOCH + datetime.timedelta(microseconds=us)
    txt = d.strftime("%Y-%m-%dT%H:%M:%S")
    if len(txt) != 19:
        raise Unprintable("year")
    if d.microsecond:
        txt += (".%06d" % d.microsecond).rstrip("0")
    return txt + "Z"


def dump_const_to_ast(k):
    t = k[0]
    if t == "int":
        return ("int", k[1], False)
    if t == "float":
        d = decimal.Decimal(k[1])
        if not d.is_finite():
            raise Unprintable("float")
        txt = format(d, "f")
        return ("float", txt if "." in txt else txt + ".0")
    if t == "str":
        return ("str", unesc(k[1]))
    if t == "bool":
        return ("bool", bool(k[1]))
    if t == "time":
        return ("time", micros_text(k[1]))
    if t in ("hex", "bin"):
        return (t, k[1])
    if t == "list":
        return ("list", [dump_const_to_ast(x) for x in k[1]])
    raise Unprintable(str(k)[:40])


def dump_to_ast(d):
    """the abstract AST of a dump produced by c09_impl (parse or normal form); Unprintable when it
    cannot be written back as pattern text by print_o"""
    t = d[0]
    if t == "atom":
        steps = []
        for n, st in enumerate(d[2]):
            if st[0] == "i":
                steps.append(("i", st[1]))
            elif st[0] == "k":
                name = st[1]
                if name == "*" and n > 0:
                    steps.append(("star",))
                elif len(name) >= 2 and name[0] == "'" and name[-1] == "'":
                    steps.append(("q", unesc(name[1:-1])))
                elif _IDENT.match(name):
                    steps.append(("k", name))
                else:
                    steps.append(("q", unesc(name)))
            else:
                raise Unprintable("step")
        if not steps or steps[0][0] not in ("k", "q") or d[3] not in COPS or d[3] == "<>":
            raise Unprintable("atom")
        return ("atom", d[1], steps, d[3], bool(d[4]), dump_const_to_ast(d[5]))
    if t in ("and", "or", "oand", "oor", "ofby"):
        kids = [dump_to_ast(x) for x in d[1]]
        if not kids:
            raise Unprintable("empty node")
        return kids[0] if len(kids) == 1 else (t, kids)
    if t in ("paren", "oparen"):
        return dump_to_ast(d[1])
    if t == "obs":
        return ("obs", dump_to_ast(d[1]))
    if t == "qual":
        q = d[2]
        if q[0] == "repeat" and q[1][0] == "int":
            qq = ("repeat", q[1][1])
        elif q[0] == "within" and q[1][0] == "int":
            qq = ("within", q[1][1])
        elif q[0] == "within" and q[1][0] == "float":
            qq = ("withinf", dump_const_to_ast(q[1])[1])
        elif q[0] == "startstop" and q[1][0] == "time" and q[2][0] == "time":
            qq = ("startstop", micros_text(q[1][1]), micros_text(q[2][1]))
        else:
            raise Unprintable("qualifier")
        return ("qual", dump_to_ast(d[1]), qq)
    raise Unprintable(str(t))


def absorb_boundary(rng):
    """OR of two AND / FOLLOWEDBY nodes over a few simple operands, at the boundary of the
    containment tests of the observation-level absorption: repeated operands (distinct
    bindings), sub-multisets, sub-sequences, swapped order, a qualified operand"""
    g = Gen(rng, 1)
    names = ["p", "q", "r", "s"]
    base = []
    for i in range(rng.choice([2, 3, 3, 4])):
        typ = rng.choice(["a", "file", "x_y"])
        base.append(("obs", ("atom", typ, [("k", names[i])], "=", False, ("int", rng.choice([1, 2]), False))))
    if rng.random() < 0.15:
        base[0] = ("qual", base[0], ("repeat", 2))
    op = rng.choice(["oand", "ofby"])
    big = [rng.choice(base) for _ in range(rng.choice([2, 3, 3, 4]))]
    x = rng.random()
    if x < 0.35:            # a sub-collection (kept in order)
        small = [b for b in big if rng.random() < 0.6] or [big[0]]
    elif x < 0.6:           # one operand repeated once more than in the other node
        small = big[:]
        small.insert(rng.randrange(len(small) + 1), rng.choice(big))
        if rng.random() < 0.5:
            small.pop(rng.randrange(len(small)))
    elif x < 0.8:           # same operands, another order
        small = big[:]
        rng.shuffle(small)
    else:
        small = [rng.choice(base) for _ in range(rng.choice([1, 2, 3]))]
    c1 = small[0] if len(small) == 1 else (op, small)
    c2 = big[0] if len(big) == 1 else (op if rng.random() < 0.85 else ("oand" if op == "ofby" else "ofby"), big)
    kids = [c1, c2] if rng.random() < 0.5 else [c2, c1]
    if rng.random() < 0.3:
        kids.insert(rng.randrange(3), rng.choice(base))
    return ("oor", kids)


COPS = {"=": "OpEq", "!=": "OpNeq", "<>": "OpNeq2", "<": "OpLt", "<=": "OpLe", ">": "OpGt", ">=": "OpGe", "IN": "OpIn",
        "LIKE": "OpLike", "MATCHES": "OpMatches", "ISSUBSET": "OpSubset", "ISSUPERSET": "OpSuperset"}


def g_prim(k):
    t = k[0]
    if t == "int":
        return "PInt %s" % zlit(k[1])
    if t == "float":
        m, e = float_me(k[1])
        return "PFloat %s %d%%N" % (zlit(m), e)
    if t == "str":
        return "PStr %s" % u(k[1])
    if t == "bool":
        return "PBool %s" % ("true" if k[1] else "false")
    if t == "time":
        return "PTime %s" % zlit(k[1])
    if t == "hex":
        return "PHex %s" % u(k[1])
    if t == "bin":
        return "PBin %s" % u(k[1])
    raise Unmodelled("constant %r" % (k,))


def g_const(k):
    if k[0] == "list":
        return "KList [%s]" % "; ".join(g_prim(x) for x in k[1])
    return "KP (%s)" % g_prim(k)


def g_step(s):
    if s[0] == "k":
        return "SKey %s" % u(s[1])
    if s[0] == "i":
        return "SIdx %s" % zlit(s[1])
    raise Unmodelled("path step %r" % (s,))


def g_c(d):
    t = d[0]
    if t == "atom":
        if d[3] not in COPS:
            raise Unmodelled("operator %r" % d[3])
        return "Atom0 (mkAtom %s [%s] %s %s (%s))" % (
            u(d[1]), "; ".join(g_step(s) for s in d[2]), COPS[d[3]], "true" if d[4] else "false", g_const(d[5]))
    if t == "and":
        return "And0 [%s]" % "; ".join(g_c(x) for x in d[1])
    if t == "or":
        return "Or0 [%s]" % "; ".join(g_c(x) for x in d[1])
    if t == "paren":
        return "Paren0 (%s)" % g_c(d[1])
    raise Unmodelled("comparison node %r" % (d[:2],))


def g_q(q):
    if q[0] == "repeat" and q[1][0] == "int":
        return "QRepeat %s" % zlit(q[1][1])
    if q[0] == "within" and q[1][0] == "int":
        return "QWithin %s 0%%N" % zlit(q[1][1])
    if q[0] == "within" and q[1][0] == "float":
        m, e = float_me(q[1][1])
        return "QWithin %s %d%%N" % (zlit(m), e)
    if q[0] == "startstop" and q[1][0] == "time" and q[2][0] == "time":
        return "QStartStop %s %s" % (zlit(q[1][1]), zlit(q[2][1]))
    raise Unmodelled("qualifier %r" % (q,))


def g_o(d):
    t = d[0]
    if t == "obs":
        return "Obs0 (%s)" % g_c(d[1])
    if t in ("oand", "oor", "ofby"):
        return "%s [%s]" % ({"oand": "OAnd0", "oor": "OOr0", "ofby": "OFby0"}[t], "; ".join(g_o(x) for x in d[1]))
    if t == "qual":
        return "OQual0 (%s) (%s)" % (g_o(d[1]), g_q(d[2]))
    if t == "oparen":
        return "OParen0 (%s)" % g_o(d[1])
    raise Unmodelled("observation node %r" % (d[:2],))


def show_ustr(s):
    out = []
    for ch in s:
        c = ord(ch)
        if 32 <= c <= 126 and ch not in '\\"':
            out.append(ch)
        else:
            out.append("\\%06X" % c)
    return '"' + "".join(out) + '"'


def s_prim(k):
    t = k[0]
    if t == "int":
        return "i%d" % k[1]
    if t == "float":
        return "f%de%d" % float_me(k[1])
    if t == "str":
        return "s" + show_ustr(k[1])
    if t == "bool":
        return "bT" if k[1] else "bF"
    if t == "time":
        return "t%d" % k[1]
    if t == "hex":
        return "h" + show_ustr(k[1])
    if t == "bin":
        return "b" + show_ustr(k[1])
    return "?%s" % (k,)


def s_const(k):
    if k[0] == "list":
        return "L(" + ",".join(s_prim(x) for x in k[1]) + ")"
    return s_prim(k)


def s_c(d):
    t = d[0]
    if t == "atom":
        steps = ",".join(("k" + show_ustr(s[1])) if s[0] == "k" else ("x%d" % s[1]) if s[0] == "i" else "?" for s in d[2])
        return "A(%s;%s;%s;%s;%s)" % (show_ustr(d[1]), steps, d[3], "N" if d[4] else "P", s_const(d[5]))
    if t == "and":
        return "AND(" + ",".join(s_c(x) for x in d[1]) + ")"
    if t == "or":
        return "OR(" + ",".join(s_c(x) for x in d[1]) + ")"
    return "?%s" % t


def s_q(q):
    if q[0] == "repeat":
        return "R%d" % q[1][1]
    if q[0] == "within":
        if q[1][0] == "float":
            m, e = float_me(q[1][1])
            return ("W%d" % m) if e == 0 else ("Wf%de%d" % (m, e))
        return "W%s" % q[1][1]
    if q[0] == "startstop":
        return "S%d/%d" % (q[1][1], q[2][1])
    return "?"


def s_o(d):
    t = d[0]
    if t == "obs":
        return "[" + s_c(d[1]) + "]"
    if t in ("oand", "oor", "ofby"):
        return {"oand": "oAND(", "oor": "oOR(", "ofby": "oFBY("}[t] + ",".join(s_o(x) for x in d[1]) + ")"
    if t == "qual":
        return "Q(" + s_o(d[1]) + ";" + s_q(d[2]) + ")"
    return "?%s" % t


# --------------------------------------------------------------------------
# generator

KEYWORDS = {"AND", "OR", "NOT", "FOLLOWEDBY", "LIKE", "MATCHES", "ISSUPERSET", "ISSUBSET", "EXISTS", "LAST", "IN",
            "START", "STOP", "SECONDS", "true", "false", "WITHIN", "REPEATS", "TIMES"}

TYPES = ["file", "process", "network-traffic", "x_y", "user-account", "a"]
PROPS = ["name", "size", "b", "c", "pid", "values", "extensions", "x_ref", "key", "value", "data"]
MD5S = ["d41d8cd98f00b204e9800998ecf8427e", "D41D8CD98F00B204E9800998ECF8427E", "00000000000000000000000000000000"]
SHA256S = ["e3b0c44298fc1c149afbf4c8996fb92427ae41e4649b934ca495991b7852b855", "aa" * 32]
SPECIAL_PATHS = [
    ("ipv4-addr", [("k", "value")]),
    ("ipv6-addr", [("k", "value")]),
    ("windows-registry-key", [("k", "key")]),
    ("windows-registry-key", [("k", "values"), ("star",), ("k", "name")]),
    ("windows-registry-key", [("k", "values"), ("i", 0), ("k", "name")]),
]

V4 = ["1.2.3.4", "10.0.0.0", "192.168.1.77", "255.255.255.255", "0.0.0.0", "198.51.100.129", "1.2.3.004", "1.2", "0x7f.1",
      "010.1.1.1", "1.2.3", "16909060", "1.2.3.4 x", "1.2.3.256", "08.1.1.1", "1.2.3.", "a.b.c.d", "", "1.2.3.4\t", "1..2"]
V4_SUFFIX = ["/32", "/24", "/25", "/31", "/8", "/0", "/1", "/7", "/9", "/16", "/17", "/23", "/30", "/33", "/-1", "/+24", "/ 24",
             "/24 ", "/2_4", "/", "/x", "/024", "/-0", "/24/8", "/ 24", "/1e1"]
V6 = ["::", "::1", "1::", "2001:db8::1", "2001:DB8:0:0:1:0:0:1", "::ffff:1.2.3.4", "::1.2.3.4", "1:2:3:4:5:6:7:8",
      "1:0:0:2:0:0:0:3", "fe80::abcd:ef01:2345:6789", "0:0:0:0:0:0:0:0", "::fffe:1.2.3.4", "1:2:3:4:5:6:1.2.3.4",
      "ffff:ffff:ffff:ffff:ffff:ffff:ffff:ffff", "1:2:3:4:5:6:7::", "::1:2:3:4:5:6:7", "0:0:0:0:0:ffff:0:1", "::0.1.0.0",
      "1:::2", "12345::", "1::2::3", "::1.2.3", "::01.2.3.4", "1:2:3:4:5:6:7:8::", ":1::", "g::", "", "::1 ", "1:2:3:4:5:6:7",
      "1:2:3:4:5:6:7:8:9", "::1.2.3.4:5", "abcd:ef01::"]
V6_SUFFIX = ["/128", "/64", "/65", "/127", "/1", "/0", "/7", "/8", "/9", "/15", "/16", "/17", "/48", "/96", "/100", "/112",
             "/120", "/121", "/129", "/-1", "/+64", "/ 64", "/6_4", "/", "/x"]
REGKEYS = ["HKEY_LOCAL_MACHINE\\Software", "hkey_local_machine\\software", "HKLM\\Foo\\Bar", "Hklm\\foo\\bar",
           "ABC", "abc", "AbC", "ÀÉ×Þ", "àé×þ", "Run%", "RUN%", "\\D+", "\\d+", "\\W", "\\w", "Path_1", "", "x y"]
STRINGS = ["", "a", "foo", "Foo", "foo.exe", "it's", "back\\slash", "été", "中文", "\U0001f600", "a b", "%ab_",
           "^f.o$", "1", "1.0", "true", "AND", "-", "x" * 40, "\t", "q\"q"]
HEXES = ["00", "ff", "FF", "Ff", "abcd", "ABCD", "AbCd", "0102", "010203", "deadBEEF", "DEADbeef", "7f",
         "", "0000", "00ff", "0000ff", "ff00", "000102", "00abcd", "007f", "000000"]
BINS = ["QQ==", "QR==", "QUI=", "QUJD", "qujd", "QUJDRA==", "AAAA", "////", "++++", "AA==", "AAA=", "Zm9v", "Zm9vYg==", "Zm9vYmE="]
TIMES = ["2014-01-13T07:03:17Z", "2014-01-13T07:03:17.0Z", "2014-01-13T07:03:17.000000Z", "2014-01-13T07:03:17.5Z",
         "2014-01-13T07:03:17.500Z", "2014-01-13T07:03:18Z", "2020-02-29T23:59:59.999999Z", "1970-01-01T00:00:00Z",
         "1969-12-31T23:59:59Z", "2038-01-19T03:14:08Z", "2000-12-31T00:00:00.000001Z", "0999-01-02T03:04:05Z"]
INTS = [0, 1, -1, 2, 5, 10, 80, 443, 255, 256, 65535, 1000000, -7, 2 ** 31, 2 ** 63, 10 ** 20, 99, 100,
        # integers are exact: neighbours at and beyond 2^53 are different numbers, and there is no largest one
        2 ** 53, 2 ** 53 + 1, 2 ** 53 + 2, 2 ** 63 + 1, 10 ** 20 + 1, -(2 ** 53) - 1, 10 ** 310, 10 ** 310 + 1]
FLOATS = ["0.0", "1.0", "1.00", "-1.0", "0.5", ".5", "-.5", "+0.5", "1.5", "1.50", "2.0", "80.0", "443.000", "0.1", "0.10",
          "3.14159", "123456789.012345", "100000000000000.0", "0.000001", "-0.0", "99.99", "10.0", "5.0", "255.0", "256.0"]


def ident(rng, hyphen_ok=False):
    pool = PROPS + ["x_%d" % rng.randrange(3), "Z9", "_p"]
    return rng.choice(pool)


class Gen:
    """Grammar-directed generator of abstract pattern ASTs.  depth bounds the
    nesting of AND/OR/FOLLOWEDBY at the observation level and of AND/OR at
    the comparison level."""

    def __init__(self, rng, depth):
        self.rng = rng
        self.depth = depth

    # -- constants
    def prim(self, kinds=None):
        r = self.rng
        kind = r.choice(kinds or ["int", "int", "float", "str", "str", "bool", "time", "hex", "bin"])
        if kind == "int":
            return ("int", r.choice(INTS), r.random() < 0.08)
        if kind == "float":
            return ("float", r.choice(FLOATS))
        if kind == "str":
            return ("str", r.choice(STRINGS))
        if kind == "bool":
            return ("bool", r.random() < 0.5)
        if kind == "time":
            return ("time", r.choice(TIMES[:-1]))
        if kind == "hex":
            return ("hex", r.choice(HEXES))
        return ("bin", r.choice(BINS))

    def setlit(self, special=None):
        r = self.rng
        n = r.choice([0, 1, 2, 2, 3, 3, 4, 6])
        if special and r.random() < 0.7:
            return ("list", [("str", self.special_string(special)) for _ in range(n)])
        if r.random() < 0.6:
            k = r.choice(["int", "float", "str", "hex", "time"])
            kinds = ["int", "float"] if k in ("int", "float") else [k]
            return ("list", [self.prim(kinds) for _ in range(n)])
        return ("list", [self.prim() for _ in range(n)])

    def special_string(self, typ):
        r = self.rng
        if typ == "ipv4-addr":
            s = r.choice(V4[:8] if r.random() < 0.7 else V4)
            if r.random() < 0.65:
                s += r.choice(V4_SUFFIX[:16] if r.random() < 0.8 else V4_SUFFIX)
            return s
        if typ == "ipv6-addr":
            s = r.choice(V6[:18] if r.random() < 0.75 else V6)
            if r.random() < 0.6:
                s += r.choice(V6_SUFFIX[:19] if r.random() < 0.8 else V6_SUFFIX)
            return s
        return r.choice(REGKEYS)

    # -- atoms
    def path(self, typ):
        """-> (type, steps, special) ; typ None = draw the object type as well"""
        r = self.rng
        sp_types = ["ipv4-addr", "ipv6-addr", "windows-registry-key"]
        if typ is None:
            typ = r.choice(sp_types) if r.random() < 0.25 else r.choice(TYPES)
        if typ in sp_types and r.random() < 0.75:
            t, p = r.choice([x for x in SPECIAL_PATHS if x[0] == typ])
            return t, list(p), t
        if typ == "file" and r.random() < 0.15:
            return "file", [("k", "hashes"), r.choice([("k", "MD5"), ("q", "SHA-256")])], "hash"
        steps = [("k", ident(r))]
        for _ in range(r.choice([0, 0, 0, 1, 1, 2, 3])):
            x = r.random()
            last = steps[-1][0]
            if x < 0.55 or last in ("i", "star"):
                steps.append(("k", ident(r)) if r.random() < 0.93 else ("q", r.choice(["MD5", "SHA-256", "a b", "it's"])))
            elif x < 0.85:
                steps.append(("i", r.choice([0, 1, 2, 10])))
            elif last != "q" or r.random() < 0.2:
                steps.append(("star",))
        return typ, steps, None

    def atom(self, typ=None):
        r = self.rng
        t, steps, special = self.path(typ)
        if special == "hash":
            k = ("str", r.choice(MD5S if steps[1][1] == "MD5" else SHA256S))
            return ("atom", t, steps, r.choice(["=", "=", "!="]), r.random() < 0.2, k)
        x = r.random()
        neg = r.random() < 0.2
        if x < 0.45:
            op = r.choice(["=", "=", "=", "!="])
            if special and r.random() < 0.96:
                k = ("str", self.special_string(special))
            else:
                k = self.prim()
        elif x < 0.62:
            op = r.choice(["<", "<=", ">", ">="])
            neg = r.random() < 0.03          # NOT with an order operator makes the pinned visitor fail
            if special and r.random() < 0.96:
                k = ("str", self.special_string(special))
            else:
                k = self.prim(["int", "int", "float", "str", "time", "hex", "bin"])
        elif x < 0.78 and not (special and r.random() < 0.85):
            op = "IN"
            k = self.setlit(special)
        else:
            op = r.choice(["LIKE", "MATCHES", "ISSUBSET", "ISSUPERSET"])
            if special:
                k = ("str", self.special_string(special))
            elif op in ("ISSUBSET", "ISSUPERSET"):
                k = ("str", r.choice(["10.0.0.0/8", "1.2.3.0/24", "1.2.3.4", "2001:db8::/32"]))
            else:
                k = ("str", r.choice(STRINGS))
        return ("atom", t, steps, op, neg, k)

    def cexpr(self, depth, typ):
        r = self.rng
        if depth <= 0 or r.random() < 0.4:
            return self.atom(typ)
        n = r.choice([2, 2, 2, 3, 3, 4])
        op = r.choice(["and", "or"])
        kids = []
        for _ in range(n):
            # an OR may mix object types (exercises the root-type pruning of DNF); an AND rarely does
            sub = typ if (op == "and" or r.random() < 0.8) else self.other_type(typ)
            k = self.cexpr(depth - 1, sub)
            if k[0] == op:           # keep the AST in the image of the printer: no same-operator child
                kids.extend(k[1])
            else:
                kids.append(k)
        if r.random() < 0.15:        # a repeated operand (idempotence)
            kids.append(r.choice(kids))
        return (op, kids)

    def other_type(self, typ):
        r = self.rng
        return r.choice([t for t in TYPES + ["ipv4-addr", "windows-registry-key"] if t != typ])

    def comparison(self):
        r = self.rng
        x = r.random()
        typ = r.choice(TYPES) if x < 0.62 else r.choice(["ipv4-addr", "ipv6-addr", "windows-registry-key"]) if x < 0.95 else None
        d = r.choice([0, 0, 1, 1, 2, min(3, self.depth)])
        return self.cexpr(min(d, self.depth), typ)

    # -- observation level
    def qualifier(self, used):
        r = self.rng
        kinds = [k for k in ("repeat", "within", "startstop") if k not in used]
        k = r.choice(kinds)
        if k == "repeat":
            return ("repeat", r.choice([1, 2, 2, 3, 5]))
        if k == "within":
            if r.random() < 0.3:
                # a real number of seconds: windows that share the integer part are different windows
                return ("withinf", r.choice(["5.0", "5.5", "0.5", "60.00", "1.25", "5.50", "1.5", "1.2", "0.999", "0.001", "5.25",
                                             "5.75", "59.5", "1.000001", "0.9"]))
            return ("within", r.choice([0, 1, 5, 5, 60, 3600]))
        a, b = sorted(r.sample(TIMES[:-1], 2), key=time_micros)
        return ("startstop", a, b)

    def oexpr(self, depth):
        r = self.rng
        x = r.random()
        if depth <= 0 or x < 0.3:
            e = ("obs", self.comparison())
            used = set()
            while r.random() < 0.25 and len(used) < 3:
                qq = self.qualifier(used)
                used.add(qq[0])
                e = ("qual", e, qq)
            return e
        if x < 0.42:
            return ("qual", self.oexpr(depth - 1), self.qualifier(()))
        op = r.choice(["oand", "oor", "ofby"])
        n = r.choice([2, 2, 2, 3, 3, 4])
        kids = []
        for _ in range(n):
            k = self.oexpr(depth - 1)
            kids.append(k)
        if r.random() < 0.2:
            kids.append(r.choice(kids))
        return (op, kids)

    def pattern(self):
        d = self.rng.choice([0, 1, 1, 2, 2, 3, self.depth, self.depth])
        return self.oexpr(min(d, self.depth))


# --------------------------------------------------------------------------
# the documented rewrites (each keeps the meaning) and meaning-changing edits

def positions(e, path=()):
    """all sub-ASTs with their paths (path = tuple of child selectors)"""
    yield path, e
    t = e[0]
    if t in ("and", "or", "oand", "oor", "ofby"):
        for i, x in enumerate(e[1]):
            yield from positions(x, path + (i,))
    elif t == "obs":
        yield from positions(e[1], path + ("c",))
    elif t == "qual":
        yield from positions(e[1], path + ("e",))


def replace_at(e, path, new):
    if not path:
        return new
    h, rest = path[0], path[1:]
    t = e[0]
    if h == "c":
        return ("obs", replace_at(e[1], rest, new))
    if h == "e":
        return ("qual", replace_at(e[1], rest, new), e[2])
    kids = list(e[1])
    kids[h] = replace_at(kids[h], rest, new)
    return (t, kids)


def root_types(c):
    """object types a comparison expression can be satisfied by (None = none: AND of disjoint types)"""
    t = c[0]
    if t == "atom":
        return {c[1]}
    sets = [root_types(x) for x in c[1]]
    if any(s is None for s in sets):
        return None
    if t == "and":
        out = set(sets[0])
        for s in sets[1:]:
            out &= s
        return out or None
    out = set()
    for s in sets:
        out |= s
    return out


def visitor_root_types(c):
    """root_types as the PINNED visitor computes them: an n-ary AND/OR is built from
    its first two operands and the others are appended without updating the
    set.  Returns the set, or None when a constructor would raise ValueError."""
    t = c[0]
    if t == "atom":
        return {c[1]}
    sets = [visitor_root_types(x) for x in c[1]]
    if any(s is None for s in sets):
        return None
    if len(sets) == 1:
        return sets[0]
    out = (sets[0] & sets[1]) if t == "and" else (sets[0] | sets[1])
    return out or None


def respell_prim(rng, k):
    """another literal with the same denotation"""
    t = k[0]
    if t == "int":
        n = k[1]
        if abs(n) < 10 ** 14 and rng.random() < 0.6:
            return ("float", "%d.%s" % (n, rng.choice(["0", "00", "000"])))
        return ("int", n, not (len(k) > 2 and k[2]))
    if t == "float":
        txt = k[1]
        f = decimal.Decimal(txt)
        if f == f.to_integral_value() and rng.random() < 0.5:
            return ("int", int(f), False)
        return ("float", txt + "0") if len(txt.replace("-", "").replace("+", "").replace(".", "")) < 14 else k
    if t == "hex":
        return ("hex", "".join(ch.upper() if rng.random() < 0.5 else ch.lower() for ch in k[1]))
    if t == "time":
        main, _, frac = k[1][:-1].partition(".")
        if frac:
            frac = frac.rstrip("0")
            return ("time", main + ("." + frac if frac else "") + "Z") if rng.random() < 0.5 or len(frac) >= 6 \
                else ("time", main + "." + frac + "0Z")
        return ("time", main + rng.choice([".0Z", ".000Z", ".000000Z"]))
    return k


def rw_comparison(rng, c, mixed_ok=False):
    """one documented rewrite somewhere in a comparison expression; returns (new, name) or None"""
    pos = list(positions(c))
    rng.shuffle(pos)
    for path, e in pos:
        t = e[0]
        choice = rng.random()
        if t in ("and", "or"):
            kids = list(e[1])
            if choice < 0.25:
                k2 = kids[:]
                rng.shuffle(k2)
                if k2 != kids:
                    return replace_at(c, path, (t, k2)), "commute"
            elif choice < 0.40 and len(kids) >= 3:
                i = rng.randrange(len(kids) - 1)
                j = rng.randrange(i + 2, len(kids) + 1)
                if j - i < len(kids):
                    grouped = kids[:i] + [(t, kids[i:j])] + kids[j:]
                    return replace_at(c, path, (t, grouped)), "associate"
            elif choice < 0.55:
                k2 = kids[:]
                k2.insert(rng.randrange(len(k2) + 1), rng.choice(kids))
                return replace_at(c, path, (t, k2)), "idempotent"
            elif choice < 0.75 and t == "and":
                # A and (B or C) -> (A and B) or (A and C)
                ors = [i for i, x in enumerate(kids) if x[0] == "or"]
                if ors:
                    i = rng.choice(ors)
                    others = kids[:i] + kids[i + 1:]
                    new = ("or", [flat("and", others + [alt]) for alt in kids[i][1]])
                    if mixed_ok or all(root_types(x) is not None for x in new[1]):
                        return replace_at(c, path, new), "distribute"
            elif choice < 0.9 and t == "or" and len(kids) >= 2 and all(x[0] == "and" for x in kids):
                # (A and B) or (A and C) -> A and (B or C) when the first operands agree
                first = kids[0][1][0]
                if all(x[1][0] == first and len(x[1]) >= 2 for x in kids):
                    new = ("and", [first, ("or", [flat("and", x[1][1:]) for x in kids])])
                    return replace_at(c, path, new), "factor"
        if choice > 0.6:
            # absorption: A -> A or (A and B) / A and (A or B)
            rt = root_types(e)
            if rt:
                g = Gen(rng, 1)
                b = g.atom(sorted(rt)[0])
                if b[1] in rt or mixed_ok:
                    if rng.random() < 0.5:
                        new = ("or", [e, flat("and", [e, b])]) if b[1] in rt else None
                    else:
                        new = ("and", [e, flat("or", [e, b])])
                    if new:
                        return replace_at(c, path, new), "absorb"
        if t == "atom":
            k = e[5]
            if k[0] == "list" and len(k[1]) >= 2 and choice < 0.5:
                l2 = k[1][:]
                rng.shuffle(l2)
                if l2 != k[1]:
                    return replace_at(c, path, e[:5] + (("list", l2),)), "set-order"
            if k[0] == "list" and k[1] and choice < 0.8:
                i = rng.randrange(len(k[1]))
                n = respell_prim(rng, k[1][i])
                if n != k[1][i]:
                    return replace_at(c, path, e[:5] + (("list", k[1][:i] + [n] + k[1][i + 1:]),)), "respell"
            if k[0] != "list":
                n = respell_prim(rng, k)
                if n != k and not (e[3] in ("LIKE", "MATCHES", "ISSUBSET", "ISSUPERSET")):
                    return replace_at(c, path, e[:5] + (n,)), "respell"
    return None


def flat(op, kids):
    if len(kids) == 1:
        return kids[0]
    out = []
    for k in kids:
        if k[0] == op:
            out.extend(k[1])
        else:
            out.append(k)
    return (op, out)


def rw_observation(rng, p):
    """one documented rewrite at the observation level (or inside a leaf); returns (new, name) or None"""
    pos = [(path, e) for path, e in positions(p) if e[0] in ("obs", "oand", "oor", "ofby", "qual")]
    rng.shuffle(pos)
    for path, e in pos:
        t = e[0]
        choice = rng.random()
        if t == "obs" and choice < 0.5:
            r = rw_comparison(rng, e[1])
            if r:
                return replace_at(p, path, ("obs", r[0])), "c-" + r[1]
        if t in ("oand", "oor"):
            kids = list(e[1])
            if choice < 0.3:
                k2 = kids[:]
                rng.shuffle(k2)
                if k2 != kids:
                    return replace_at(p, path, (t, k2)), "o-commute"
            if choice < 0.45 and t == "oor":
                k2 = kids[:]
                k2.insert(rng.randrange(len(k2) + 1), rng.choice(kids))
                return replace_at(p, path, (t, k2)), "o-idempotent-or"
        if t in ("oand", "oor", "ofby"):
            kids = list(e[1])
            if 0.45 <= choice < 0.6 and len(kids) >= 3:
                i = rng.randrange(len(kids) - 1)
                j = rng.randrange(i + 2, len(kids) + 1)
                if j - i < len(kids):
                    return replace_at(p, path, (t, kids[:i] + [(t, kids[i:j])] + kids[j:])), "o-associate"
            if 0.6 <= choice < 0.8 and t in ("oand", "ofby"):
                ors = [i for i, x in enumerate(kids) if x[0] == "oor"]
                if ors:
                    i = rng.choice(ors)
                    new = ("oor", [(t, kids[:i] + [alt] + kids[i + 1:]) for alt in kids[i][1]])
                    return replace_at(p, path, new), "o-distribute"
        if choice >= 0.8 and t != "qual":
            # A -> A or (A and B) | A or (A followedby B) | A or (B followedby A)
            b = Gen(rng, 1).oexpr(0)
            k = rng.randrange(3)
            big = ("oand", [e, b]) if k == 0 else ("ofby", [e, b]) if k == 1 else ("ofby", [b, e])
            new = ("oor", [e, big] if rng.random() < 0.5 else [big, e])
            return replace_at(p, path, new), "o-absorb"
    return None


def edit(rng, p):
    """a small change that normally changes the meaning; returns (new, name) or None"""
    pos = list(positions(p))
    rng.shuffle(pos)
    for path, e in pos:
        t = e[0]
        x = rng.random()
        if t == "atom":
            _, typ, steps, op, neg, k = e
            if x < 0.25 and op not in ("<", "<=", ">", ">="):
                return replace_at(p, path, ("atom", typ, steps, op, not neg, k)), "flip-not"
            if x < 0.45 and op in ("<", "<=", ">", ">=", "=", "!="):
                alt = {"<": "<=", "<=": "<", ">": ">=", ">=": ">", "=": "!=", "!=": "="}[op]
                return replace_at(p, path, ("atom", typ, steps, alt, neg, k)), "change-op"
            if x < 0.65 and k[0] == "int":
                return replace_at(p, path, ("atom", typ, steps, op, neg, ("int", k[1] + rng.choice([1, -1]), False))), "change-const"
            if x < 0.75 and k[0] == "str" and ("k", "hashes") not in steps:
                return replace_at(p, path, ("atom", typ, steps, op, neg, ("str", k[1] + "x"))), "change-const"
            if x < 0.85 and k[0] == "list" and k[1]:
                i = rng.randrange(len(k[1]))
                return replace_at(p, path, ("atom", typ, steps, op, neg, ("list", k[1][:i] + k[1][i + 1:]))), "drop-member"
            if x < 0.95 and ("k", "hashes") not in steps:
                return replace_at(p, path, ("atom", typ, steps + [("k", "zz")], op, neg, k)), "change-path"
        elif t in ("and", "or", "oand", "oor", "ofby") and len(e[1]) >= 2:
            kids = list(e[1])
            if x < 0.3 and len(kids) >= 3:
                del kids[rng.randrange(len(kids))]
                return replace_at(p, path, (t, kids)), "drop-operand"
            if x < 0.5 and t == "ofby":
                i = rng.randrange(len(kids) - 1)
                if kids[i] != kids[i + 1]:
                    kids[i], kids[i + 1] = kids[i + 1], kids[i]
                    return replace_at(p, path, (t, kids)), "swap-followedby"
            if x < 0.65 and t == "oand":
                kids.append(rng.choice(kids))
                return replace_at(p, path, (t, kids)), "dup-and-operand"
            if x < 0.8 and t in ("oand", "ofby", "oor"):
                alt = {"oand": "ofby", "ofby": "oand", "oor": "oand"}[t]
                return replace_at(p, path, (alt, kids)), "change-connective"
            if x < 0.9 and t in ("and", "or"):
                alt = "or" if t == "and" else "and"
                if alt == "or" or root_types((alt, kids)) is not None:
                    return replace_at(p, path, flat_node(alt, kids)), "change-connective"
        elif t == "qual":
            q = e[2]
            if x < 0.4:
                if q[0] == "repeat" or (q[0] == "within" and rng.random() < 0.5):
                    return replace_at(p, path, ("qual", e[1], (q[0], q[1] + 1))), "change-qualifier"
                if q[0] == "within":
                    # the same whole number of seconds and a fraction
                    return replace_at(p, path, ("qual", e[1], ("withinf", "%d.%s" % (q[1], rng.choice(["5", "25", "999", "001"]))))), \
                        "change-qualifier-fraction"
                if q[0] == "withinf":
                    whole = q[1].partition(".")[0] or "0"
                    alts = [whole + "." + f for f in ("5", "2", "25", "75", "999", "001")
                            if decimal.Decimal(whole + "." + f) != decimal.Decimal(q[1])]
                    if rng.random() < 0.7:
                        return replace_at(p, path, ("qual", e[1], ("withinf", rng.choice(alts)))), "change-qualifier-fraction"
                    return replace_at(p, path, ("qual", e[1], ("withinf", "7.75"))), "change-qualifier"
                return replace_at(p, path, ("qual", e[1], ("startstop", q[1], TIMES[9]))), "change-qualifier"
            if x < 0.6:
                return replace_at(p, path, e[1]), "drop-qualifier"
    return None


# ---- near-duplicates: members of a collection that a text-level shortcut (a cache keyed by a
#      "cleaned-up" pattern text, a comparison of the texts, ...) would confuse
WS_BASES = ["annual report.doc", "a b", "Program Files", "x y z", "New  Folder"]


def path_variants(rng, p):
    """p with ONE step of one object path changed between a list index and the quoted key spelt the same:
    x:y[12] / x:y.'12' / x:y[13], x:y[*] / x:y.'*' -- an index step and a key step are different steps"""
    cands = []
    for path, e in positions(p):
        if e[0] != "atom" or ("k", "hashes") in e[2] or e[1] in ("ipv4-addr", "ipv6-addr", "windows-registry-key"):
            continue
        st = e[2]
        for j in range(1, len(st)):
            nxt = st[j + 1] if j + 1 < len(st) else None
            if st[j][0] in ("i", "star") and st[j - 1][0] == "k" and (nxt is None or nxt[0] == "k"):
                cands.append((path, e, j))
    if not cands:
        return []
    path, e, j = rng.choice(cands)
    st = list(e[2])
    if st[j][0] == "i":
        n = st[j][1]
        alts = [(("i", n), "index"), (("q", str(n)), "quoted-digits-key"), (("i", n + 1), "next-index"), (("q", str(n + 1)), "other-digits-key")]
    else:
        alts = [(("star",), "any-index"), (("q", "*"), "quoted-star-key"), (("i", 0), "index-0")]
    out = []
    for s2, name in alts:
        st2 = st[:j] + [s2] + st[j + 1:]
        out.append((replace_at(p, path, ("atom", e[1], st2, e[3], e[4], e[5])), name))
    return out


def near_duplicates(rng, p, force_qualifier=False):
    """-> [(ast, name)]: p with ONE constant respelled / slightly changed: string constants that differ only in
    white space inside the quotes, in case, in an escaped character; numbers spelled 1 / 1.0 / +1; sets reordered"""
    quals = [(path, e) for path, e in positions(p) if e[0] == "qual" and e[2][0] in ("within", "withinf")]
    if quals and (force_qualifier or rng.random() < 0.3):
        # the WITHIN window: n = n.0 = n.00, but n.2, n.5, n.999 and n + 1 are other windows
        # prefer a window around something that binds several observations (on a single one every window is the same)
        multi = [x for x in quals if any(y[0] in ("oand", "ofby") or (y[0] == "qual" and y[2][0] == "repeat" and y[2][1] >= 2)
                                         for _, y in positions(x[1][1]))]
        path, e = rng.choice(multi or quals)
        n = int(decimal.Decimal(str(e[2][1])))
        alts = [(("within", n), "whole"), (("withinf", "%d.0" % n), "point-zero"), (("withinf", "%d.00" % n), "point-zero-zero"),
                (("withinf", "%d.2" % n), "point-two"), (("withinf", "%d.5" % n), "point-five"), (("withinf", "%d.50" % n), "point-five-zero"),
                (("withinf", "%d.999" % n), "point-999"), (("withinf", "%d.001" % n), "point-001"), (("within", n + 1), "next")]
        return [(replace_at(p, path, ("qual", e[1], q2)), name) for q2, name in alts]
    if rng.random() < 0.2:
        pv = path_variants(rng, p)
        if pv:
            return pv
    atoms = [(path, e) for path, e in positions(p) if e[0] == "atom" and ("k", "hashes") not in e[2]]
    if not atoms:
        return []
    strs = [x for x in atoms if x[1][5][0] == "str" and x[1][3] in ("=", "!=", "LIKE", "MATCHES", "<", ">")]
    hexes = [x for x in atoms if x[1][5][0] in ("hex", "bin") and x[1][3] in ("=", "!=", "<", ">", "<=", ">=")]
    x = rng.random()
    lists = [y for y in atoms if y[1][5][0] == "list" and len(y[1][5][1]) >= 2]
    path, e = rng.choice(hexes) if hexes and x < 0.4 else rng.choice(lists) if lists and x < 0.6 \
        else rng.choice(strs) if strs and x < 0.9 else rng.choice(atoms)
    _, typ, steps, op, neg, k = e
    alts = []
    if k[0] == "str":
        s0 = rng.choice(WS_BASES)
        a, _, b = s0.partition(" ")
        b = b.lstrip(" ")
        alts = [(("str", a + " " + b), "one-blank"), (("str", a + "  " + b), "two-blanks"), (("str", a + "\t" + b), "tab"),
                (("str", a + " " + b + " "), "trailing-blank"), (("str", " " + a + " " + b), "leading-blank"),
                (("str", a + "\u00a0" + b), "nbsp"), (("str", (a + " " + b).swapcase()), "case"),
                (("str", a + " \t" + b), "blank-tab"), (("str", a + "\\ " + b), "backslash-blank"),
                (("str", a + "' " + b), "quote-blank")]
    elif k[0] in ("int", "float"):
        n = k[1] if k[0] == "int" else int(decimal.Decimal(k[1]).to_integral_value())
        if abs(n) >= 10 ** 14 and rng.random() < 0.7:
            big = rng.choice([2 ** 53, 2 ** 63, 10 ** 20, 10 ** 310]) if rng.random() < 0.5 else n
            return [(replace_at(p, path, ("atom", typ, steps, op, neg, (("list", [("int", v, False)]) if op == "IN" else ("int", v, False)))), nm)
                    for v, nm in ((big, "big"), (big + 1, "big-plus-1"), (big + 2, "big-plus-2"), (big - 1, "big-minus-1"))]
        if abs(n) >= 10 ** 14:
            n = 7
        alts = [(("int", n, False), "int"), (("float", "%d.0" % n), "float"), (("int", n, True), "plus-sign"),
                (("float", "%d.00" % n), "float-zeros"), (("int", n + 1, False), "other-int"), (("float", "%d.5" % n), "other-float"),
                (("int", n * 10, False), "times-ten")]
    elif k[0] == "list" and len(k[1]) >= 2:
        m = list(k[1])
        alts = [(("list", m), "set"), (("list", m[::-1]), "set-reversed"), (("list", m[1:] + m[:1]), "set-rotated"),
                (("list", m[1:]), "set-smaller"), (("list", m + m[:1]), "set-repeat"),
                # a subset that is a prefix of the sorted larger set must still compare different
                (("list", m[:-1]), "set-without-last"), (("list", m[:1]), "set-first-only"), (("list", m[-1:]), "set-last-only"),
                (("list", sorted(m, key=repr)[:-1]), "set-without-one")]
    else:
        alts = [(k, "as-is"), (respell_prim(rng, k), "respelled"), (respell_prim(rng, respell_prim(rng, k)), "respelled-twice")]
        if k[0] == "hex":
            # the bytes, not a number: leading zero bytes count, and so does the empty constant
            alts += [(("hex", k[1].upper()), "upper"), (("hex", k[1].lower()), "lower"), (("hex", k[1] + "00"), "longer"),
                     (("hex", "00" + k[1]), "leading-zero-byte"), (("hex", "0000" + k[1]), "two-leading-zero-bytes"),
                     (("hex", ""), "empty"), (("hex", "00"), "one-zero-byte"), (("hex", "0000"), "two-zero-bytes")]
        if k[0] == "bin":
            alts += [(("bin", "QUJD"), "QUJD"), (("bin", "qujd"), "qujd"),
                     (("bin", "/w=="), "ff"), (("bin", "AP8="), "00ff"), (("bin", "AAD/"), "0000ff"), (("bin", "/wA="), "ff00"),
                     (("bin", "AA=="), "00"), (("bin", "AAA="), "0000"), (("bin", "AAAA"), "000000")]
    out = []
    for k2, name in alts:
        if op in ("IN",) and k2[0] != "list":
            continue
        out.append((replace_at(p, path, ("atom", typ, steps, op, neg, k2)), name))
    return out


# ---- version-specific vocabulary: words that are keywords of the 2.1 pattern grammar only are ordinary
#      property names in 2.0
V21_ONLY_KEYWORDS = ["EXISTS"]


def as_v20_only(rng, p):
    """p with one key step of one object path renamed to a 2.1-only keyword: valid in the 2.0 grammar only; or None"""
    cands = []
    for path, e in positions(p):
        if e[0] == "atom" and ("k", "hashes") not in e[2]:
            for n, s in enumerate(e[2]):
                if s[0] == "k" and s[1] != "*":
                    cands.append((path, e, n))
    if not cands:
        return None
    path, e, n = rng.choice(cands)
    steps = list(e[2])
    steps[n] = ("k", rng.choice(V21_ONLY_KEYWORDS))
    typ = e[1]
    if typ in ("ipv4-addr", "ipv6-addr", "windows-registry-key"):
        typ = "x-foo"
    new = ("atom", typ, steps, e[3], e[4], e[5])
    out = replace_at(p, path, new)
    # every atom of the same observation must keep a common object type
    return out if all(root_types(x[1]) is not None for _, x in positions(out) if x[0] == "obs") else None


def flat_node(op, kids):
    out = []
    for k in kids:
        if k[0] == op:
            out.extend(k[1])
        else:
            out.append(k)
    return (op, out)


DEMANDED_RULES = ("c-commute", "c-associate", "c-idempotent", "c-absorb-or", "c-absorb-and", "c-distribute", "set-order",
                  "numeric", "o-commute", "o-associate", "o-idempotent-or", "o-absorb-and", "o-absorb-fby-left",
                  "o-absorb-fby-right", "o-distribute-and", "o-distribute-fby-right", "o-distribute-fby-left",
                  "o-distribute-nested", "o-two-pass", "c-two-pass")


def rule_instance(rng, name=None):
    """One instance (name, lhs, rhs, a) of a rewrite the property lists, applied
    at the ROOT of a pattern with generated sub-expressions for its
    metavariables (a is the first metavariable)."""
    g = Gen(rng, 2)
    name = name or rng.choice(DEMANDED_RULES)

    def osub():
        for _ in range(30):
            e = normalize_shape(g.oexpr(rng.choice([0, 0, 0, 1, 1, 2])))
            if not leaf_qualifier_clash(e) and size(e) <= 25 and not too_costly(e, 6, 40):
                return e
        return ("obs", g.atom("a"))

    if name.startswith("o-"):
        a, b, c = osub(), osub(), osub()
        if name == "o-commute":
            op = rng.choice(["oand", "oor"])
            kids = [a, b, c][:rng.choice([2, 3])]
            k2 = kids[:]
            while k2 == kids:
                rng.shuffle(k2)
                if all(x == kids[0] for x in kids):
                    break
            return name, (op, kids), (op, k2), a
        if name == "o-associate":
            op = rng.choice(["oand", "oor"])
            forms = [(op, [a, (op, [b, c])]), (op, [(op, [a, b]), c]), (op, [a, b, c])]
            l, r = rng.sample(forms, 2)
            return name, l, r, a
        if name == "o-idempotent-or":
            if rng.random() < 0.5:
                return name, ("oor", [a, a]), a, a
            return name, ("oor", rng.choice([[a, b, a], [a, a, b], [b, a, a]])), ("oor", [a, b]), a
        if name == "o-absorb-and":
            big = ("oand", [a, b] if rng.random() < 0.5 else [b, a])
            return name, ("oor", [a, big] if rng.random() < 0.5 else [big, a]), a, a
        if name == "o-absorb-fby-left":
            big = ("ofby", [a, b])
            return name, ("oor", [a, big] if rng.random() < 0.5 else [big, a]), a, a
        if name == "o-absorb-fby-right":
            big = ("ofby", [b, a])
            return name, ("oor", [a, big] if rng.random() < 0.5 else [big, a]), a, a
        if name == "o-two-pass":
            # needs two rounds of one settle phase: the nested duplicate leaves a one-operand OR, whose collapse makes the
            # AND a duplicate of its sibling
            la, lb = ("obs", g.atom(rng.choice(TYPES))), ("obs", g.atom(rng.choice(TYPES)))
            op = rng.choice(["oand", "ofby"])
            dup = (op, [("oor", [la, la]), lb])
            plain = (op, [la, lb])
            return name, ("oor", [dup, plain] if rng.random() < 0.5 else [plain, dup]), plain, la
        if name == "o-distribute-nested":
            # two levels: A op1 (B OR (C op2 (D OR E))) with op1, op2 among AND / FOLLOWEDBY (the operand on either
            # side), against the full expansion or against the expansion of the inner level only
            def leaf():
                return ("obs", g.atom(rng.choice(TYPES)))
            la, lb, lc, ld, le = leaf(), leaf(), leaf(), leaf(), leaf()
            op1, op2 = rng.choice(["oand", "ofby"]), rng.choice(["oand", "ofby"])

            def mk(op, x, y, left):
                return (op, [x, y] if left else [y, x])
            s1, s2 = rng.random() < 0.5, rng.random() < 0.5
            inner = mk(op2, lc, ("oor", [ld, le]), s2)
            lhs = mk(op1, la, ("oor", [lb, inner]), s1)
            inner_exp = [mk(op2, lc, ld, s2), mk(op2, lc, le, s2)]
            if rng.random() < 0.5:
                rhs = ("oor", [mk(op1, la, lb, s1)] + [mk(op1, la, t, s1) for t in inner_exp])
            else:
                rhs = mk(op1, la, ("oor", [lb] + inner_exp), s1)
            return name, lhs, rhs, la
        if name == "o-distribute-and":
            return name, ("oand", [a, ("oor", [b, c])]), ("oor", [("oand", [a, b]), ("oand", [a, c])]), a
        if name == "o-distribute-fby-right":
            return name, ("ofby", [a, ("oor", [b, c])]), ("oor", [("ofby", [a, b]), ("ofby", [a, c])]), a
        return name, ("ofby", [("oor", [a, b]), c]), ("oor", [("ofby", [a, c]), ("ofby", [b, c])]), a

    x = rng.random()
    typ = rng.choice(TYPES) if x < 0.7 else rng.choice(["ipv4-addr", "ipv6-addr", "windows-registry-key"])

    def csub():
        for _ in range(30):
            e = normalize_shape(g.cexpr(rng.choice([0, 0, 0, 1, 1, 2]), typ))
            if size(e) <= 14 and dnf_cost(e)[0] <= 5:
                return e
        return g.atom(typ)

    def obs(cx):
        return ("obs", cx)

    a, b, c = csub(), csub(), csub()
    if name == "c-commute":
        op = rng.choice(["and", "or"])
        kids = [a, b, c][:rng.choice([2, 3])]
        k2 = kids[:]
        while k2 == kids:
            rng.shuffle(k2)
            if all(y == kids[0] for y in kids):
                break
        return name, obs((op, kids)), obs((op, k2)), a
    if name == "c-associate":
        op = rng.choice(["and", "or"])
        forms = [(op, [a, (op, [b, c])]), (op, [(op, [a, b]), c]), (op, [a, b, c])]
        l, r = rng.sample(forms, 2)
        return name, obs(l), obs(r), a
    if name == "c-idempotent":
        op = rng.choice(["and", "or"])
        if rng.random() < 0.5:
            return name, obs((op, [a, a])), obs(a), a
        return name, obs((op, rng.choice([[a, b, a], [a, a, b], [b, a, a]]))), obs((op, [a, b])), a
    if name == "c-absorb-or":
        big = ("and", [a, b] if rng.random() < 0.5 else [b, a])
        return name, obs(("or", [a, big] if rng.random() < 0.5 else [big, a])), obs(a), a
    if name == "c-absorb-and":
        big = ("or", [a, b] if rng.random() < 0.5 else [b, a])
        return name, obs(("and", [a, big] if rng.random() < 0.5 else [big, a])), obs(a), a
    if name == "c-two-pass":
        ty = rng.choice(TYPES)
        xa, xb = g.atom(ty), g.atom(ty)
        dup = ("and", [("or", [xa, xa]), xb])
        plain = ("and", [xa, xb])
        return name, obs(("or", [dup, plain] if rng.random() < 0.5 else [plain, dup])), obs(plain), xa
    if name == "c-distribute":
        return name, obs(("and", [a, ("or", [b, c])])), obs(("or", [("and", [a, b]), ("and", [a, c])])), a
    if name == "set-order":
        for _ in range(30):
            t, steps, special = g.path(typ)
            if special == "hash":
                continue
            k = g.setlit(special)
            if len(k[1]) >= 2:
                l2 = k[1][:]
                rng.shuffle(l2)
                neg = rng.random() < 0.2
                return (name, obs(("atom", t, steps, "IN", neg, k)), obs(("atom", t, steps, "IN", neg, ("list", l2))), a)
        return rule_instance(rng, "c-commute")
    # numeric: the same number spelt differently (int / float / trailing zeros), alone or inside a set
    for _ in range(30):
        k = g.prim(["int", "float"])
        n = respell_prim(rng, k)
        if n[:2] != k[:2] and n[0] in ("int", "float"):
            t, steps, special = g.path(rng.choice(TYPES))
            if special == "hash":
                continue
            if rng.random() < 0.3:
                other = g.prim(["int", "float", "str"])
                return (name, obs(("atom", t, steps, "IN", False, ("list", [k, other]))),
                        obs(("atom", t, steps, "IN", False, ("list", [n, other]))), a)
            op = rng.choice(["=", "!=", "<", ">=", "<=", ">"])
            return name, obs(("atom", t, steps, op, False, k)), obs(("atom", t, steps, op, False, n)), a
    return rule_instance(rng, "c-commute")


def normalize_shape(e):
    """make an abstract AST printable without changing its meaning: n-ary
    nodes keep >= 2 operands; qualifier chains directly on a leaf never
    repeat a qualifier type (the validator rejects that unless parenthesised,
    which the printer cannot express for a leaf) -- a repeated type is moved
    onto a singleton-free wrapper by dropping it."""
    t = e[0]
    if t in ("and", "or", "oand", "oor", "ofby"):
        kids = [normalize_shape(x) for x in e[1]]
        if len(kids) == 1:
            return kids[0]
        return (t, kids)
    if t == "obs":
        return ("obs", normalize_shape(e[1]))
    if t == "qual":
        return ("qual", normalize_shape(e[1]), e[2])
    return e


def leaf_qualifier_clash(e):
    """True if some leaf [..] carries two qualifiers of the same type without parentheses in between"""
    t = e[0]
    if t == "qual":
        seen = []
        x = e
        while x[0] == "qual":
            seen.append(x[2][0].replace("withinf", "within"))
            x = x[1]
        if x[0] == "obs" and len(seen) != len(set(seen)):
            return True
        return leaf_qualifier_clash(x)
    if t in ("oand", "oor", "ofby"):
        return any(leaf_qualifier_clash(x) for x in e[1])
    return False


def size(e):
    return sum(1 for _ in positions(e))


def dnf_cost(e):
    """(number of disjuncts, width of the widest disjunct) of the DNF the
    normaliser will build for e at its own level (an observation leaf counts
    as one operand there)"""
    t = e[0]
    if t in ("or", "oor"):
        cs = [dnf_cost(x) for x in e[1]]
        return sum(c[0] for c in cs), max(c[1] for c in cs)
    if t in ("and", "oand", "ofby"):
        n, w = 1, 0
        for x in e[1]:
            c = dnf_cost(x)
            n, w = n * c[0], w + c[1]
        return n, w
    if t == "qual":
        return dnf_cost(e[1])
    return 1, 1


def too_costly(e, max_terms=24, max_work=160):
    """True if normalising e would build a DNF with many terms at either level
    (the normaliser is exponential there; the harness keeps cases cheap)"""
    for _, x in positions(e):
        if x[0] == "obs":
            n, w = dnf_cost(x[1])
            if n > max_terms or n * w > max_work:
                return True
    # qualifiers cut the observation-level DNF into separate problems
    for _, x in positions(e):
        if x[0] in ("oand", "oor", "ofby"):
            n, w = dnf_cost(x)
            if n > max_terms or n * w > max_work:
                return True
    return False


def stats(e, acc):
    for _, x in positions(e):
        acc[x[0]] = acc.get(x[0], 0) + 1
        if x[0] == "atom":
            acc["op " + x[3]] = acc.get("op " + x[3], 0) + 1
            if x[4]:
                acc["NOT"] = acc.get("NOT", 0) + 1
            acc["const " + x[5][0]] = acc.get("const " + x[5][0], 0) + 1
        if x[0] == "qual":
            acc["qual " + x[2][0]] = acc.get("qual " + x[2][0], 0) + 1
    return acc

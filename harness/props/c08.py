"""C08 -- a granular-marking selector is valid exactly when it addresses something.

Model: coq/Model/Markings.v (iterpath, _evaluate_expression, validate, the
constructor's re-checks), theorems in coq/Props/C08.v.  Tie: correspondence of
the model with stix2.markings.* / methods / construction / parse on generated
objects x (every path of the object + near misses).  Oracle: an independent
Python path resolver (marking_gen.all_paths) against the implementation's
accept/reject behaviour."""
import collections
import json
import os

import common
from common import Broken, Violation
from props import marking_gen as G

MANIFEST = {
    "text": "Coq theorems over ALL value trees and selector strings about an executable model of iterpath/"
            "_evaluate_expression/validate: for the repaired variant, validate accepts s iff s is the text of a path "
            "(keys, [i] indices, through dicts, embedded objects and lists at any nesting) that resolves in the object, "
            "whatever value is stored there; a _refuted theorem with a concrete witness for each deviation of the pinned "
            "code (falsy value, repeated list element, embedded object, list in list, upper-case key syntax). The model "
            "is tied to /repo on every run by translators/tr_markings.py (variant sites, control-flow skeletons and the "
            "SELECTOR_REGEX text read from the ast, fail closed; Props/C08Src.v instantiates the theorems at that variant) "
            "and by a correspondence run through stix2.markings.* functions, the same-named "
            "methods, construction and parse, with the variant selected by running each witness on the implementation.",
    "design_ref": "DESIGN.md 6/C07-C08",
    "note": "What 'accepted exactly when it addresses something' means theorem by theorem: validate (and with it every "
            "marking function's rejection: every_function_rejects) -- both directions, validate_iff_addresses; the two "
            "queries accept what validate accepts (queries_accept, C07 query_errors_agree); construction -- both directions "
            "but for 'addresses AND is in the selector grammar' (constructor_accepts_iff; an addressing selector outside "
            "SELECTOR_REGEX, e.g. a two-character or upper-case first key, is refused with InvalidValueError; "
            "InvalidSelectorError only for a non-addressing selector: constructor_rejects_only_nonaddressing); the mutators "
            "-- rejection for all objects, acceptance proved for plain dicts only (dict_mutators_accept), for constructed "
            "objects the rebuilt result goes through the constructor theorem; the rest of mutator acceptance is "
            "correspondence + oracle. `addresses_something` is existential over step lists and `render` is not injective "
            "(a key containing '.' or named '[0]' has the text of a longer path): a selector text is valid when SOME step "
            "list with that text addresses a value, which is what the code does. "
            "Trusted: Coq kernel + vm_compute; the hand-written model (checked by correspondence, not translated); the "
            "harness's tree dump of constructed objects and its independent path resolver. Marking ids are assumed "
            "well-formed; \\d of SELECTOR_REGEX is the 680 Unicode Nd code points (table compared with the regex on every run).",
    "technique": "Coq proof over a hand-written executable model + correspondence run + oracle search",
}

HEADER = """From Coq Require Import NArith ZArith List String.
From V Require Import Base.UString Model.Markings Model.MarkingsRun.
Import ListNotations. Open Scope string_scope.
"""

FINDING_OF_TAG = collections.OrderedDict([
    ("falsy", ("falsy", "TruthyOnly", "C08-falsy-value")),
    ("dup-element", ("index", "FirstEqual", "C08-repeated-list-element")),
    ("embedded", ("embed", "DictOnly", "C08-embedded-object")),
    ("nested-list", ("nest", "FlatLists", "C08-nested-list")),
    ("uppercase-key", ("syntax", "LowerKeys", "C08-uppercase-key-syntax")),
])

ID0 = "00000000-0000-4000-8000-000000000000"


def _md(d):
    d = dict(d)
    d.setdefault("type", "malware")
    d.setdefault("spec_version", "2.1")
    d.setdefault("id", "malware--" + ID0)
    d.setdefault("created", G.T0)
    d.setdefault("modified", G.T0)
    d.setdefault("name", "m")
    d.setdefault("is_family", False)
    return d


# One witness per variant parameter: (field, build, selector, what is looked at).
# The same inputs are the witnesses of the *_refuted theorems in Props/C08.v.
WITNESSES = {
    "falsy": ({"how": "dict", "version": "2.1", "cls": "Malware", "data": _md({})}, "is_family"),
    "index": ({"how": "dict", "version": "2.1", "cls": "Malware", "data": _md({"labels": ["a", "a"]})}, "labels.[1]"),
    "embed": ({"how": "class", "version": "2.1", "cls": "Malware",
               "data": _md({"external_references": [{"source_name": "s", "url": "http://x"}]})},
              "external_references.[0].url"),
    "nest": ({"how": "dict", "version": "2.1", "cls": "Malware", "data": _md({"x_m": [["a", "b"]]})}, "x_m.[0].[1]"),
    "syntax": ({"how": "class", "version": "2.1", "cls": "Malware", "data": _md({"x_m": {"Bar": "v"}})}, "x_m.Bar"),
    # reversed polarity: the pinned code ACCEPTS a selector that addresses nothing
    "ind20": ({"how": "class", "version": "2.0", "cls": "Indicator",
               "data": {"type": "indicator", "id": "indicator--" + ID0, "created": G.T0, "modified": G.T0,
                        "labels": ["a"], "pattern": "[file:name = 'a']", "valid_from": G.T0}}, "nonexistent"),
}
WITNESS_FN = {"falsy": "validate", "index": "validate", "embed": "validate", "nest": "validate", "syntax": "add",
              "ind20": "ctor"}
IND20_FINDING = "C08-v20-indicator-constructor-unchecked"


def probe_variants(run, fields=("falsy", "index", "embed", "nest", "syntax", "ind20")):
    """Run each witness on the implementation; pick the variant the code matches."""
    cases = [{"build": WITNESSES[f][0], "kind": "c08", "selectors": [WITNESSES[f][1]]} for f in fields]
    res = common.run_impl("c07_impl", cases, procs=1)
    cfg = {}
    obs = {}
    for f, r in zip(fields, res):
        if "results" not in r:
            run.broken.append(Broken("correspondence", "witness of variant %s did not run" % f, {"result": r}))
            cfg[f] = G.CFG_VALUES[f][0]
            continue
        o = r["results"][0]
        obs[f] = o
        key = WITNESS_FN[f]
        accepted, rejected = (0, 1) if f == "ind20" else (1, 0)
        if o[key] == "ok":
            cfg[f] = G.CFG_VALUES[f][accepted]
        elif o[key] in ("InvalidSelectorError", "InvalidValueError"):
            cfg[f] = G.CFG_VALUES[f][rejected]
        else:
            run.broken.append(Broken("correspondence", "witness of variant %s: unexpected outcome" % f, {"result": o}))
            cfg[f] = G.CFG_VALUES[f][0]
    if "syntax" in cfg:
        # `$` (also matches before one trailing newline) or \Z: SelectorProperty.clean("name\n")
        nl = common.run_impl("c07_impl", [{"kind": "syntax", "strings": ["name\n"]}], procs=1)[0]["syntax"][0]
        if nl is False:
            cfg["syntax"] += "Z"
        obs["syntax_newline_accepted"] = nl
    return cfg, obs


REJECT = ("InvalidSelectorError", "InvalidValueError")
FUNCS = ("validate", "get", "is_marked", "add", "remove", "clear", "set", "ctor", "is_marked_inh", "get_inh", "ctor_lang")
CODES = {"ok": "o", "InvalidSelectorError": "S", "MarkingNotFoundError": "M", "TypeNotVersionableError": "T",
         "ObjectNotVersionableError": "O", "RevokeError": "R", "InvalidValueError": "V", "n/a": "-"}


def impl_line(r):
    """Same one-letter rendering as Model/MarkingsRun.v c08_line ('?' = an outcome the model cannot produce)."""
    return "".join(CODES.get(r[k], "?") for k in FUNCS)


def impl_long(r):
    return " ".join("%s=%s" % (k, r[k]) for k in FUNCS)


SHARD = 24


def oracle_case(build, tree, selectors, results, cfg):
    """The property on the implementation: accepted by every function /
    construction exactly when the selector addresses something."""
    out = []
    paths = G.all_paths(tree)
    bytext = collections.defaultdict(list)
    for p, v in paths:
        bytext[".".join(p)].append(p)
    for sel, r in zip(selectors, results):
        if isinstance(sel, list):
            if not sel:
                continue                      # an empty list has no selector to judge (correspondence only)
            per = [bytext.get(x, []) for x in sel]
            addressed = [p for ps in per for p in ps] if all(per) else []
            self_ref = any(x.split(".")[0] in ("granular_markings", "object_marking_refs") for x in sel)
        else:
            addressed = bytext.get(sel, [])
            # A selector into granular_markings / object_marking_refs is judged on the queries only: a
            # mutator (and construction with one more granular marking) changes what such a selector
            # addresses, and the rebuilt object is re-validated against its own new marking lists.
            self_ref = sel.split(".")[0] in ("granular_markings", "object_marking_refs")
        for fn in FUNCS:
            o = r[fn]
            if o == "n/a" or (self_ref and fn in ("add", "remove", "clear", "set", "ctor", "ctor_lang")):
                continue
            if fn == "ctor_lang" and build["version"] == "2.0":
                continue                      # 2.0 granular markings have no `lang`: refused whatever the selector
            rejected = any(x in o for x in REJECT)
            if addressed and rejected:
                tags = set()
                for p in addressed:
                    tags |= G.classify_path(tree, p)
                if o.find("InvalidValueError") >= 0 and "InvalidSelectorError" not in o:
                    tags &= {"uppercase-key"}
                else:
                    tags -= {"uppercase-key"}
                finding = None
                for tag, (field, defective, fid) in FINDING_OF_TAG.items():
                    if tag in tags and cfg.get(field) in (defective, defective + "Z"):
                        finding = fid
                        break
                out.append(Violation(
                    "selector %r addresses an existing value (%s) but %s rejects it with %s" % (
                        sel, ",".join(sorted(tags)) or "plain", fn, o),
                    {"kind": "c08", "build": build, "selector": sel, "function": fn, "expect": "accepted"}, finding))
                break
            if not addressed and not rejected:
                finding = None
                if (fn == "ctor" and cfg.get("ind20") == "Ind20Unchecked" and build["version"] == "2.0"
                        and build["data"].get("type") == "indicator"):
                    finding = IND20_FINDING
                out.append(Violation(
                    "selector %r addresses nothing but %s accepts it (%s)" % (sel, fn, o),
                    {"kind": "c08", "build": build, "selector": sel, "function": fn, "expect": "rejected"}, finding))
                break
    return out


def run_cases(run, builds, cfg, max_real=60, max_near=14, tag="c08"):
    """builds -> (cases with selectors, impl results, model lines or None)."""
    rng = run.rng
    first = common.run_impl("c07_impl", [{"build": b, "kind": "paths"} for b in builds])
    cases, terms_info = [], []
    for b, r in zip(builds, first):
        if "tree" not in r:
            run.coverage["build_failures"] = run.coverage.get("build_failures", 0) + 1
            continue
        term, why = G.coq_sobj(r)
        if term is None:
            run.coverage["unsupported"] = run.coverage.get("unsupported", 0) + 1
            continue
        paths = G.all_paths(r["tree"])
        real = sorted(set(".".join(p) for p, _ in paths))
        if len(real) > max_real:
            prio = [x for x in real if G.priority_selector(x)]
            if len(prio) > max_real // 2:
                longest = sorted(prio, key=lambda x: -x.count("."))[:min(8, max_real // 2)]   # the deepest paths always
                others = [x for x in prio if x not in set(longest)]
                prio = longest + rng.sample(others, max_real // 2 - len(longest))
            rest = [x for x in real if x not in set(prio)]
            real = sorted(prio + rng.sample(rest, min(len(rest), max_real - len(prio))))
        near = G.near_misses(rng, r["tree"], paths, 6)
        if len(near) > max_near:
            near = near[:4] + rng.sample(near[4:], max_near - 4)
        # the selectors (and selector lists) stored in the object's own granular markings: asked back verbatim
        own = []
        for g in (r["state0"]["gms"] or []):
            if any(x not in set(real) for x in g["sels"]):
                own += [x for x in g["sels"] if x not in real and x not in near]
                if len(g["sels"]) > 1:
                    own.append(list(g["sels"]))
        near = near + [x for x in own if isinstance(x, str)]
        multi = []
        if real:
            g1, g2 = rng.choice(real), rng.choice(real)
            bad = rng.choice(near)
            multi = [[g1, g2], [g1, bad], [bad, g1], [g1, g1], [g1, g2, bad], []] + [x for x in own if isinstance(x, list)]
        cases.append({"build": b, "kind": "c08", "selectors": real + near + multi})
        terms_info.append(term)
    impl = common.run_impl("c07_impl", cases)
    terms = []
    for c, term in zip(cases, terms_info):
        terms.append("c08_lines %s %s %s" % (G.coq_cfg(cfg), term, common.coq_list(
            [G.coq_ulist(x if isinstance(x, list) else [x]) for x in c["selectors"]])))
        terms.append("show_paths %s %s" % (G.coq_cfg(cfg), term))
    model = None
    try:
        model = common.coq_eval_lines(tag, HEADER, terms, shard=SHARD)
    except RuntimeError as e:
        run.broken.append(Broken("correspondence", "model evaluation failed", {"error": str(e)[-1500:]}))
    return cases, impl, model


def syntax_strings(rng, n_random):
    """Strings around the selector syntax: the length bounds of a first / later
    segment, index forms, the `$`-before-newline rule, upper case, separators."""
    ks = "abcxyz019_-"
    out = ["id", "id\n", "id\n\n", "idx", "id.x", "i", "", "\n", ".", "..", "a.b", "abc", "abc.", ".abc", "abc..d",
           "abc.d", "abc.D", "Abc.d", "abc.dE-f_9", "ABC", "abc.[0]", "abc.[12]", "abc.[012]", "abc.[]", "abc.[a]",
           "abc.[1", "abc.1]", "abc.[1]x", "abc.x[1]", "abc[1]", "[0]", "[0].abc", "abc.[0].[1]", "abc.[0].d.[2].e",
           "abc.[-1]", "abc.[ 1]", "abc.[1 ]", "abc.[1]\n", "abc\n", "abc\n\n", "abc\n.d", "abc.d\n", "abc d",
           "abc.d e", "abc.d/e", "ab", "a-b", "a_b", "---", "___", "0ab", "abc.-", "abc._", "abc.0", "abc.d.",
           "abc.[1].", "abc.\u00e9", "\u00e9bc", "abc.[1][2]", "abc.[1].[2]", "abc.d\t", "abc\r", "abc.[1]\r\n"]
    # \d is any Unicode decimal digit; neighbours of the ranges and digit-like characters that are not Nd
    for d in ("\u0661", "\u0669\u0660", "\u06f5", "\u0967", "\uff11", "\U0001d7ce", "\U0001d7ff", "\U0001e950", "\U0001fbf9",
              "1\u0661", "\u0661" + "2", "\u00b2", "\u2460", "\u3007", "\u5341", "\u2170", "\u0bf0", "\u066a", "\u065f", "\u0670",
              "\U0001d7cd", "\U0001d800", "/", ":", "\u0e50", "\u0e5a"):
        out.append("abc.[%s]" % d)
        out.append("abc.%s" % d)
    for n in (1, 2, 3, 4, 249, 250, 251, 252, 500):
        out.append("a" * n)
        out.append("abc." + "b" * n)
        out.append("abc." + "B" * n)
        out.append("a" * n + ".[7]")
        out.append("abc.[" + "7" * n + "]")
        out.append("a" * n + "\n")
    for _ in range(n_random):
        segs = []
        for j in range(rng.choice([1, 1, 2, 3, 4])):
            r = rng.random()
            if r < 0.25:
                segs.append("[%s]" % "".join(rng.choice("0123456789") for _ in range(rng.choice([0, 1, 1, 2, 3]))))
            else:
                pool = ks + ("ABZ" if rng.random() < 0.3 else "") + (".[] \n" if rng.random() < 0.15 else "")
                segs.append("".join(rng.choice(pool) for _ in range(rng.choice([0, 1, 2, 3, 3, 4, 6, 10]))))
        t = ".".join(segs)
        if rng.random() < 0.1:
            t += "\n"
        out.append(t)
    return list(dict.fromkeys(out))


def syntax_correspondence(run, cfg, n_random):
    strings = syntax_strings(run.rng, n_random)
    both = common.run_impl("c07_impl", [{"kind": "syntax", "strings": strings}, {"kind": "digits"}], procs=1)
    res, digits = both[0]["syntax"], both[1]["digits"]
    terms = ["show_bool (selector_syntax_ok %s %s)" % (G.coq_cfg(cfg), common.coq_ustr(x)) for x in strings]
    terms.append("show_nd_ranges")
    try:
        model = common.coq_eval_lines("c08s", HEADER, terms, shard=120)
    except RuntimeError as e:
        run.broken.append(Broken("correspondence", "model evaluation failed (selector syntax)", {"error": str(e)[-1500:]}))
        return
    dis = []
    run.coverage["index_digit_code_points"] = sum(int(b) - int(a) + 1 for a, b in (r.split("-") for r in digits.split(",") if r))
    if model[-1] != digits:
        dis.append({"string": "(the set of code points accepted between the brackets of an index step)",
                    "impl": digits[:300], "model": model[-1][:300]})
    for x, a, b in zip(strings, res, model):
        run.count({"syntax": x}, nontrivial=True)
        ia = "true" if a is True else ("false" if a is False else str(a))
        if ia != b:
            dis.append({"string": x, "impl": ia, "model": b})
    run.coverage["syntax_strings"] = len(strings)
    run.coverage["syntax_accepted"] = sum(1 for a in res if a is True)
    if dis:
        run.broken.append(Broken("correspondence", "selector_syntax_ok (variant %s) vs SelectorProperty.clean" % cfg["syntax"],
                                 {"first": dis[:5]}))


def source_step(run, src_props, fields):
    """Translate the marking sources (Gen/MarkingFacts.v) and build the source-tied obligations.
    Must be called inside common.Lock().  Returns the facts read from the text, or None."""
    import tr_markings
    facts = None
    try:
        text, facts = tr_markings.translate(common.REPO, None)
        common.write_if_changed(os.path.join(common.COQ, "Gen", "MarkingFacts.v"), text)
    except tr_markings.TranslateError as e:
        run.broken.append(Broken("translator", "tr_markings", {"error": str(e)}))
    except (OSError, SyntaxError, ValueError, AttributeError, IndexError) as e:
        run.broken.append(Broken("translator", "tr_markings", {"error": "%s: %s" % (type(e).__name__, e)}))
    if facts is not None:
        res = common.build_props(src_props)
        run.add_build(res, "make -C coq Props/%s.vo and %s (coqc 8.16.1, full .vo) + Print Assumptions per theorem" % (
            run.pid, src_props[:-2] + ".vo"))
        run.coverage["source_text_variant"] = {f: facts[f] for f in fields}
    else:
        run.coverage["obligations"] += len(common.theorems_in(src_props))
    return facts


def compare_text_and_probe(run, facts, cfg, fields):
    """The variant read from the source text and the one found by running the witnesses must agree."""
    if facts is None:
        return
    diff = {f: {"text": facts[f], "behaviour": cfg.get(f)} for f in fields if f in cfg and facts[f] != cfg[f]}
    if diff:
        run.broken.append(Broken("correspondence", "the source text and the behaviour of the witnesses denote different variants",
                                 {"differences": diff}))


C08_FIELDS = ("falsy", "index", "embed", "nest", "syntax", "ind20")


def full_cfg(cfg):
    c = {"inherit": "ByPrefix", "api": "AnyObjectMarking"}
    c.update(cfg)
    return c


def check(run):
    thorough = run.tier == "thorough"
    n_objects = 900 if thorough else 60
    run.coverage["rule"] = (
        "generated SDO/SRO/marking-definition objects (2.0 and 2.1; built by class constructor, by parse, or kept as plain "
        "dicts) with falsy values, repeated list elements, embedded objects, nested custom content and prefix-related "
        "property names; for each object every path of its value tree (capped at 60) plus near-miss selectors; each "
        "(object, selector) goes through validate, the six marking functions and methods, and construction/parse with "
        "the selector in a granular marking (once as a marking_ref marking, once as a language marking); plus a deterministic per-class pass (every class template x version x "
        "class/parse x with/without extensions) and a fifth of the objects again under TZ=JST-9 / PYTHONHASHSEED=7. "
        "An (object, selector) evaluation is non-trivial when the selector is a "
        "real path of the object or a near miss derived from one (all but the four fixed junk selectors).")
    with common.Lock():
        res = common.build_props("Props/C08.v", extra_targets=("Model/MarkingsRun.vo",))
        run.add_build(res, "make -C coq Props/C08.vo (coqc 8.16.1, full .vo) + Print Assumptions per theorem")
        facts = source_step(run, "Props/C08Src.v", C08_FIELDS)
    cfg8, obs = probe_variants(run)
    compare_text_and_probe(run, facts, cfg8, C08_FIELDS)
    cfg = full_cfg(cfg8)
    run.coverage["variant_selected"] = cfg8
    # the witnesses are failing inputs whenever a defective variant is selected
    for f, (b, sel) in WITNESSES.items():
        if f == "ind20":
            if cfg8.get(f) == "Ind20Unchecked" and f in obs:
                run.violations.append(Violation(
                    "selector %r addresses nothing but the v20 Indicator constructor accepts it" % sel,
                    {"kind": "c08", "build": b, "selector": sel, "function": "ctor", "expect": "rejected"}, IND20_FINDING))
            continue
        if cfg8.get(f) in (G.CFG_VALUES[f][0], G.CFG_VALUES[f][0] + "Z") and f in obs:
            tag = [t for t, v in FINDING_OF_TAG.items() if v[0] == f][0]
            fn = WITNESS_FN[f]
            run.violations.append(Violation(
                "selector %r addresses an existing value (%s) but %s rejects it with %s" % (sel, tag, fn, obs[f][fn]),
                {"kind": "c08", "build": b, "selector": sel, "function": fn, "expect": "accepted"},
                FINDING_OF_TAG[tag][2]))
    builds = [G.gen_build(run.rng) for _ in range(n_objects)]
    cases, impl, model = run_cases(run, builds, cfg)
    # per-class pass: every class with its own constraint code, both versions, by class and by parse, with and
    # without extensions -- fewer selectors each (the point is construction / parse with bad selectors)
    cov = G.coverage_builds(run.rng)
    cases2, impl2, model2 = run_cases(run, cov, cfg, max_real=10, max_near=10, tag="c08c")
    run.coverage["per_class_objects"] = len(cases2)
    model = (model + model2) if (model is not None and model2 is not None) else None
    cases, impl = cases + cases2, impl + impl2
    syntax_correspondence(run, cfg, 3000 if thorough else 300)
    hist = collections.Counter()
    dis = []
    k = 0
    for i, (c, r) in enumerate(zip(cases, impl)):
        if "results" not in r:
            run.broken.append(Broken("correspondence", "worker failed on a case", {"case": c, "result": r}))
            continue
        lines = " ".join(impl_line(x) for x in r["results"])
        paths_line = G.toks(sorted(r["iterpath"]))
        for sel, x in zip(c["selectors"], r["results"]):
            run.count({"b": c["build"], "s": sel},
                      nontrivial=isinstance(sel, list) or sel not in ("nonexistent", "", "id.x", "type.[0]"))
            hist["%s/%s" % (c["build"]["how"], x["validate"])] += 1
        if model is not None:
            m_lines, m_paths = model[2 * i], model[2 * i + 1]
            if m_lines != lines:
                ml, il = m_lines.split(" "), lines.split(" ")
                for sel, a, b in zip(c["selectors"], il, ml):
                    if a != b:
                        dis.append({"build": c["build"], "selector": sel, "impl": a, "model": b})
                        break
            elif m_paths != paths_line:
                dis.append({"build": c["build"], "iterpath_impl": paths_line, "iterpath_model": m_paths})
        try:
            run.violations += oracle_case(c["build"], r["tree"], c["selectors"], r["results"], cfg)
        except Exception as e:  # noqa: BLE001 -- the oracle must never take the check down
            run.broken.append(Broken("harness", "oracle failed on a case", {"build": c["build"], "error": "%s: %s" % (type(e).__name__, e)}))
        if i < 2:
            run.sample({"build": c["build"], "selector": c["selectors"][0], "impl": impl_long(r["results"][0])})
    # every fifth object again in another process environment (TZ=JST-9, PYTHONHASHSEED=7, lower recursion limit)
    alt_idx = list(range(0, len(cases), 5))
    alt = common.run_impl("c07_impl", [cases[i] for i in alt_idx], args=("--alt-env",))
    env_dis = []
    for i, r in zip(alt_idx, alt):
        if "results" in r and "results" in impl[i]:
            a = " ".join(impl_line(x) for x in r["results"])
            b = " ".join(impl_line(x) for x in impl[i]["results"])
            if a != b or sorted(r["iterpath"]) != sorted(impl[i]["iterpath"]):
                env_dis.append({"build": cases[i]["build"], "default_env": b[:200], "alt_env": a[:200]})
    run.coverage["alt_environment_objects"] = len(alt_idx)
    if env_dis:
        run.broken.append(Broken("correspondence", "results depend on the process environment (TZ / PYTHONHASHSEED)",
                                 {"first": env_dis[:3]}))
    run.coverage["objects"] = len(cases)
    run.coverage["outcome_histogram"] = dict(hist)
    run.coverage["correspondence_disagreements"] = len(dis)
    if dis:
        run.broken.append(Broken("correspondence", "Model/Markings.v (variant %s) vs stix2.markings" % json.dumps(cfg8),
                                 {"first": dis[:5]}))
    run.coverage["trusted_base"] += [
        "coq/Model/Markings.v is hand-written; tied to the source by the correspondence run above and, for the variant "
        "sites and the control-flow skeleton of every function of stix2/markings, by translators/tr_markings.py (fail closed)",
        "harness/impl/c07_impl.py dump(): the value tree of a constructed object (dict vs other Mapping vs list) as seen by plain recursion",
        "harness/props/marking_gen.py all_paths(): the independent path semantics the oracle uses",
    ]
    run.assumptions += [
        "objects are JSON-like trees plus embedded _STIXBase objects and datetimes; dictionary keys are strings; "
        "no tuples/sets as values; floats inside lists are non-integral (list.index equality of the pinned code)",
        "marking ids handed to the functions are well-formed marking-definition ids or language tags",
    ]


def replay_disagreements(payload):
    """A replay file without a failing input names what no longer checks; re-run the recorded
    model/implementation disagreements on the implementation and say whether they persist."""
    still = 0
    for b in payload.get("no_longer_checks", []):
        print("no longer checks: %s %s" % (b.get("kind"), b.get("name")))
        for d in (b.get("detail") or {}).get("first", []) or []:
            if "string" in d and d["string"].startswith("(the set of code points"):
                got = common.run_impl("c07_impl", [{"kind": "digits"}], procs=1)[0]["digits"][:300]
                print("  code points accepted as index digits: implementation=%s... model=%s..." % (got[:80], d["model"][:80]))
                still += got != d["model"]
            elif "string" in d:
                got = common.run_impl("c07_impl", [{"kind": "syntax", "strings": [d["string"]]}], procs=1)[0]["syntax"][0]
                got = "true" if got is True else ("false" if got is False else str(got))
                print("  selector syntax of %r: implementation=%s model=%s" % (d["string"], got, d["model"]))
                still += got != d["model"]
            elif "selector" in d:
                res = common.run_impl("c07_impl", [{"build": d["build"], "kind": "c08", "selectors": [d["selector"]]}], procs=1)[0]
                got = impl_line(res["results"][0]) if "results" in res else str(res)
                print("  selector %r on %s %s: implementation=%s model=%s (validate get is_marked add remove clear set ctor)" % (
                    d["selector"], d["build"]["how"], d["build"]["data"].get("type"), got, d["model"]))
                still += got != d["model"]
    if still:
        print("the model of the marking code (for which the theorems are proved) still disagrees with the implementation")
        print("VIOLATION property=C08 replay=(given) no-failing-input-found")
        return 1
    print("nothing recorded here reproduces")
    return 0


def replay(payload):
    if "replay" not in payload:
        return replay_disagreements(payload)
    r = payload["replay"]
    case = {"build": r["build"], "kind": "c08", "selectors": [r["selector"]]}
    res = common.run_impl("c07_impl", [case], procs=1)[0]
    if "results" not in res:
        print("replay: the object could not be built: %s" % res)
        return 0
    o = res["results"][0]
    sel_l = r["selector"] if isinstance(r["selector"], list) else [r["selector"]]
    addressed = bool(sel_l) and all(G.addressed(res["tree"], x) for x in sel_l)
    print("replay selector %r on %s %s: addresses something=%s" % (r["selector"], r["build"]["how"],
                                                                  r["build"]["data"].get("type"), addressed))
    print("  observed: %s" % impl_long(o))
    bad = []
    self_ref = any(x.split(".")[0] in ("granular_markings", "object_marking_refs") for x in sel_l)
    for fn in FUNCS:
        if o[fn] == "n/a" or (self_ref and fn in ("add", "remove", "clear", "set", "ctor", "ctor_lang")):
            continue
        if fn == "ctor_lang" and r["build"]["version"] == "2.0":
            continue
        rejected = any(x in o[fn] for x in REJECT)
        if addressed == rejected:
            bad.append(fn)
    if bad:
        print("  %s although the selector %s" % (
            ", ".join("%s %s" % (fn, "rejects" if addressed else "accepts") for fn in bad),
            "addresses an existing value" if addressed else "addresses nothing"))
        print("VIOLATION property=C08 replay=(given)")
        return 1
    print("no violation on this input")
    return 0

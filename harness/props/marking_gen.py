"""Generators shared by C07 and C08: STIX objects / plain dicts carrying the
shapes the marking code is sensitive to, selectors enumerated from the value
tree, near-miss selectors, an independent path resolver, Gallina printers.

Everything random is drawn from the rng passed in (run.rng)."""
import common

TLP = {
    "white": "marking-definition--613f2e26-407d-48c7-9eca-b8e91df99dc9",
    "green": "marking-definition--34098fce-860f-48ae-8e50-ebd3cc5e41da",
    "amber": "marking-definition--f88d31f6-486f-44da-b317-01333bde0b82",
    "red": "marking-definition--5e57c739-391a-4eb3-b6be-7d15ca92d5ed",
}
RED, GREEN, AMBER, WHITE = TLP["red"], TLP["green"], TLP["amber"], TLP["white"]
STMT = "marking-definition--11111111-2222-4333-8444-555555555555"
REF_MARKINGS = [RED, GREEN, AMBER, STMT]
LANG_MARKINGS = ["en", "fr", "de-CH"]
T0 = "2020-01-01T00:00:00.000Z"
T1 = "2020-02-03T04:05:06.789Z"


def uuid(rng):
    return "%08x-%04x-4%03x-8%03x-%012x" % (rng.getrandbits(32), rng.getrandbits(16), rng.getrandbits(12),
                                             rng.getrandbits(12), rng.getrandbits(48))


# ---------------------------------------------------------------- values

KEY_POOL = ["k", "kk", "key", "key_2", "a-b", "Bar", "SHA-256", "n0", "x"]


def gen_value(rng, depth, in_list=False, dotted=False):
    r = rng.random()
    if depth <= 0 or r < 0.5:
        leaves = ["", "a", "a", "b", 0, 1, 2, True, False, None, 1.5, "text with space", "\u00e9", 2 ** 60, 10 ** 22]
        if not in_list:
            leaves += [0.0, -0.0, 7.0]
        return rng.choice(leaves)
    if r < 0.75:
        n = rng.choice([0, 1, 2, 2, 3])
        out = [gen_value(rng, depth - 1, True, dotted) for _ in range(n)]
        if out and rng.random() < 0.4:
            out.append(out[rng.randrange(len(out))])          # a repeated element
        return out
    n = rng.choice([0, 1, 2, 3])
    d = {}
    for _ in range(n):
        k = rng.choice(KEY_POOL)
        if dotted and rng.random() < 0.05:
            k = "d.t"                                          # a key with a dot (plain dict content only)
        elif dotted and rng.random() < 0.06:
            k = rng.choice(["k\u007f", "\U0001f600k", "k k", "k'q", "k\\b"])   # DEL, non-BMP, space, quote, backslash
        d[k] = gen_value(rng, depth - 1, in_list, dotted)
    return d


def ext_refs(rng):
    out = []
    for _ in range(rng.choice([1, 1, 2])):
        e = {"source_name": rng.choice(["src", "capec", ""]) or "src"}
        if rng.random() < 0.6:
            e["url"] = "http://x.example/" + rng.choice(["a", "b"])
        if rng.random() < 0.4:
            e["external_id"] = rng.choice(["CAPEC-1", "T1"])
        if rng.random() < 0.3:
            e["description"] = rng.choice(["", "d"])
        if rng.random() < 0.3:
            e["hashes"] = {"SHA-256": "a" * 64}
        if not (e.get("url") or e.get("external_id")):
            e["external_id"] = "x1"
        out.append(e)
    if rng.random() < 0.35:
        out.append(dict(out[0]))                               # two equal embedded objects
    return out


def kill_chain(rng):
    out = [{"kill_chain_name": "kc", "phase_name": rng.choice(["p1", "p2"])} for _ in range(rng.choice([1, 2]))]
    if rng.random() < 0.4:
        out.append(dict(out[0]))
    return out


def labels(rng):
    out = [rng.choice(["a", "b", "c"]) for _ in range(rng.choice([1, 2, 3]))]
    if rng.random() < 0.4:
        out.append(out[0])
    return out


def order_dict(rng, depth=2):
    """A dictionary whose keys are related as text: one key is a prefix of another and is followed there by
    '-', '_', a digit or an upper-case letter; the shorter key often has children (so that 'k.child' lies between
    'k' and 'k-x' in path-text order but not in walk order); insertion order is shuffled."""
    stem = rng.choice(["net", "opt", "k", "ab", "v6"])
    keys = [stem] + rng.sample([stem + "-v6", stem + "_2", stem + "0", stem + "-", stem + "Z", stem + "a", stem + "--x",
                                stem + "_", stem + "-0"], rng.choice([1, 2, 3]))
    if rng.random() < 0.3:
        keys.append(rng.choice(KEY_POOL))
    rng.shuffle(keys)
    d = {}
    for k in keys:
        r = rng.random()
        if k == stem and r < 0.75 and depth > 0:
            d[k] = rng.choice([{"port": 443}, {"a": 1, "z": {"q": "v"}}, ["x", "y"], order_dict(rng, depth - 1)])
        elif r < 0.25 and depth > 0:
            d[k] = order_dict(rng, depth - 1)
        elif r < 0.4:
            d[k] = long_list(rng)
        else:
            d[k] = rng.choice(["enabled", 1, "v", True, 2.5])
    return d


def long_list(rng, deep=True):
    """11-13 distinct truthy elements, so that indices of two digits exist ('[10]' sorts before '[2]' as text);
    the last elements are sometimes containers."""
    n = rng.choice([11, 12, 13, 11, 12, 13, 100, 101])
    out = ["e%02d" % i for i in range(n)]
    if deep and rng.random() < 0.5:
        out[rng.choice([10, n - 1])] = rng.choice([{"k": "v", "kk": ["p", "q"]}, {"key": {"n0": 1}}])
    if deep and rng.random() < 0.2:
        out[1] = {"k": "first"}
    return out


def deep_value(rng, depth):
    """A chain of `depth` nested containers (dicts and lists mixed) around a leaf: the deep tail of the nesting
    distribution, on both sides of round bounds (64, 128)."""
    v = rng.choice(["leaf", 0, "", True])
    for _ in range(depth):
        r = rng.random()
        if r < 0.55:
            v = {"k": v}
        elif r < 0.75:
            v = {"k": v, "z": 1}
        else:
            v = [v]
    if isinstance(v, list):
        v = {"k": v}
    return v


DEEP_DEPTHS = [3, 20, 62, 63, 64, 65, 66, 70, 127, 128, 129, 130]


# ---------------------------------------------------------------- objects

def base(rng, typ, v21):
    d = {"type": typ}
    if v21:
        d["spec_version"] = "2.1"
    d["id"] = "%s--%s" % (typ, uuid(rng))
    d["created"] = T0
    d["modified"] = rng.choice([T0, T1])
    return d


def t_identity(rng, v21):
    d = base(rng, "identity", v21)
    d["name"] = rng.choice(["ACME", "n"])
    d["identity_class"] = "organization"
    if rng.random() < 0.5:
        d["sectors"] = labels(rng)
    if rng.random() < 0.5:
        d["contact_information"] = rng.choice(["", "c@x"])
    if rng.random() < 0.4:
        d["description"] = rng.choice(["", "desc"])
    return d


def t_malware(rng, v21):
    d = base(rng, "malware", v21)
    d["name"] = "m"
    if v21:
        d["is_family"] = rng.choice([False, False, True])
        if rng.random() < 0.6:
            d["malware_types"] = labels(rng)
        if rng.random() < 0.4:
            d["aliases"] = labels(rng)
    else:
        d["labels"] = labels(rng)
    if rng.random() < 0.6:
        d["kill_chain_phases"] = kill_chain(rng)
    return d


def t_indicator(rng, v21):
    d = base(rng, "indicator", v21)
    d["pattern"] = "[file:name = 'a']"
    d["valid_from"] = T0
    if v21:
        # non-STIX pattern languages are not validated by the library: the class's own constraint code takes another path
        d["pattern_type"] = rng.choice(["stix", "stix", "stix", "snort", "yara", "pcre"])
        if d["pattern_type"] != "stix":
            d["pattern"] = {"snort": "alert tcp any any -> any any (msg:x;)", "yara": "rule r { condition: true }",
                            "pcre": "/ab+c/"}[d["pattern_type"]]
        if rng.random() < 0.3:
            d["valid_until"] = T1
        if rng.random() < 0.5:
            d["indicator_types"] = labels(rng)
        if rng.random() < 0.5:
            d["name"] = rng.choice(["", "i"])
    else:
        d["labels"] = labels(rng)
    if rng.random() < 0.4:
        d["kill_chain_phases"] = kill_chain(rng)
    return d


def t_report(rng, v21):
    d = base(rng, "report", v21)
    d["name"] = "r"
    d["published"] = T0
    refs = ["identity--" + uuid(rng) for _ in range(rng.choice([1, 2]))]
    if rng.random() < 0.4:
        refs.append(refs[0])
    d["object_refs"] = refs
    if v21:
        if rng.random() < 0.5:
            d["report_types"] = labels(rng)
    else:
        d["labels"] = labels(rng)
    return d


def t_relationship(rng, v21):
    d = base(rng, "relationship", v21)
    d["relationship_type"] = "uses"
    d["source_ref"] = "malware--" + uuid(rng)
    d["target_ref"] = "identity--" + uuid(rng)
    if rng.random() < 0.5:
        d["description"] = rng.choice(["", "rel"])
    return d


def t_sighting(rng, v21):
    d = base(rng, "sighting", v21)
    d["sighting_of_ref"] = "indicator--" + uuid(rng)
    if rng.random() < 0.7:
        d["count"] = rng.choice([0, 0, 5])
    if rng.random() < 0.6:
        d["summary"] = rng.choice([False, True])
    if rng.random() < 0.4:
        d["where_sighted_refs"] = ["identity--" + uuid(rng)]
    return d


def t_marking_definition(rng, v21):
    d = {"type": "marking-definition"}
    if v21:
        d["spec_version"] = "2.1"
    d["id"] = "marking-definition--" + uuid(rng)
    d["created"] = T0
    d["definition_type"] = "statement"
    d["definition"] = {"statement": rng.choice(["Copyright", "s"])}
    return d


def seen(rng, d):
    r = rng.random()
    if r < 0.35:
        d["first_seen"] = T0
        d["last_seen"] = rng.choice([T0, T1])
    elif r < 0.5:
        d["first_seen"] = T0


def t_campaign(rng, v21):
    d = base(rng, "campaign", v21)
    d["name"] = "c"
    seen(rng, d)
    if rng.random() < 0.4:
        d["objective"] = rng.choice(["", "obj"])
    return d


def t_intrusion_set(rng, v21):
    d = base(rng, "intrusion-set", v21)
    d["name"] = "is"
    seen(rng, d)
    if rng.random() < 0.5:
        d["goals"] = labels(rng)
    return d


def t_threat_actor(rng, v21):
    d = base(rng, "threat-actor", v21)
    d["name"] = "ta"
    if v21:
        seen(rng, d)
        if rng.random() < 0.5:
            d["threat_actor_types"] = labels(rng)
    else:
        d["labels"] = labels(rng)
    if rng.random() < 0.4:
        d["aliases"] = labels(rng)
    return d


def t_infrastructure(rng, v21):
    d = base(rng, "infrastructure", True)
    d["name"] = "inf"
    seen(rng, d)
    if rng.random() < 0.5:
        d["infrastructure_types"] = labels(rng)
    return d


def t_location(rng, v21):
    d = base(rng, "location", True)
    r = rng.random()
    if r < 0.4:
        d["latitude"] = rng.choice([0.0, 10.5, -33.25])
        d["longitude"] = rng.choice([0.0, 20.5])
        if rng.random() < 0.4:
            d["precision"] = rng.choice([10.0, 2.5])
    elif r < 0.7:
        d["region"] = "northern-america"
    else:
        d["country"] = "US"
    if rng.random() < 0.3:
        d["name"] = rng.choice(["", "loc"])
    return d


def t_malware_analysis(rng, v21):
    d = base(rng, "malware-analysis", True)
    d["product"] = "av"
    if rng.random() < 0.6:
        d["result"] = "benign"
    else:
        d["analysis_sco_refs"] = ["file--" + uuid(rng)]
    if rng.random() < 0.3:
        d["modules"] = labels(rng)
    return d


def t_observed_data(rng, v21):
    d = base(rng, "observed-data", True)
    d["first_observed"] = T0
    d["last_observed"] = rng.choice([T0, T1])
    d["number_observed"] = rng.choice([1, 5])
    d["object_refs"] = ["file--" + uuid(rng) for _ in range(rng.choice([1, 2]))]
    return d


FORCE_EXT = None      # None: random; True / False: the per-class coverage pass asks for both


def want_ext(rng, p):
    if FORCE_EXT is not None:
        return FORCE_EXT
    return rng.random() < p


def base_sco(rng, typ):
    return {"type": typ, "spec_version": "2.1", "id": "%s--%s" % (typ, uuid(rng))}


# 2.1 observables carry granular_markings too and have their own _check_object_constraints; each with and
# without extensions (the extension branch of the class's own constraint code)
def t_artifact(rng, v21):
    d = base_sco(rng, "artifact")
    if rng.random() < 0.6:
        d["mime_type"] = "text/plain"
        d["payload_bin"] = "aGVsbG8="
    else:
        d["url"] = "http://x.example/a"
        d["hashes"] = {"SHA-256": "a" * 64}
    return d


def t_email_message(rng, v21):
    d = base_sco(rng, "email-message")
    d["is_multipart"] = False
    d["subject"] = rng.choice(["s", ""])
    if rng.random() < 0.5:
        d["body"] = "b"
    return d


def t_file(rng, v21):
    d = base_sco(rng, "file")
    d["name"] = "a.txt"
    if rng.random() < 0.4:
        d["hashes"] = {"SHA-256": "b" * 64, "MD5": "c" * 32}
    if rng.random() < 0.4:
        d["size"] = rng.choice([0, 10])
    if want_ext(rng, 0.5):
        d["extensions"] = rng.choice([{"ntfs-ext": {"sid": "S-1"}},
                                      {"archive-ext": {"contains_refs": ["file--" + uuid(rng)], "comment": ""}}])
    return d


def t_network_traffic(rng, v21):
    d = base_sco(rng, "network-traffic")
    d["protocols"] = rng.choice([["tcp"], ["ipv4", "tcp"]])
    d["src_ref"] = "ipv4-addr--" + uuid(rng)
    d["src_port"] = rng.choice([0, 80])
    if want_ext(rng, 0.5):
        d["extensions"] = rng.choice([{"socket-ext": {"address_family": "AF_INET", "is_listening": False}},
                                      {"tcp-ext": {"src_flags_hex": "00000002"}}])
    return d


def t_process(rng, v21):
    d = base_sco(rng, "process")
    d["pid"] = rng.choice([0, 1, 4242])
    if rng.random() < 0.6:
        d["command_line"] = "cmd /c x"
    if want_ext(rng, 0.55):
        d["extensions"] = rng.choice([{"windows-process-ext": {"aslr_enabled": rng.choice([True, False]), "priority": "HIGH"}},
                                      {"windows-service-ext": {"service_name": "svc", "descriptions": ["d", "d"]}}])
    return d


def t_x509(rng, v21):
    d = base_sco(rng, "x509-certificate")
    d["serial_number"] = "01"
    d["issuer"] = "CN=x"
    if rng.random() < 0.5:
        d["x509_v3_extensions"] = {"basic_constraints": "critical,CA:TRUE"}
    return d


SCO_CLASSES = ("Artifact", "EmailMessage", "File", "NetworkTraffic", "Process", "X509Certificate")
SCO_TYPES = ("artifact", "email-message", "file", "network-traffic", "process", "x509-certificate")
V21_ONLY = ("Infrastructure", "Location", "MalwareAnalysis", "ObservedData") + SCO_CLASSES

TEMPLATES = [("Artifact", t_artifact), ("EmailMessage", t_email_message), ("File", t_file),
             ("NetworkTraffic", t_network_traffic), ("Process", t_process), ("X509Certificate", t_x509),
             ("Campaign", t_campaign), ("IntrusionSet", t_intrusion_set), ("ThreatActor", t_threat_actor),
             ("Infrastructure", t_infrastructure), ("Location", t_location), ("MalwareAnalysis", t_malware_analysis),
             ("ObservedData", t_observed_data), ("Indicator", t_indicator), ("Indicator", t_indicator),
             ("Identity", t_identity), ("Malware", t_malware), ("Indicator", t_indicator), ("Report", t_report),
             ("Relationship", t_relationship), ("Sighting", t_sighting), ("MarkingDefinition", t_marking_definition)]


def gen_build(rng, how=None, want_markings=True, template=None, v21=None):
    """A build description for the worker (see c07_impl.py)."""
    v21 = (rng.random() < 0.6) if v21 is None else v21
    cls, tmpl = template or rng.choice(TEMPLATES)
    if cls in V21_ONLY:
        v21 = True
    d = tmpl(rng, v21)
    how = how or rng.choice(["dict", "dict", "parse", "class", "class"])
    is_md = d["type"] == "marking-definition"
    is_sco = cls in SCO_CLASSES
    if not is_sco and rng.random() < 0.5:
        d["created_by_ref"] = "identity--" + uuid(rng)
    if not is_sco and rng.random() < 0.6:
        d["external_references"] = ext_refs(rng)
    if is_sco:
        # custom content only (allow_custom); the SDO common properties do not exist on observables
        if rng.random() < 0.3:
            d["x_opts"] = order_dict(rng)
        if rng.random() < 0.2:
            d["x_list"] = long_list(rng)
        if rng.random() < 0.4:
            d["x_a"] = gen_value(rng, 3, dotted=(how == "dict"))
    elif not is_md:
        if rng.random() < 0.5 and "labels" not in d:
            d["labels"] = labels(rng)
        if rng.random() < 0.15:
            d["revoked"] = rng.random() < 0.3
        if v21 and rng.random() < 0.4:
            d["confidence"] = rng.choice([0, 0, 50])
        if v21 and rng.random() < 0.3:
            d["lang"] = "en"
        if v21 and want_ext(rng, 0.25):
            d["extensions"] = {"extension-definition--" + uuid(rng): {
                "extension_type": "property-extension", "rank": rng.choice([0, 5]), "toxicity": rng.choice(["", "t"])}}
        # content that is sensitive to the order in which paths are enumerated / compared
        if rng.random() < 0.3:
            d["x_opts"] = order_dict(rng)
        if rng.random() < 0.25:
            d["x_list"] = long_list(rng)
        if rng.random() < 0.2:
            d["labels"] = ["label-%02d" % i for i in range(rng.choice([11, 12, 13]))]
        if rng.random() < 0.12:
            d["x_deep"] = deep_value(rng, rng.choice(DEEP_DEPTHS))
        if how == "dict" and rng.random() < 0.15:
            d["name-2"] = "n2"                                 # a sibling of `name` that extends it with '-'
        # custom properties, prefix-related names
        r = rng.random()
        if r < 0.55:
            d["x_a"] = gen_value(rng, 3, dotted=(how == "dict"))
            if rng.random() < 0.7:
                d["x_ab"] = gen_value(rng, 2, dotted=(how == "dict"))
        if how == "dict":
            r = rng.random()
            if r < 0.06:
                d.pop("modified", None)
            elif r < 0.10:
                d.pop("created", None)
                d.pop("modified", None)
            elif r < 0.14:
                d["type"] = "x-thing"
                d["id"] = "x-thing--" + d["id"].split("--")[1]
            if rng.random() < 0.05:
                d["x_none"] = None
    if how != "dict":
        # the constructor drops None / [] valued properties and rejects None inside custom content? keep them:
        pass
    if how == "dict" and rng.random() < 0.3:
        items = list(d.items())
        rng.shuffle(items)
        d = dict(items)
    if want_markings:
        if rng.random() < 0.45:
            n = rng.choice([1, 1, 2])
            omr = rng.sample(REF_MARKINGS, n)
            if rng.random() < 0.3:                             # a producer's list may repeat an id
                omr = omr + [omr[0]] if rng.random() < 0.6 else [omr[0]] + omr
            d["object_marking_refs"] = omr
        if rng.random() < 0.45:
            cands = [k for k in ("name", "created", "type", "id", "labels", "created_by_ref", "pattern",
                                 "relationship_type", "external_references", "definition_type", "pid", "protocols",
                                 "subject", "serial_number", "mime_type", "url", "command_line") if k in d and d[k]]
            gms = []
            for _ in range(rng.choice([1, 1, 2])):
                sels = sorted(set(rng.sample(cands, min(len(cands), rng.choice([1, 2])))))
                if v21 and rng.random() < 0.3:
                    gms.append({"lang": rng.choice(LANG_MARKINGS), "selectors": sels})
                else:
                    gms.append({"marking_ref": rng.choice(REF_MARKINGS), "selectors": sels})
            r = rng.random()
            if r < 0.15:
                gms.append(dict(gms[0]))                       # the same granular marking twice
            elif r < 0.3:
                g0 = dict(gms[0])
                g0["selectors"] = [rng.choice(cands)]          # the same marking again on another / the same selector
                gms.append(g0)
            elif r < 0.4:
                gms[0] = dict(gms[0], selectors=gms[0]["selectors"] + gms[0]["selectors"][:1])   # a selector listed twice
            elif r < 0.5 and how == "dict":
                gms[0] = dict(gms[0], lang=rng.choice(LANG_MARKINGS), marking_ref=rng.choice(REF_MARKINGS))   # both kinds in one entry
            d["granular_markings"] = gms
        if how == "dict" and rng.random() < 0.25:
            # content held as a plain dict is never checked at creation: its own markings may name selectors that
            # address nothing (a typo, an index past the end, a property that was removed)
            real_key = rng.choice([k for k in d if k not in ("granular_markings", "object_marking_refs")])
            dangling = rng.choice(["nonexistent", real_key + "x", real_key + ".[99]", real_key + ".zz", real_key[:-1]])
            if dangling not in d:
                sel = rng.choice([[dangling], [real_key, dangling], [dangling, real_key]])
                d.setdefault("granular_markings", []).append({"marking_ref": rng.choice(REF_MARKINGS), "selectors": sel})
    # the same container instance at two places (kill_chain_phases=[kcp, kcp]; one dict under two keys)
    share = []
    if rng.random() < 0.5:
        for key, as_obj in (("kill_chain_phases", "KillChainPhase"), ("external_references", "ExternalReference")):
            l = d.get(key)
            if isinstance(l, list) and len(l) >= 2 and l[-1] == l[0]:
                share.append([[key, 0], [key, len(l) - 1], as_obj])
        if not is_md:
            for key in ("x_opts", "x_list", "x_a"):
                if isinstance(d.get(key), (dict, list)) and d[key] and rng.random() < 0.5:
                    d[key + "_again"] = d[key]
                    share.append([[key], [key + "_again"], None])
                    break
    out = {"how": how, "version": "2.1" if v21 else "2.0", "cls": cls, "data": d}
    if share:
        out["share"] = share
    return out


# ---------------------------------------------------------------- value trees (worker dump format)

def tree_members(tree):
    assert tree["t"] in ("dict", "obj")
    return tree["m"]


def supported(tree):
    t = tree["t"]
    if t == "other":
        return False
    if t in ("dict", "obj"):
        return all(supported(v) for _, v in tree["m"])
    if t == "list":
        return all(supported(v) for v in tree["l"])
    return True


def coq_mval(tree):
    t = tree["t"]
    if t == "null":
        return "VNull"
    if t == "bool":
        return "(VBool %s)" % common.coq_bool(tree["v"])
    if t == "int":
        return "(VInt %s)" % common.coq_Z(tree["v"])
    if t == "float":
        return "(VFloat %s)" % common.coq_ustr(tree["v"])
    if t == "str":
        return "(VStr %s)" % common.coq_ustr(tree["v"])
    if t == "time":
        return "(VTime %s)" % common.coq_ustr(tree["v"])
    if t == "list":
        return "(VList %s)" % common.coq_list([coq_mval(x) for x in tree["l"]])
    if t in ("dict", "obj"):
        return "(%s %s)" % ("VDict" if t == "dict" else "VObj", coq_members(tree["m"]))
    raise ValueError(t)


def coq_members(ms):
    return common.coq_list(["(%s, %s)" % (common.coq_ustr(k), coq_mval(v)) for k, v in ms])


def coq_ulist(l):
    return common.coq_list([common.coq_ustr(x) for x in l])


def coq_opt_ulist(l):
    return "None" if l is None else "(Some %s)" % coq_ulist(l)


def coq_gm(g):
    return "(mkgm %s %s %s)" % (coq_ulist(g["sels"]), common.coq_ustr(g["ref"]), common.coq_ustr(g["lang"]))


def vtype_of(tree):
    """Does the object's type support created/modified/revoked?  (Registry
    knowledge: of the generated types only marking-definition does not.)"""
    for k, v in tree["m"]:
        if k == "type":
            return not (v["t"] == "str" and (v["v"] == "marking-definition" or v["v"] in SCO_TYPES))
    return True


def coq_sobj(res):
    """The model's view of the object the worker built: (term, reason it is unsupported or None)."""
    tree, meta, st = res["tree"], res["meta"], res["state0"]
    if not supported(tree):
        return None, "value of an unmodelled Python type"
    props = [(k, v) for k, v in tree["m"] if k not in ("object_marking_refs", "granular_markings")]
    gms = st["gms"]
    if gms is not None and any(g["extra"] for g in gms):
        return None, "granular marking with extra keys"
    omr = st["omr"]
    if omr is not None and not all(isinstance(x, str) for x in omr):
        return None, "non-string object marking"
    term = "(mkobj %s %s %s %s %s %s)" % (
        "KObj" if meta["kind"] == "obj" else "KDict", common.coq_bool(meta["v21"]), common.coq_bool(vtype_of(tree)),
        coq_members(props), coq_opt_ulist(omr),
        "None" if gms is None else "(Some %s)" % common.coq_list([coq_gm(g) for g in gms]))
    return term, None


CFG_FIELDS = ["falsy", "index", "embed", "nest", "inherit", "api", "syntax", "ind20"]
CFG_VALUES = {
    "falsy": ("TruthyOnly", "AnyValue"), "index": ("FirstEqual", "Position"), "embed": ("DictOnly", "AnyMapping"),
    "nest": ("FlatLists", "NestedLists"), "inherit": ("ByPrefix", "ByPathTree"),
    "api": ("AnyObjectMarking", "SameMarking"), "syntax": ("LowerKeys", "AnyCaseKeys"),
    "ind20": ("Ind20Unchecked", "Ind20Checked"),
}


def coq_cfg(cfg):
    return "(mkcfg %s)" % " ".join(cfg[f] for f in CFG_FIELDS)


# ---------------------------------------------------------------- tokens (Model/MarkingsRun.v show_tok)

def tok(s):
    out = []
    for ch in s:
        c = ord(ch)
        if ch.isascii() and (ch.isalnum() or ch in "-_.[]"):
            out.append(ch)
        else:
            out.append("\\%06X" % c)
    return "".join(out)


def toks(l):
    return ",".join(tok(x) for x in l)


def pykey(s):
    """Python str ordering = code point order; sorted() on str already is."""
    return s


# ---------------------------------------------------------------- independent path semantics (the C08 oracle)

def all_paths(tree):
    """Every path into the value tree: (list of segments as selector text, node).
    A path descends through every mapping (dict or embedded object) and every
    list, at any nesting.  Independent of stix2.markings.utils.iterpath."""
    out = []

    def go(node, prefix):
        t = node["t"]
        if t in ("dict", "obj"):
            for k, v in node["m"]:
                p = prefix + [k]
                out.append((p, v))
                go(v, p)
        elif t == "list":
            for i, v in enumerate(node["l"]):
                p = prefix + ["[%d]" % i]
                out.append((p, v))
                go(v, p)

    go(tree, [])
    return out


def addressed(tree, selector):
    """The nodes a selector addresses (a list: keys containing '.' can make a text ambiguous)."""
    return [v for p, v in all_paths(tree) if ".".join(p) == selector]


def falsy(node):
    t = node["t"]
    if t == "null":
        return True
    if t == "bool":
        return not node["v"]
    if t == "int":
        return node["v"] == 0
    if t == "float":
        return float(node["v"]) == 0.0
    if t == "str":
        return node["v"] == ""
    if t == "list":
        return not node["l"]
    if t in ("dict", "obj"):
        return not node["m"]
    return False


def classify_path(tree, segs):
    """Which shape of path this is (for finding classes and the coverage histogram)."""
    tags = set()
    node = tree
    prev_list = False
    for i, s in enumerate(segs):
        t = node["t"]
        if t in ("dict", "obj"):
            if t == "obj" and i > 0:
                tags.add("embedded")
            node = dict((k, v) for k, v in node["m"])[s]
            prev_list = False
        else:
            idx = int(s[1:-1])
            if prev_list:
                tags.add("nested-list")
            # is an equal element earlier in the list?
            if any(json_eq(node["l"][j], node["l"][idx]) for j in range(idx)):
                tags.add("dup-element")
            node = node["l"][idx]
            prev_list = True
    if falsy(node):
        tags.add("falsy")
    if any(any("A" <= ch <= "Z" for ch in s) for s in segs[1:]):
        tags.add("uppercase-key")
    return tags


def json_eq(a, b):
    return untag(a) == untag(b)


def untag(node):
    t = node["t"]
    if t in ("dict", "obj"):
        return {k: untag(v) for k, v in node["m"]}
    if t == "list":
        return [untag(v) for v in node["l"]]
    if t == "null":
        return None
    if t == "time":
        return ("time", node["v"])
    if t == "float":
        return float(node["v"])
    return node["v"]


def near_misses(rng, tree, paths, limit):
    """Selectors that address nothing: absent property, prefix/extension of a
    real name, index past the end, wrong nesting, malformed index text."""
    real = set(".".join(p) for p, _ in paths)
    out = ["nonexistent", "", "id.x", "type.[0]"]
    picks = list(paths)
    rng.shuffle(picks)
    for p, v in picks[:limit]:
        s = ".".join(p)
        last = p[-1]
        cands = [s + "x", s[:-1], s + ".", "." + s, s + ".zz", s + ".[0]", s.upper(), s + "_ref"]
        if v["t"] == "list":
            n = len(v["l"])
            cands += ["%s.[%d]" % (s, n), "%s.[%d]" % (s, n + 3), "%s.%d" % (s, 0), "%s[0]" % s, "%s.[00]" % s,
                      "%s.[-1]" % s, "%s.[0].[0]" % s, "%s.[ 0]" % s]
        if last.startswith("["):
            cands += [".".join(p[:-1]) + "." + last[1:-1], ".".join(p[:-1]) + ".[0" + last[1:]]
        if len(p) >= 2:
            cands += [".".join(p[:-2] + p[-1:]), ".".join(p[:-1] + p[-2:-1])]
        for c in cands:
            if c not in real:
                out.append(c)
    seen, res = set(), []
    for c in out:
        if c not in seen and c not in real:
            seen.add(c)
            res.append(c)
    return res


def priority_selector(sel):
    """Selectors whose acceptance depends on enumeration / comparison order: indices of two or more digits,
    anything under the order-sensitive custom content."""
    import re
    return sel.count(".") >= 40 or bool(re.search(r"\[\d\d+\]", sel)) or sel.startswith("x_opts") or sel.startswith("x_list") or sel.startswith("name-")


def coverage_builds(rng):
    """Per-class pass: every class template x {2.0, 2.1 where both exist} x {class, parse} x {with, without extensions}."""
    global FORCE_EXT
    out = []
    seen = set()
    try:
        for cls, tmpl in TEMPLATES:
            if cls in seen:
                continue
            seen.add(cls)
            for v21 in ((True,) if cls in V21_ONLY else (True, False)):
                for how in ("class", "parse"):
                    for ext in (True, False):
                        FORCE_EXT = ext
                        out.append(gen_build(rng, how=how, template=(cls, tmpl), v21=v21))
    finally:
        FORCE_EXT = None
    return out

"""Shared pipeline of the schema interpreter family (C01-C04).

  translate_and_build(run, props)   regenerate Gen/Tables.v (live /repo classes) and Gen/SpecTables.v
                                    (frozen /verif/spec), build the property file
  detect_variants(run)              run the witnesses of the defect variants on the implementation
  gen_base / gen_cases              valid objects of every class of both versions from the FROZEN spec
                                    (harness/stixgen.py), single-point corruptions, parse and construct
                                    routes, strict and allow_custom
  run_impl_cases / run_model_cases  implementation worker (harness/impl/schema_impl.py) and the Gallina
                                    model (Model/Schema.v through Model/SchemaRun.v, vm_compute case files)
  correspond(run, ...)              line-by-line diff of the two
  spec_valid_lines(...)             the frozen-spec validator (Spec/StixValid.v: valid_obj_x = valid_obj plus the
                                    audited strict-base64 and dictionary-value rules) evaluated by the kernel
                                    on JSON the implementation emitted

Exported names are used by c02.py, c03.py (this builder) and c04.py, c01.py (another builder): keep stable.
"""
import json
import os
import re

import common
from common import Broken
import stixgen
import tr_tables

FUEL = 14
CASE_BYTES = 90_000          # per case file (literal parsing is the cost)

# ---------------------------------------------------------------------------
# translate + build


def translate_and_build(run, props_file, checker_cmd=None):
    """Returns True when the generated tables exist (the model can be evaluated)."""
    gen_ok = True
    with common.Lock():
        try:
            t = tr_tables.dump(common.REPO, common.PY)
            common.write_if_changed(os.path.join(common.COQ, "Gen", "Tables.v"),
                                    tr_tables.emit(t, "lib", "live tables of /repo"))
        except Exception as e:  # noqa: BLE001 -- fail closed: any abort is a broken translator
            run.broken.append(Broken("translator", "tr_tables", {"error": "%s: %s" % (type(e).__name__, str(e)[-800:])}))
            gen_ok = False
        try:
            common.write_if_changed(os.path.join(common.COQ, "Gen", "SpecTables.v"), tr_tables.emit_spec(common.VERIF))
        except Exception as e:  # noqa: BLE001
            run.broken.append(Broken("translator", "tr_spectables", {"error": "%s: %s" % (type(e).__name__, str(e)[-800:])}))
            gen_ok = False
        if props_file:
            if gen_ok:
                res = common.build_props(props_file, extra_targets=["Model/SchemaRun.vo", "Spec/StixValid.vo", "Gen/SpecTables.vo"])
                run.add_build(res, checker_cmd or "make -C coq %s (coqc 8.16.1, full .vo) + Print Assumptions per theorem"
                              % (props_file[:-2] + ".vo"))
                if not res["ok"] and (res["failed_at"] or ("",))[0] in ("Gen/Tables.v", "Model/Schema.v", "Model/SchemaRun.v"):
                    gen_ok = False
            else:
                run.coverage["obligations"] += len(common.theorems_in(props_file))
        else:
            ok, log = common.make(["Model/SchemaRun.vo", "Spec/StixValid.vo", "Gen/SpecTables.vo", "Gen/Tables.vo"])
            if not ok:
                run.broken.append(Broken("obligation", "schema model build", {"log_tail": log[-1500:]}))
                gen_ok = False
    return gen_ok


# ---------------------------------------------------------------------------
# variants

U_PROBE = "8d1c5bdf-5a0e-4b8e-9a3c-1f2e3d4c5b6a"
T0 = "2016-01-01T00:00:00.000Z"
RED = "marking-definition--5e57c739-391a-4eb3-b6be-7d15ca92d5ed"


def _malware(extra, sel):
    d = {"type": "malware", "spec_version": "2.1", "id": "malware--" + U_PROBE, "created": T0, "modified": T0,
         "name": "m", "is_family": False}
    d.update(extra)
    d["granular_markings"] = [{"selectors": [sel], "marking_ref": RED}]
    return d


MARKING_PROBES = {
    # field of Markings.cfg -> (object, allow_custom); accepted <=> repaired value
    "falsy": (_malware({}, "is_family"), False),
    "index": (_malware({"labels": ["a", "a"]}, "labels.[1]"), False),
    "embed": (_malware({"external_references": [{"source_name": "s", "url": "http://x"}]}, "external_references.[0].url"), False),
    "nest": (_malware({"x_m": [["a", "b"]]}, "x_m.[0].[1]"), True),
}
MARKING_VALUES = {"falsy": ("TruthyOnly", "AnyValue"), "index": ("FirstEqual", "Position"),
                  "embed": ("DictOnly", "AnyMapping"), "nest": ("FlatLists", "NestedLists")}


class Variants:
    """What the code under test matches, per defect site."""

    def __init__(self, probes, marking):
        self.probes = probes          # raw witness outcomes (True = accepted)
        self.marking = marking        # field -> constructor name
        self.flags = {
            "vr_hex_z": not probes["hex_nl"], "vr_key_z": not probes["key_nl"], "vr_sel_z": not probes["sel_nl"],
            "vr_hash_z": not probes["hash_nl"], "vr_interop_z": not probes["interop_nl"],
            "vr_uuid_canon": not (probes["uuid_nohyphen"] or probes["uuid_urn"] or probes["uuid_braces"]),
            "vr_year_pad": bool(probes.get("year_pad", True)),
            "vr_sel_upper": bool(probes.get("sel_upper", False)),
            "vr_ref_flip_unreg": not probes.get("ref_flip_registered", True),
            "vr_parse_guard_custom": not probes.get("parse_custom_properties", True),
            "vr_ext_scan_guard": probes.get("ext_scan_nonmapping", "AttributeError") != "AttributeError",
            "vr_detect_default": probes.get("bundle_without_objects", "KeyError") != "KeyError",
            "vr_d2s_ext_guard": probes.get("d2s_ext_nondict", "AttributeError") != "AttributeError",
            "vr_toplevel_needs_slot": not probes.get("toplevel_without_slot", True),
            "vr_ext_nonempty": not probes.get("empty_extensions", True),
            "vr_marking_flag": not probes.get("marking_flag_ignored", True),
            "vr_flag_from_stored": not probes.get("null_custom_sets_flag", True),
            "vr_ext_order_sorted": bool(probes.get("ext_order_sorted", False)),
            "vr_sock_int": not probes.get("sock_bool", True),
            "vr_positional_none": bool(probes.get("positional_empty_string", False)),
            "vr_bundle20_recheck": not probes.get("bundle20_member_21_sco", True),
            "vr_md20_default_ms": bool(probes.get("md20_default_ms", False)),
            "vr_b64_strict": not probes.get("b64_garbage", True),
            "vr_detect_notype_parse": probes.get("detect_notype", "KeyError") == "ParseError",
        }

    def coq_variant(self):
        return "{| " + "; ".join("%s := %s" % (k, common.coq_bool(v)) for k, v in self.flags.items()) + " |}"

    def coq_marking_cfg(self):
        m = self.marking
        return ("(Markings.mkcfg Markings.%s Markings.%s Markings.%s Markings.%s Markings.ByPrefix "
                "Markings.AnyObjectMarking Markings.LowerKeys Markings.Ind20Unchecked)"
                % (m["falsy"], m["index"], m["embed"], m["nest"]))

    def as_dict(self):
        d = dict(self.flags)
        d.update({"markings_" + k: v for k, v in self.marking.items()})
        return d


def detect_variants(run):
    cases = [{"op": "probes"}] + [{"op": "parse", "data": MARKING_PROBES[f][0], "allow": MARKING_PROBES[f][1]}
                                  for f in MARKING_VALUES]
    res = common.run_impl("schema_impl", cases, procs=1)
    probes = res[0]
    if not isinstance(probes, dict) or "hex_nl" not in probes:
        run.broken.append(Broken("correspondence", "variant witnesses did not run", {"result": probes}))
        probes = {k: True for k in ("hex_nl", "key_nl", "sel_nl", "hash_nl", "interop_nl", "uuid_nohyphen", "uuid_urn", "uuid_braces")}
    u = probes["uuid_nohyphen"], probes["uuid_urn"], probes["uuid_braces"]
    if len(set(u)) != 1:
        run.broken.append(Broken("correspondence", "uuid text witnesses disagree with both variants", {"result": probes}))
    marking = {}
    for f, r in zip(MARKING_VALUES, res[1:]):
        line = r if isinstance(r, str) else r.get("r", "")
        if line.startswith("OK "):
            marking[f] = MARKING_VALUES[f][1]
        elif line in ("ERR InvalidSelectorError",):
            marking[f] = MARKING_VALUES[f][0]
        else:
            run.broken.append(Broken("correspondence", "witness of marking variant %s: unexpected outcome" % f, {"result": line}))
            marking[f] = MARKING_VALUES[f][0]
    v = Variants(probes, marking)
    run.coverage["variant_selected"] = v.as_dict()
    return v


# ---------------------------------------------------------------------------
# patterns (oracle: the stix2patterns validator, a third-party package)

def _pattern_strings(x, out):
    if isinstance(x, dict):
        for k, v in x.items():
            if k == "pattern":
                if isinstance(v, str):
                    out.add(v)
                elif isinstance(v, bool):
                    out.add(str(v))
                elif isinstance(v, int):
                    out.add(str(v))
                elif isinstance(v, float):
                    out.add(repr(v))
            _pattern_strings(v, out)
    elif isinstance(x, (list, tuple)):
        for e in x:
            _pattern_strings(e, out)


def pattern_lists(cases):
    from stix2patterns.validator import run_validator
    pats = set()
    for c in cases:
        _pattern_strings(c.get("data"), pats)
    ok = {"2.0": [], "2.1": []}
    for p in sorted(pats):
        for v in ("2.0", "2.1"):
            try:
                if not run_validator(p, v):
                    ok[v].append(p)
            except Exception:  # noqa: BLE001 -- a crashing validator is "not valid" for the oracle
                pass
    return ok


# ---------------------------------------------------------------------------
# case generation

def clone(x):
    return json.loads(json.dumps(x))


def gen_base(rng, per_class=3, spec=None, granular=0.25):
    """Mostly valid objects of every class of both versions, from the frozen spec: list of (cid, obj)."""
    g = stixgen.Gen(rng, spec)
    out = []
    for cid in g.classes:
        for i in range(per_class):
            o = g.obj(cid, 0, {"safe": i > 0}, optional_p=[0.0, 0.5, 0.9][i % 3] if per_class <= 3 else None)
            if rng.random() < granular:
                g.add_granular_markings(cid, o)
            out.append((cid, o))
    return g, out


def is_toplevel(g, cid):
    c = g.classes[cid]
    t = c["type"]
    reg = g.reg[c["ver"]]
    return t is not None and (reg["objects"].get(t) == cid or reg["observables"].get(t) == cid)


def route_cases(g, cid, obj, meta, rng, routes=("parse", "construct")):
    """The API calls one generated object is pushed through."""
    out = []
    top = is_toplevel(g, cid)
    c = g.classes[cid]
    for r in routes:
        if r == "parse":
            if not top:
                continue
            # a v20 SCO is only reachable through an observed-data container; parse() dispatches on "objects" first
            if c["family"] == "sco" and c["ver"] == "2.0":
                continue
            out.append({"op": "parse", "cid": cid, "data": obj, "allow": False, "interop": False, "meta": meta})
        elif r == "construct":
            out.append({"op": "construct", "cid": cid, "data": obj, "allow": False, "interop": False, "meta": meta})
        elif r == "parse-allow" and top and not (c["family"] == "sco" and c["ver"] == "2.0"):
            out.append({"op": "parse", "cid": cid, "data": obj, "allow": True, "interop": False, "meta": meta})
        elif r == "construct-allow":
            out.append({"op": "construct", "cid": cid, "data": obj, "allow": True, "interop": False, "meta": meta})
        elif r == "parse-interop" and top and not (c["family"] == "sco" and c["ver"] == "2.0"):
            out.append({"op": "parse", "cid": cid, "data": obj, "allow": False, "interop": True, "meta": meta})
    return out


def gen_py_cases(g, base, rng, per_obj=2):
    """Python-only argument values (lazy iterables, tuples, sets, datetimes) through the constructors:
    cases flagged "py" are run on the implementation and judged by the oracle only."""
    cases = []
    for cid, o in base:
        for label, slot, x in stixgen.py_value_cases(g, cid, o)[:per_obj]:
            cases.append({"op": "construct", "cid": cid, "data": x, "allow": False, "interop": False, "py": True,
                          "meta": {"origin": "python-value", "ckind": label, "slot": slot, "cid": cid}})
    return cases


def gen_cases(rng, per_class=3, corrupt_per_obj=3, allow_share=0.25, spec=None):
    """Valid objects + single-point corruptions, parse and construct routes, strict and allow_custom."""
    g, base = gen_base(rng, per_class, spec)
    cases = []
    for cid, o in base:
        routes = ["parse", "construct"] if is_toplevel(g, cid) else ["construct"]
        if rng.random() < allow_share:
            routes.append(rng.choice(["parse-allow", "construct-allow", "parse-interop"]))
        cases += route_cases(g, cid, o, {"origin": "valid", "cid": cid}, rng, routes)
        cor = stixgen.corruptions(g, cid, o) + stixgen.coconstraint_corruptions(g, cid, o)
        rng.shuffle(cor)
        seen = set()
        n = 0
        for kind, slot, x in cor:
            if kind in seen and rng.random() < 0.7:
                continue
            seen.add(kind)
            route = "parse" if (is_toplevel(g, cid) and rng.random() < 0.6) else "construct"
            if rng.random() < allow_share / 2:
                route += "-allow"
            cases += route_cases(g, cid, x, {"origin": "corrupt", "ckind": kind, "slot": slot, "cid": cid}, rng, [route])
            n += 1
            if n >= corrupt_per_obj:
                break
    cases += gen_py_cases(g, base, rng, per_obj=1)
    cases += gen_sequence_cases(g, rng)
    return g, cases


# ---------------------------------------------------------------------------
# running both sides

def header(variants, pats):
    return ("From Coq Require Import NArith ZArith List String Bool.\n"
            "From V Require Import Base.UString Base.Json Model.SchemaTypes Model.PyBase Model.Schema Model.SchemaRun Gen.Tables.\n"
            "From V Require Model.Markings.\n"
            "Import ListNotations. Open Scope string_scope.\n"
            "Definition VR : variant := %s.\n"
            "Definition MC : Markings.cfg := %s.\n"
            "Definition OK20 : list ustring := %s.\nDefinition OK21 : list ustring := %s.\n"
            "Definition RL := run_line VR MC lib OK20 OK21 %d.\n"
            % (variants.coq_variant(), variants.coq_marking_cfg(),
               common.coq_list([common.coq_ustr(p) for p in pats["2.0"]]),
               common.coq_list([common.coq_ustr(p) for p in pats["2.1"]]), FUEL))


def members(d):
    return common.coq_list(["(%s, %s)" % (common.coq_ustr(k), common.coq_jvalue(v)) for k, v in d.items()])


def model_term(c):
    allow, interop = common.coq_bool(c.get("allow", False)), common.coq_bool(c.get("interop", False))
    if c["op"] == "parse":
        ver = {None: "None", "2.0": "(Some V20)", "2.1": "(Some V21)"}[c.get("version")]
        return "RL (RParse %s %s %s %s)" % (allow, interop, ver, members(c["data"]))
    if c["op"] == "construct":
        return "RL (RConstruct %s %s %s %s None)" % (common.coq_ustr(c["cid"]), allow, interop, members(c["data"]))
    raise ValueError(c["op"])


def sharded_eval(tag, hdr, terms, timeout=900):
    """coq_eval_lines with shards bounded by bytes rather than by count."""
    out = [None] * len(terms)
    groups, cur, size = [], [], 0
    for i, t in enumerate(terms):
        if cur and size + len(t) > CASE_BYTES:
            groups.append(cur)
            cur, size = [], 0
        cur.append(i)
        size += len(t)
    if cur:
        groups.append(cur)
    # one call per group would serialise; hand all groups to the pool through one flat call per equal-size slab
    from concurrent.futures import ThreadPoolExecutor

    def one(k_idx):
        k, idx = k_idx
        return idx, common.coq_eval_lines("%s%d" % (tag, k), hdr, [terms[i] for i in idx], shard=len(idx), timeout=timeout)

    with ThreadPoolExecutor(max_workers=common.NCPU) as ex:
        for idx, lines in ex.map(one, list(enumerate(groups))):
            for i, l in zip(idx, lines):
                out[i] = l
    return out


def has_huge_int(x):
    """An integer beyond the range of a double somewhere in the value: the deterministic id of a 2.1 observable is
    computed from a canonical JSON text (C06's model, abstract here as e_uuid5) that refuses such numbers."""
    if isinstance(x, bool):
        return False
    if isinstance(x, int):
        return abs(x) >= 2 ** 1023
    if isinstance(x, dict):
        return any(has_huge_int(v) for v in x.values())
    if isinstance(x, (list, tuple)):
        return any(has_huge_int(v) for v in x)
    return False


def has_null_id(x):
    """An `id` member given as null somewhere: fix 6e9bcfe (2026-09-29 11:08) makes a 2.1 observable treat it as "no id
    given" (deterministic id) where the model, like the code before, keeps the uuid4 default -- not restated; such
    cases are judged by the oracles only."""
    if isinstance(x, dict):
        return ("id" in x and x["id"] is None) or any(has_null_id(v) for v in x.values())
    if isinstance(x, (list, tuple)):
        return any(has_null_id(v) for v in x)
    return False


def run_model_cases(cases, variants, pats=None, tag="sch"):
    """One line per case; cases flagged "py" (not JSON-like) and cases carrying an integer beyond the range of a double
    (canonicalisation for the deterministic id is not restated here) are not evaluated: UNMODELLED."""
    pats = pats if pats is not None else pattern_lists(cases)
    idx = [i for i, c in enumerate(cases) if not c.get("py") and not has_huge_int(c.get("data")) and not has_null_id(c.get("data"))]
    lines = sharded_eval(tag, header(variants, pats), [model_term(cases[i]) for i in idx])
    out = ["UNMODELLED"] * len(cases)
    for i, l in zip(idx, lines):
        out[i] = l
    return out


def gen_sequence_cases(g, rng, n=12):
    """State kept between calls: cases flagged "seq" run in ONE worker process in the given order."""
    cases = []
    for k, seq in enumerate(stixgen.uuid_reuse_sequences(g, n)):
        for step, (cid, o) in enumerate(seq):
            cases.append({"op": "parse", "cid": cid, "data": o, "allow": False, "interop": False, "seq": k,
                          "meta": {"origin": "sequence", "ckind": "uuid-reuse-%s-first" % seq[0][0][:3], "cid": cid, "step": step}})
    return cases


def flag_sequences(g, rng, n=8, first_seq=1000):
    """State kept between calls, second family: the same dictionary asked twice under different switches (allow_custom
    then strict, interoperability then strict, and the reverse orders), and a valid object right after a call that
    FAILED -- each sequence in one worker process, in order; the model is stateless, so any carry-over shows."""
    cases = []
    top21 = [cid for cid in g.classes if is_toplevel(g, cid) and g.classes[cid]["ver"] == "2.1" and g.classes[cid]["family"] in ("sdo", "sro")]
    for k in range(n):
        cid = rng.choice(top21)
        o = g.obj(cid, 0, {"safe": True}, optional_p=0.3)
        custom = dict(o, x_custom_prop="v")
        bad = dict(o)
        bad["id"] = "not-an-id"
        form = k % 4
        if form == 0:
            steps = [(custom, True, False), (custom, False, False), (o, False, False)]
        elif form == 1:
            steps = [(o, False, False), (custom, True, False), (o, False, False), (custom, False, False)]
        elif form == 2:
            steps = [(bad, False, False), (o, False, False), (bad, True, False), (o, False, False)]
        else:
            steps = [(o, False, True), (o, False, False), (custom, False, True), (custom, False, False)]
        for step, (d, allow, interop) in enumerate(steps):
            cases.append({"op": "parse", "cid": cid, "data": d, "allow": allow, "interop": interop, "seq": first_seq + k,
                          "meta": {"origin": "sequence", "ckind": "flag-sequence-%d" % form, "cid": cid, "step": step}})
    return cases


def argument_forms(cases, rng, share=0.12):
    """The same parse calls through the other public argument forms: JSON text, a text file object, a bytes file
    object, and with the version given explicitly (the model's request is the same)."""
    out = []
    for c in cases:
        if c["op"] != "parse" or c.get("py") or c.get("seq") is not None or rng.random() >= share:
            continue
        d = clone_case(c)
        d["form"] = rng.choice(["text", "file", "bytes-file"])
        d["meta"] = dict(c["meta"], ckind=c["meta"].get("ckind", "-"), form=d["form"])
        out.append(d)
    return out


def clone_case(c):
    return {k: (clone(v) if k == "data" else v) for k, v in c.items()}


def run_impl_cases(cases, want_json=True):
    send = []
    for c in cases:
        d = {k: v for k, v in c.items() if k != "meta"}
        if want_json:
            d["want_json"] = True
        send.append(d)
    # sequences: one process, given order; everything else is spread over the workers
    seq_idx = [i for i, c in enumerate(cases) if c.get("seq") is not None]
    oth_idx = [i for i, c in enumerate(cases) if c.get("seq") is None]
    res = [None] * len(cases)
    if seq_idx:
        for i, r in zip(seq_idx, common.run_impl("schema_impl", [send[i] for i in seq_idx], procs=1)):
            res[i] = r
    if oth_idx:
        for i, r in zip(oth_idx, common.run_impl("schema_impl", [send[i] for i in oth_idx])):
            res[i] = r
    lines, extra = [], []
    for r in res:
        if isinstance(r, dict):
            lines.append(r["r"])
            extra.append(r)
        else:
            lines.append(r)
            extra.append(None)
    return lines, extra


# errors outside the documented family (crashes that C17 reports and that fix: commits may turn into
# family errors) are compared as "some error"
CRASH = {"AttributeError", "KeyError", "TypeError", "IndexError", "RecursionError", "UnboundLocalError", "NameError"}


def lines_agree(model, impl):
    if model == impl:
        return True
    if model.startswith("ERR ") and impl.startswith("ERR "):
        a, b = model[4:], impl[4:]
        return a in CRASH or b in CRASH
    return False


def correspond(run, cases, model, impl, name="Model/Schema.v vs stix2 (construct/parse/serialize)"):
    """Diff; returns the list of disagreeing indices.  UNMODELLED lines are counted and skipped."""
    dis, unm = [], 0
    for i, (c, m, r) in enumerate(zip(cases, model, impl)):
        if m == "UNMODELLED":
            unm += 1
            continue
        if not lines_agree(m, r):
            dis.append(i)
    run.coverage["correspondence_cases"] = run.coverage.get("correspondence_cases", 0) + len(cases)
    run.coverage["correspondence_unmodelled"] = run.coverage.get("correspondence_unmodelled", 0) + unm
    run.coverage["correspondence_disagreements"] = run.coverage.get("correspondence_disagreements", 0) + len(dis)
    if dis:
        run.broken.append(Broken("correspondence", name, {
            "count": len(dis),
            "first": [{"case": {k: v for k, v in cases[i].items()}, "model": model[i][:600], "impl": impl[i][:600]} for i in dis[:5]]}))
    return dis


# ---------------------------------------------------------------------------
# the frozen-spec validator, evaluated by the kernel

SPEC_HEADER = ("From Coq Require Import NArith ZArith List String Bool.\n"
               "From V Require Import Base.UString Base.Json Model.SchemaTypes Model.PyBase Spec.StixValid Gen.SpecTables.\n"
               "Import ListNotations. Open Scope string_scope.\n"
               "Definition OK20 : list ustring := %s.\nDefinition OK21 : list ustring := %s.\n"
               "Definition pok (v : ver) (p : ustring) := mem_ustr p (match v with V20 => OK20 | V21 => OK21 end).\n"
               "Definition SV (cid : ustring) (j : jvalue) : string := show_bool (valid_obj_x spec pok %d cid j).\n"
               "Definition WHY (cid : ustring) (j : jvalue) : string := show_why (explain_obj_x spec pok %d cid j).\n")


def spec_valid_lines(items, pats=None, tag="spv", explain=False):
    """items: list of (cid, json object).  Returns 'true'/'false' per item (or, with explain=True, the
    validator's account of the first failing member)."""
    if pats is None:
        pats = pattern_lists([{"data": j} for _, j in items])
    hdr = SPEC_HEADER % (common.coq_list([common.coq_ustr(p) for p in pats["2.0"]]),
                         common.coq_list([common.coq_ustr(p) for p in pats["2.1"]]), FUEL, FUEL)
    fn = "WHY" if explain else "SV"
    terms = ["%s %s %s" % (fn, common.coq_ustr(cid), common.coq_jvalue(j)) for cid, j in items]
    return sharded_eval(tag, hdr, terms)

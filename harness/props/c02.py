"""C02 -- whatever the library emits in strict mode is valid STIX.

Proof side: coq/Props/C02.v (theorems about Model/Schema.v for an arbitrary class table under the
kernel-evaluated side condition Spec/SchemaRefine.v:world_refines, instantiated with the tables
regenerated from /repo).  Tie: translator tr_tables (live classes -> Gen/Tables.v) + correspondence
of the model with construct / parse / serialize on generated objects.  Oracle: every strict success of
the IMPLEMENTATION is serialized and handed to the frozen-spec validator Spec/StixValid.v, evaluated
by the kernel on the emitted JSON.
"""
import copy
import json
import re
import uuid

import common
from common import Broken, Violation
from props import schema_common as sc
import stixgen
import tr_tables

MANIFEST = {
    "text": "PROVED (Coq, closed under the global context; Props/C02.v 16 theorems, Props/C02Cov.v), for an ARBITRARY class "
            "table w and specification table sp, every input JSON value, every fuel: strict_sound_partial / "
            "strict_sound_partial_wide -- if world_refines w sp = true (decidable table refinement, kernel-evaluated on the "
            "tables regenerated from /repo on every run: lib_refines_spec_modulo_failures), the variant is the repaired one "
            "at every C02 defect site (variant_sound), the request is strict and non-interoperability (req_strict) and in "
            "scope (req_scope: no custom_properties member, no extension-definition-- key, no toplevel-property-extension "
            "marker), and the result class satisfies the explicit coverage predicate class_proved2, then a successful "
            "construct / parse / parse_observable returns an object without custom flag whose serialization the "
            "specification validator valid_obj accepts. class_proved2 holds for 120 of the 123 generated classes (kernel-"
            "computed lists in the evidence); NOT covered: 2.0/MarkingDefinition (known finding C02-v20-marking-definition-"
            "created-without-milliseconds) and both Bundle classes. WHAT THE INSTANCE ON THE CURRENT TREE SAYS: the "
            "_generated_tables theorems speak about spec_relaxed = the frozen specification WEAKENED at the 38 places "
            "refine_failures names today -- kind|2.0/MarkingDefinition|created and constraint|<class>|0 for the 37 classes "
            "that carry created and modified -- so the headline theorem does NOT establish modified >= created on this tree: "
            "the library does not check it (known finding C02-modified-before-created, repair kept in proposed_fixes/, not "
            "applied because it refuses data existing producers hold); every one of the 38 places is matched on every run by "
            "a found input (else a broken obligation). THE VALIDATOR: valid_obj is an independent evaluator over frozen "
            "tables that were SEEDED from the pinned library's own tables (audited overrides: 2.1 confidence 0..100, 2.0 "
            "marking-definition created millisecond-exact, created <= modified); it treats a 2.0 object reference as a "
            "string. The ORACLE evaluates the stronger valid_obj_x = the same knot with exactly two more clauses "
            "(audited_clauses_are_all proves that with both trivial it IS valid_obj): leaf_extra -- binary values are strict "
            "RFC 4648 base64, dictionary values contain no null / empty list, every STIX 2.0 object reference (at the top of a "
            "container member or inside its extensions / embedded objects) names a member of its container of an allowed type "
            "-- and marking_match (definition is of the type definition_type names). The soundness theorems do NOT cover "
            "these clauses; proved about them: audited_validator_strengthens, binary_clause_sound (kind level, strict decoder "
            "= the code since fix 9d2a776), and refutations -- seven strict_sound_refuted_* theorems in all ($ anchors, uuid "
            "text, empty extensions, socket-option booleans; lenient base64 decoder; dictionary null value in the pinned AND "
            "the repaired variant; tables without the time-order rule): a strict in-scope request whose output is refused "
            "for every validator fuel. Examples hypotheses_satisfiable_identity / process_output_valid_for_audited_validator "
            "evaluate every hypothesis and the conclusion on concrete requests. CORRESPONDENCE / ORACLE ONLY (not proved): "
            "the three uncovered classes, inputs outside req_scope, interoperability mode, allow_custom mode, Python-only "
            "argument values (incl. already constructed objects given as property values), state kept between calls, the "
            "valid_obj_x clauses (base64 beyond the kind lemma, dictionary values, object references, definition_type).",
    "design_ref": "DESIGN.md 6/C02, Appendix A.7; design_notes/C02-C03.md",
    "note": "Trusted: Coq kernel + vm_compute; tr_tables translator (live classes of the tree under test; fail-closed; the "
            "inherited _check_object_constraints is matched by source text); the frozen specification tables /verif/spec "
            "(seeded from the pinned library, audited overrides on top) and Spec/StixValid.v; the stix2patterns validator as "
            "pattern oracle; the C08 model for granular-marking selectors; the harness (generators, the output-repair "
            "classification of known findings: an invalid emission counts as a known finding only if ONE named repair of the "
            "output makes it valid). The model-to-code tie is the correspondence run (exact output text and error class on "
            "~2450 generated calls per quick run, 24 run-time detected variant switches, worker under a local time zone 14 h "
            "from UTC, JSON text / file-object argument forms, call sequences in one process) plus the oracle: every strict "
            "success of the implementation is serialized and judged by the kernel-evaluated valid_obj_x.",
    "technique": "Coq proof over a hand-written interpreter model + tables generated from source; kernel-evaluated table "
                 "refinement naming the failing slot; correspondence + property oracle on the real implementation's output",
}

U = "8d1c5bdf-5a0e-4b8e-9a3c-1f2e3d4c5b6a"
T0 = "2016-01-01T00:00:00.000Z"
MD5 = "f9e40b9aa5464f3dae711ca524fceb63"

F_UUID = "C02-id-noncanonical-uuid-text"
F_CONF = "C02-confidence-range-unchecked"
F_NL = "C02-dollar-anchor-trailing-newline"
F_MD6 = "C02-md6-hash-regex-unanchored"
F_TOP = "C02-toplevel-extension-without-extensions-property"
F_EXT0 = "C02-empty-extensions-dictionary"
F_MD20 = "C02-v20-marking-definition-created-without-milliseconds"
F_SOCK = "C02-socket-options-boolean-value"
F_B64 = "C02-binary-not-strict-base64"
F_DICTV = "C02-dictionary-value-null-or-empty-list"
F_MODCR = "C02-modified-before-created"
F_NREF = "C02-v20-nested-object-reference-unchecked"


def _ident(**kw):
    d = {"type": "identity", "spec_version": "2.1", "id": "identity--" + U, "created": T0, "modified": T0, "name": "n"}
    d.update(kw)
    return d


def witness_cases():
    """The witnesses of the defect variants (the inputs of the *_refuted theorems), as ordinary cases."""
    w = []

    def add(label, op, cid, data, interop=False):
        w.append({"op": op, "cid": cid, "data": data, "allow": False, "interop": interop,
                  "meta": {"origin": "witness", "ckind": label, "cid": cid}})
    add("uuid-no-hyphens", "parse", "2.1/Identity", _ident(id="identity--" + U.replace("-", "")))
    add("uuid-urn", "parse", "2.1/Identity", _ident(id="identity--urn:uuid:" + U))
    add("uuid-braces", "parse", "2.1/Identity", _ident(id="identity--{" + U + "}"))
    add("uuid-ref-no-hyphens", "parse", "2.1/Identity", _ident(created_by_ref="identity--" + U.replace("-", "")))
    add("confidence-150", "parse", "2.1/Identity", _ident(confidence=150))
    add("confidence-negative", "parse", "2.1/Identity", _ident(confidence=-1))
    add("hex-newline", "parse", "2.1/File",
        {"type": "file", "spec_version": "2.1", "id": "file--" + U, "name": "a", "magic_number_hex": "ab\n"})
    add("dict-key-newline", "parse", "2.1/Process",
        {"type": "process", "spec_version": "2.1", "id": "process--" + U, "pid": 1, "environment_variables": {"PATH\n": "x"}})
    add("hash-newline", "parse", "2.1/File",
        {"type": "file", "spec_version": "2.1", "id": "file--" + U, "hashes": {"MD5": MD5 + "\n"}})
    add("hash-md6-trailing-garbage", "construct", "2.0/ExternalReference",
        {"source_name": "s", "url": "http://x", "hashes": {"MD6": "f" * 32 + "zz!"}})
    top = {"foo": {"extension_type": "toplevel-property-extension"}}
    add("toplevel-extension-v20", "parse", "2.0/Identity",
        {"type": "identity", "id": "identity--" + U, "created": T0, "modified": T0, "name": "n", "identity_class": "individual",
         "extensions": top, "anything": "y"})
    add("toplevel-extension-no-slot", "construct", "2.1/ExternalReference",
        {"source_name": "s", "url": "http://x", "extensions": top, "anything": "y"})
    add("empty-extensions", "parse", "2.1/Identity", _ident(extensions={}))
    add("socket-option-boolean", "construct", "2.1/SocketExt", {"address_family": "AF_INET", "options": {"SO_KEEPALIVE": True}})
    add("v20-marking-created-whole-second", "parse", "2.0/MarkingDefinition",
        {"type": "marking-definition", "id": "marking-definition--" + U, "created": "2017-01-01T00:00:00Z",
         "definition_type": "statement", "definition": {"statement": "s"}})
    add("selector-newline", "construct", "2.1/GranularMarking",
        {"selectors": ["name\n"], "marking_ref": "marking-definition--" + U})
    add("interop-id-newline", "parse", "2.1/Identity", _ident(id="identity--" + U + "\n"), interop=True)
    # the three rules audited on 2026-09-29 (Spec/StixValid.v valid_obj_x; created <= modified in the frozen tables)
    for v in ("aGVs bG8=", "aGVsbG8=!!garbage", "aGVsbG8=\n", "====", "aGVsbG8=aGVsbG8="):
        add("binary-not-base64", "parse", "2.1/Artifact",
            {"type": "artifact", "spec_version": "2.1", "id": "artifact--" + U, "payload_bin": v})
    add("binary-not-base64-v20", "construct", "2.0/Artifact", {"type": "artifact", "payload_bin": "aGVs bG8="})
    for v in (None, [], [None], {"abc": None}, [[]]):
        add("dictionary-value-null-or-empty-list", "parse", "2.1/Process",
            {"type": "process", "spec_version": "2.1", "id": "process--" + U, "pid": 1, "environment_variables": {"PATH": v}})
    add("dictionary-value-null-v20", "construct", "2.0/Process", {"type": "process", "pid": 1, "environment_variables": {"PATH": None}})
    add("modified-before-created", "parse", "2.1/Identity", _ident(created="2016-01-02T00:00:00.000Z", modified=T0))
    add("modified-before-created", "parse", "2.0/Identity",
        {"type": "identity", "id": "identity--" + U, "created": "2016-01-02T00:00:00.000Z", "modified": T0, "name": "n",
         "identity_class": "individual"})
    add("modified-before-created", "construct", "2.1/Relationship",
        {"relationship_type": "uses", "source_ref": "identity--" + U, "target_ref": "identity--" + U,
         "created": "2016-01-01T00:00:00.001Z", "modified": T0})
    # STIX 2.0 object references inside an extension / an embedded object of a container member (the library checks
    # only the references at the top of a member)
    def od20(objs):
        return {"type": "observed-data", "id": "observed-data--" + U, "created": T0, "modified": T0,
                "first_observed": "2016-01-01T00:00:00Z", "last_observed": "2016-01-01T00:00:00Z", "number_observed": 1,
                "objects": objs}
    add("nested-ref-dangling", "parse", "2.0/ObservedData",
        od20({"0": {"type": "file", "name": "a", "extensions": {"archive-ext": {"contains_refs": ["5"]}}}}))
    add("nested-ref-wrong-type", "parse", "2.0/ObservedData",
        od20({"0": {"type": "file", "name": "a", "extensions": {"archive-ext": {"contains_refs": ["1"]}}},
              "1": {"type": "ipv4-addr", "value": "198.51.100.1"}}))
    add("nested-ref-dangling", "parse", "2.0/ObservedData",
        od20({"0": {"type": "email-message", "is_multipart": True, "body_multipart": [{"body_raw_ref": "9"}]}}))
    add("nested-ref-dangling", "parse", "2.0/ObservedData",
        od20({"0": {"type": "network-traffic", "protocols": ["tcp"], "src_ref": "1",
                    "extensions": {"http-request-ext": {"request_method": "get", "request_value": "/", "message_body_data_ref": "7"}}},
              "1": {"type": "ipv4-addr", "value": "198.51.100.1"}}))
    add("nested-ref-fine", "parse", "2.0/ObservedData",
        od20({"0": {"type": "file", "name": "a", "extensions": {"archive-ext": {"contains_refs": ["1"]}}},
              "1": {"type": "file", "name": "b"}}))
    add("direct-ref-dangling", "parse", "2.0/ObservedData", od20({"0": {"type": "directory", "path": "/", "contains_refs": ["5"]}}))
    add("direct-ref-wrong-type", "parse", "2.0/ObservedData",
        od20({"0": {"type": "email-message", "is_multipart": False, "from_ref": "1"}, "1": {"type": "file", "name": "a"}}))
    # already constructed objects given as property values (Python-only; judged by the oracle): a marking object of
    # another kind than definition_type names, a registered extension object that was built with allow_custom
    def py(label, cid, data):
        w.append({"op": "construct", "cid": cid, "data": data, "allow": False, "interop": False, "py": True,
                  "meta": {"origin": "witness", "ckind": label, "cid": cid}})

    def obj(cid, allow=False, **kw):
        return {"__py__": "stix", "cid": cid, "kwargs": kw, "allow": allow}
    for ver in ("2.0", "2.1"):
        py("py-marking-other-kind", ver + "/MarkingDefinition",
           {"definition_type": "statement", "definition": obj(ver + "/TLPMarking", tlp="white")})
        py("py-marking-other-kind", ver + "/MarkingDefinition",
           {"definition_type": "tlp", "definition": obj(ver + "/StatementMarking", statement="s")})
        py("py-marking-object", ver + "/MarkingDefinition",
           {"definition_type": "statement", "definition": obj(ver + "/StatementMarking", statement="s")})
        py("py-extension-object-custom", ver + "/File",
           {"name": "a", "extensions": {"ntfs-ext": obj(ver + "/NTFSExt", True, sid="S-1-5", x_custom_inside=1)}})
        py("py-extension-object-custom", ver + "/File",
           {"name": "a", "extensions": {"windows-pebinary-ext": obj(ver + "/WindowsPEBinaryExt", True, pe_type="exe",
                                                                     file_header_hashes={"FOO-HASH": "abcd"})}})
        py("py-extension-object-custom", ver + "/NetworkTraffic",
           {"protocols": ["tcp"], "src_ref": ("0" if ver == "2.0" else "ipv4-addr--" + U),
            "extensions": {"http-request-ext": obj(ver + "/HTTPRequestExt", True, request_method="get", request_value="/",
                                                   x_custom_inside=1)}})
        py("py-extension-object", ver + "/File", {"name": "a", "extensions": {"ntfs-ext": obj(ver + "/NTFSExt", sid="S-1-5")}})
        py("py-embedded-object-custom", ver + "/Identity" if ver == "2.1" else ver + "/Malware",
           {"name": "n", **({"identity_class": "individual"} if False else {}),
            **({"labels": ["trojan"]} if ver == "2.0" else {}),
            "external_references": [obj(ver + "/ExternalReference", True, source_name="s", url="http://x", x_custom_inside=1)]})
    for cid, slot in (("2.1/AutonomousSystem", "number"), ("2.1/File", "size"), ("2.1/Identity", "confidence"),
                      ("2.0/AutonomousSystem", "number")):
        base = {"2.1/AutonomousSystem": {"number": 1}, "2.0/AutonomousSystem": {"type": "autonomous-system", "number": 1},
                "2.1/File": {"name": "a"}, "2.1/Identity": {"name": "n"}}[cid]
        for b in (True, False):
            add("bool-for-int", "construct", cid, dict(base, **{slot: b}))
    return w


# ---------------------------------------------------------------------------
# classification of an invalid emission: which single repair of the OUTPUT makes it valid

def _canon_uuid(s):
    if not isinstance(s, str) or "--" not in s:
        return s
    t, _, x = s.partition("--")
    try:
        c = str(uuid.UUID(x))
    except (ValueError, AttributeError, TypeError):
        return s
    return s if c == x.lower() and len(x) == 36 else t + "--" + c


def _map_strings(x, f, fk=None):
    if isinstance(x, str):
        return f(x)
    if isinstance(x, list):
        return [_map_strings(e, f, fk) for e in x]
    if isinstance(x, dict):
        return {(fk(k) if fk else k): _map_strings(v, f, fk) for k, v in x.items()}
    return x


def norm_uuid(j):
    return _map_strings(j, _canon_uuid, _canon_uuid)


def norm_conf(j):
    j = copy.deepcopy(j)

    def go(x):
        if isinstance(x, dict):
            if isinstance(x.get("confidence"), int) and not isinstance(x["confidence"], bool) and not 0 <= x["confidence"] <= 100:
                x["confidence"] = 50
            for v in x.values():
                go(v)
        elif isinstance(x, list):
            for v in x:
                go(v)
    go(j)
    return j


def norm_nl(j):
    def strip(s):
        return s[:-1] if s.endswith("\n") else s
    return _map_strings(j, strip, strip)


def norm_md6(j):
    j = copy.deepcopy(j)

    def go(x):
        if isinstance(x, dict):
            v = x.get("MD6")
            if isinstance(v, str) and len(v) > 32 and all(c in "0123456789abcdefABCDEF" for c in v[:32]) \
                    and not (len(v) in (40, 56, 64, 96, 128) and all(c in "0123456789abcdefABCDEF" for c in v)):
                x["MD6"] = v[:32]
            for w in x.values():
                go(w)
        elif isinstance(x, list):
            for w in x:
                go(w)
    go(j)
    return j


def norm_ext0(j):
    j = copy.deepcopy(j)

    def go(x):
        if isinstance(x, dict):
            if x.get("extensions") == {}:
                del x["extensions"]
            for w in x.values():
                go(w)
        elif isinstance(x, list):
            for w in x:
                go(w)
    go(j)
    return j


_SPEC_SLOTS = {}


def norm_top(j, cid=None):
    """Only for a class without an `extensions` property whose output carries an `extensions` member with a
    toplevel-property-extension entry: drop that member and the properties the class does not define."""
    if not _SPEC_SLOTS:
        for k, c in tr_tables.load_spec(common.VERIF)["classes"].items():
            _SPEC_SLOTS[k] = {s["name"] for s in c["slots"]}
    names = _SPEC_SLOTS.get(cid)
    ext = j.get("extensions") if isinstance(j, dict) else None
    if names is None or "extensions" in names or not isinstance(ext, dict) or not any(
            isinstance(e, dict) and e.get("extension_type") == "toplevel-property-extension" for e in ext.values()):
        return j
    return {k: v for k, v in j.items() if k in names}


def norm_sock(j, cid=None):
    """Only booleans among the values of a socket-ext `options` dictionary: write them as 1 / 0."""
    def fix(o):
        if isinstance(o, dict) and isinstance(o.get("options"), dict) and any(isinstance(v, bool) for v in o["options"].values()):
            return dict(o, options={k: (int(v) if isinstance(v, bool) else v) for k, v in o["options"].items()})
        return o
    if cid in ("2.1/SocketExt", "2.0/SocketExt"):
        return fix(j)
    if isinstance(j, dict) and isinstance(j.get("extensions"), dict) and isinstance(j["extensions"].get("socket-ext"), dict):
        e = dict(j["extensions"])
        e["socket-ext"] = fix(e["socket-ext"])
        return dict(j, extensions=e)
    return j


def norm_md20(j, cid=None):
    """Only a STIX 2.0 marking-definition whose `created` carries no fraction: write the three digits."""
    if cid != "2.0/MarkingDefinition" or not isinstance(j, dict) or not isinstance(j.get("created"), str):
        return j
    if re.match(r"^\d{4}-\d{2}-\d{2}T\d{2}:\d{2}:\d{2}Z$", j["created"]):
        return dict(j, created=j["created"][:-1] + ".000Z")
    return j


# ---- repairs that need to know which property has which kind: a walk of the emitted JSON along the FROZEN tables

_SPEC = {}


def _spec():
    if not _SPEC:
        _SPEC.update(tr_tables.load_spec(common.VERIF))
    return _SPEC


def _member_version(o, bundle_ver):
    """Tables of a bundle member (Spec/StixValid.v, KStixObject)."""
    sv = o.get("spec_version")
    if isinstance(sv, str):
        return "2.1" if sv == "2.1" else "2.0"
    if "id" in o and o.get("type") in _spec()["registries"]["2.1"]["observables"]:
        return "2.1"
    return "2.0"


def walk(cid, j, on_leaf=None, on_obj=None):
    """Copy of the emitted object j of class cid with on_leaf(kind, value) applied to every value of a leaf kind
    and on_obj(class, object) to every (nested) object, following the kinds of the frozen tables."""
    sp = _spec()
    c = sp["classes"].get(cid)
    if c is None or not isinstance(j, dict):
        return j
    kinds = {s["name"]: s["kind"] for s in c["slots"]}
    out = {k: (_walk_kind(kinds[k], v, on_leaf, on_obj) if k in kinds else v) for k, v in j.items()}
    return on_obj(c, out) if on_obj else out


def _walk_kind(kd, v, on_leaf, on_obj):
    sp = _spec()
    t = kd["k"]
    if t == "embedded":
        return walk(kd["cls"], v, on_leaf, on_obj)
    if t == "listof":
        return [walk(kd["cls"], e, on_leaf, on_obj) for e in v] if isinstance(v, list) else v
    if t == "list":
        return [_walk_kind(kd["of"], e, on_leaf, on_obj) for e in v] if isinstance(v, list) else v
    if t == "extensions" and isinstance(v, dict):
        reg = sp["registries"][kd["ver"]]["extensions"]
        return {n: (walk(reg[n], e, on_leaf, on_obj) if n in reg else e) for n, e in v.items()}
    if t == "observable" and isinstance(v, dict):
        reg = sp["registries"][kd["ver"]]["observables"]
        return {n: (walk(reg[e["type"]], e, on_leaf, on_obj) if isinstance(e, dict) and e.get("type") in reg else e)
                for n, e in v.items()}
    if t == "stixobject" and isinstance(v, dict):
        reg = sp["registries"][_member_version(v, kd["ver"])]
        mc = reg["objects"].get(v.get("type")) or reg["observables"].get(v.get("type"))
        return walk(mc, v, on_leaf, on_obj) if mc else v
    return on_leaf(kd, v) if on_leaf else v


def _b64_strict(s):
    return re.fullmatch(r"(?:[A-Za-z0-9+/]{4})*(?:[A-Za-z0-9+/]{2}==|[A-Za-z0-9+/]{3}=)?", s) is not None


def norm_b64(j, cid=None):
    """Only values of binary properties that are not RFC 4648 text: what the lenient decoder read, re-encoded."""
    import base64

    def leaf(kd, v):
        if kd["k"] == "binary" and isinstance(v, str) and not _b64_strict(v):
            try:
                return base64.b64encode(base64.b64decode(v)).decode("ascii")
            except Exception:  # noqa: BLE001
                return v
        return v
    return walk(cid, j, on_leaf=leaf)


def _fill(v):
    if v is None:
        return "x"
    if isinstance(v, list):
        return [_fill(e) for e in v] if v else ["x"]
    if isinstance(v, dict):
        return {k: _fill(e) for k, e in v.items()}
    return v


def norm_dictv(j, cid=None):
    """Only inside the values of dictionary-typed properties: a null becomes a string, an empty list a one-element list."""
    def leaf(kd, v):
        return {k: _fill(e) for k, e in v.items()} if kd["k"] == "dict" and isinstance(v, dict) else v
    return walk(cid, j, on_leaf=leaf)


def norm_modcr(j, cid=None):
    """Only objects with the common properties whose `modified` is earlier than `created`: modified := created."""
    def obj(c, o):
        if stixgen.versioned(c) and isinstance(o.get("created"), str) and isinstance(o.get("modified"), str):
            a, b = stixgen.instant(o["created"]), stixgen.instant(o["modified"])
            if a is not None and b is not None and b < a:
                return dict(o, modified=o["created"])
        return o
    return walk(cid, j, on_obj=obj)


# order matters when two repairs of one value both make it valid (a binary value ending in a line feed): the
# kind-aware repairs come first
MINIMAL_SCO = {
    "file": {"type": "file", "name": "x"}, "directory": {"type": "directory", "path": "/x"},
    "artifact": {"type": "artifact", "payload_bin": "AAAA"}, "ipv4-addr": {"type": "ipv4-addr", "value": "198.51.100.9"},
    "ipv6-addr": {"type": "ipv6-addr", "value": "2001:db8::9"}, "mac-addr": {"type": "mac-addr", "value": "00:00:5e:00:53:09"},
    "domain-name": {"type": "domain-name", "value": "example.com"}, "email-addr": {"type": "email-addr", "value": "a@example.com"},
    "autonomous-system": {"type": "autonomous-system", "number": 1}, "user-account": {"type": "user-account", "user_id": "u"},
    "software": {"type": "software", "name": "s"}, "process": {"type": "process", "pid": 1}, "url": {"type": "url", "value": "http://x"},
    "mutex": {"type": "mutex", "name": "m"}, "email-message": {"type": "email-message", "is_multipart": False},
}


def norm_nref(j, cid=None):
    """Only STIX 2.0 object references INSIDE an extension or an embedded object of a container member that are dangling
    or point to a type the property does not allow: redirected to a member of an allowed type (added when none exists)."""
    sp = _spec()
    reg = sp["registries"]["2.0"]

    def repair(cont):
        cont = copy.deepcopy(cont)

        def target(vt):
            for k, m in cont.items():
                if isinstance(m, dict) and (not vt or m.get("type") in vt):
                    return k
            t = next((x for x in (vt or ["ipv4-addr"]) if x in MINIMAL_SCO), None)
            if t is None:
                return None
            key = "r%d" % len(cont)
            cont[key] = dict(MINIMAL_SCO[t])
            return key

        def fix(vt, v):
            m = cont.get(v) if isinstance(v, str) else None
            if isinstance(m, dict) and (not vt or m.get("type") in vt):
                return v
            t = target(vt)
            return v if t is None else t

        def go(ccid, o, top):
            c = sp["classes"].get(ccid)
            if c is None or not isinstance(o, dict):
                return o
            kinds = {s["name"]: s["kind"] for s in c["slots"]}
            out = {}
            for k, v in o.items():
                kd = kinds.get(k)
                t = kd["k"] if kd else None
                if t == "objref" and not top:
                    v = fix(kd.get("valid_types"), v)
                elif t == "list" and kd["of"]["k"] == "objref" and not top and isinstance(v, list):
                    v = [fix(kd["of"].get("valid_types"), e) for e in v]
                elif t == "embedded":
                    v = go(kd["cls"], v, False)
                elif (t == "listof" or (t == "list" and kd["of"]["k"] == "embedded")) and isinstance(v, list):
                    cls = kd["cls"] if t == "listof" else kd["of"]["cls"]
                    v = [go(cls, e, False) for e in v]
                elif t == "extensions" and isinstance(v, dict):
                    v = {n: (go(reg["extensions"][n], e, False) if n in reg["extensions"] else e) for n, e in v.items()}
                out[k] = v
            return out
        for key in list(cont):
            m = cont[key]
            if isinstance(m, dict) and m.get("type") in reg["observables"]:
                cont[key] = go(reg["observables"][m["type"]], m, True)
        return cont

    def obj(c, o):
        if c["name"] == "ObservedData" and c["ver"] == "2.0" and isinstance(o.get("objects"), dict):
            return dict(o, objects=repair(o["objects"]))
        return o
    return walk(cid, j, on_obj=obj)


NORMALISERS = [(F_NREF, norm_nref), (F_B64, norm_b64), (F_DICTV, norm_dictv), (F_MODCR, norm_modcr),
               (F_MD20, norm_md20), (F_SOCK, norm_sock), (F_UUID, norm_uuid), (F_CONF, norm_conf), (F_NL, norm_nl), (F_MD6, norm_md6), (F_EXT0, norm_ext0),
               (F_TOP, norm_top)]
NEEDS_CID = (norm_top, norm_md20, norm_sock, norm_b64, norm_dictv, norm_modcr, norm_nref)


def classify_invalid(items, pats):
    """items: list of (cid, emitted json).  For each, the list of finding ids whose repair of the output
    (alone, or all together) makes it valid; [] when no combination does."""
    jobs, index = [], []
    for n, (cid, j) in enumerate(items):
        alts = []
        for fid, f in NORMALISERS:
            k = f(j, cid) if f in NEEDS_CID else f(j)
            if k != j:
                alts.append(([fid], k))
        if len(alts) > 1:
            k = j
            for fid, f in NORMALISERS:
                k = f(k, cid) if f in NEEDS_CID else f(k)
            alts.append(([a[0][0] for a in alts], k))
        for fids, k in alts:
            jobs.append((cid, k))
            index.append((n, fids))
    res = sc.spec_valid_lines(jobs, pats, tag="c02n") if jobs else []
    out = [[] for _ in items]
    for (n, fids), r in zip(index, res):
        if r == "true" and not out[n]:
            out[n] = fids
    return out


# ---------------------------------------------------------------------------
# refinement failures -> boundary inputs

REFINE_HEADER = ("From Coq Require Import List String.\n"
                 "From V Require Import Base.UString Model.SchemaTypes Spec.SchemaRefine Gen.Tables Gen.SpecTables.\n"
                 "Import ListNotations. Open Scope string_scope.\n")


def refine_failures():
    line = sc.sharded_eval("c02r", REFINE_HEADER, ["show_failures (refine_failures lib spec)"])[0]
    return [tuple(common.ustr_unescape(x) for x in f.split("|")) for f in line.split(";") if f]


COVER_HEADER = ("From Coq Require Import List String.\n"
                "From V Require Import Base.UString Model.SchemaTypes Gen.Tables Proofs.SchemaC02 Proofs.SchemaCovC02.\n"
                "Import ListNotations. Open Scope string_scope.\n"
                "Definition names (l : list ustring) : string := fold_right (fun c acc => append (show_ustr c) (append \" \" acc)) EmptyString l.\n")


def coverage_of_theorem():
    """How many classes of the regenerated tables the partial theorems cover (kernel-computed lists)."""
    lines = sc.sharded_eval("c02c", COVER_HEADER, [
        "append (show_nat (List.length lib_covered)) (append \"|\" (append (show_nat (List.length lib_covered2)) "
        "(append \"|\" (show_nat (List.length (wclasses lib))))))",
        "names lib_uncovered2"])
    a, b, n = (int(x) for x in lines[0].split("|"))
    return {"classes": n, "covered_by_strict_sound_partial": a, "covered_by_strict_sound_partial_wide": b,
            "not_covered": common.ustr_unescape(lines[1]).split()}


def _slot(table, cid, name):
    c = table["classes"].get(cid)
    if not c:
        return None
    for s in c["slots"]:
        if s["name"] == name:
            return s
    return None


def boundary_values(lib_kind, spec_kind, gen):
    """Values the library's rule may let through and the specification's rule refuses."""
    out = []
    lk, sk = lib_kind or {}, spec_kind or {}
    if sk.get("k") in ("int", "float") and lk.get("k") == sk.get("k"):
        step = 1 if sk["k"] == "int" else 0.5
        if sk.get("max") is not None:
            out += [sk["max"] + step, sk["max"] + 50 * step]
        if sk.get("min") is not None:
            out += [sk["min"] - step, sk["min"] - 50 * step]
        if lk.get("max") is not None:
            out.append(lk["max"])
        if lk.get("min") is not None:
            out.append(lk["min"])
    elif lk.get("k") == "enum" or sk.get("k") == "enum":
        out += [v for v in lk.get("allowed", []) if v not in sk.get("allowed", [])] + ["not-in-vocabulary"]
    elif lk.get("k") == "list" and sk.get("k") == "list":
        return [[v] for v in boundary_values(lk["of"], sk["of"], gen)]
    if lk.get("k") == "ref" and sk.get("k") == "ref":
        for white in (True, False):
            try:
                out.append(gen.ref_type(dict(sk, white=not sk["white"])) + "--" + gen.uuid())
            except (IndexError, KeyError):
                pass
    if lk.get("k") == "hashes":
        out += [{n: stixgen.HASH_VALUES.get(n, "00")} for n in lk.get("names", []) if n not in sk.get("names", [])]
    if lk.get("k") == "time":
        out += ["2016-01-01T00:00:00Z", "2016-01-01T00:00:00.5Z", "2016-01-01T00:00:00.123456Z"]
    out += ["", "x", 0, -1, 2 ** 40, 1.5, True, "2016-01-01T00:00:00Z", ["x"], {"abc": 1}]
    return out


def boundary_cases(failures, live, g, rng, per_failure=12):
    """For every named failure of the refinement, inputs around the slot on otherwise valid objects."""
    spec = g.spec
    cases = []
    # bases: generated objects of the class that the implementation ACCEPTS as they are (the generator is only
    # "mostly valid"; a corruption of a base that is refused for another reason explains nothing)
    cids = []
    for f in failures:
        if len(f) > 1 and f[1] in g.classes and f[1] not in cids:
            cids.append(f[1])
    cand = [(cid, g.obj(cid, 0, {"safe": True}, optional_p=p)) for cid in cids for p in (0.0, 0.4, 0.9, 0.0, 0.2, 0.6, 0.0, 0.3)]
    lines, _ = sc.run_impl_cases([{"op": "construct", "cid": cid, "data": o, "allow": False, "interop": False, "meta": {}}
                                  for cid, o in cand], want_json=False) if cand else ([], None)
    accepted = {}
    for (cid, o), l in zip(cand, lines):
        if l.startswith("OK "):
            accepted.setdefault(cid, []).append(o)
    for f in failures:
        kind, cid = f[0], f[1] if len(f) > 1 else None
        if cid not in g.classes:
            continue
        # accepted bases first, of different shapes first (a 2.0 marking-definition base may be one of the four fixed
        # TLP instances, which refuse any other `created`)
        groups = {}
        for o in accepted.get(cid, []):
            groups.setdefault((tuple(sorted(o)), str(o.get("definition_type"))), []).append(o)
        ordered = []
        while any(groups.values()):
            for k in list(groups):
                if groups[k]:
                    ordered.append(groups[k].pop(0))
        bases = (ordered + [o for c2, o in cand if c2 == cid])[:3]
        label = "|".join(f)
        routes = ["parse", "construct"] if sc.is_toplevel(g, cid) else ["construct"]

        def emit(x):
            cases.extend(sc.route_cases(g, cid, x, {"origin": "boundary", "ckind": label, "cid": cid, "failure": list(f)}, rng,
                                        routes[:1] if rng.random() < 0.5 else routes[-1:]))
        if kind in ("kind", "unknown-slot"):
            name = f[2]
            ls, ss = _slot(live, cid, name), _slot(spec, cid, name)
            vals = boundary_values(ls and ls["kind"], ss and ss["kind"], g)
            if kind == "unknown-slot" and ls:
                try:
                    vals = [g.value(ls["kind"], 1, {"safe": True})] + vals
                except (ValueError, KeyError, IndexError):
                    pass
            for v in vals[:per_failure]:
                # on every base: a base may be refused for another reason (a TLP marking with a changed `created`)
                for b in bases:
                    x = dict(b)
                    x[name] = v
                    emit(x)
        elif kind == "required":
            name = f[2]
            for b in bases:
                x = dict(b)
                x.pop(name, None)
                emit(x)
        elif kind in ("constraint", "opaque", "header"):
            # a constraint stated by an audited override (they come first in the class's list) fails on every class
            # that has it when the tree lacks the rule: only the corruptions of that rule, on every base
            n_extra = len(spec["classes"][cid].get("extra_constraints", []))
            audited = kind == "constraint" and len(f) > 2 and f[2].isdigit() and int(f[2]) < n_extra
            for b in bases:
                for _, lab, x in stixgen.coconstraint_corruptions(g, cid, b):
                    if audited and not lab.startswith("modified-"):
                        continue
                    if audited and lab in ("modified-equals-created", "modified-submillisecond-before-created") and b is not bases[0]:
                        continue
                    emit(x)
    return cases


# ---------------------------------------------------------------------------

SPECIAL_CLASSES = ("NetworkTraffic", "Malware", "Location", "EmailMessage", "MarkingDefinition", "SocketExt", "ObservedData",
                   "Indicator", "Artifact", "File", "Process", "ExternalReference", "GranularMarking", "Sighting", "Campaign")


def special_constraint_cases(g, rng):
    """The class-specific co-constraint violations (TLP instance rules, end / is_active, family without name,
    coordinates, multipart, socket options, patterns, ordered timestamps ...) on one object of each such class, in strict
    mode, on every run -- the random choice of three corruptions per object reaches each of them only now and then."""
    cases = []
    for cid, c in g.classes.items():
        if c["name"] not in SPECIAL_CLASSES:
            continue
        o = g.obj(cid, 0, {"safe": True}, optional_p=0.3)
        routes = ["parse", "construct"] if sc.is_toplevel(g, cid) else ["construct"]
        for n, (_, lab, x) in enumerate(stixgen.coconstraint_corruptions(g, cid, o)):
            if lab.startswith("modified-") and lab != "modified-just-before-created":
                continue
            cases += sc.route_cases(g, cid, x, {"origin": "corrupt", "ckind": "co-constraint", "slot": lab, "cid": cid}, rng,
                                    [routes[n % len(routes)]])
    return cases


def dictionary_slot_cases(g, rng):
    """EVERY dictionary-kind property (dictionary, hashes) of EVERY class, at whatever depth the class sits (external
    reference, NTFS alternate data stream, PE section, extension ...): the empty dictionary, and keys just outside the
    length bounds of the property's specification version (2.0: 2 / 257, 2.1: 251); constructor route, plus parse for
    registered types."""
    cases = []
    for cid, c in g.classes.items():
        slots = [s for s in c["slots"] if s["kind"]["k"] in ("dict", "hashes")]
        if not slots:
            continue
        o = g.obj(cid, 0, {"safe": True}, optional_p=0.3)
        routes = ["construct", "parse"] if sc.is_toplevel(g, cid) else ["construct"]
        for s in slots:
            vals = [("empty-dictionary", {})]
            if s["kind"]["k"] == "dict":
                for n in ((2, 257) if s["kind"]["ver"] == "2.0" else (251, 257)):
                    vals.append(("dict-key-length-%d" % n, {"k" * n: "v"}))
            for i, (lab, v) in enumerate(vals):
                x = dict(o)
                x[s["name"]] = v
                cases += sc.route_cases(g, cid, x, {"origin": "corrupt", "ckind": lab, "slot": s["name"], "cid": cid}, rng,
                                        [routes[i % len(routes)]])
                if lab == "empty-dictionary" and len(routes) > 1:
                    cases += sc.route_cases(g, cid, x, {"origin": "corrupt", "ckind": lab, "slot": s["name"], "cid": cid}, rng, ["parse"])
    return cases


def selector_cases(g, rng):
    """Objects whose one granular marking selects up to ten of the object's OWN paths, of every shape present (top-level
    property, list element, property of an embedded object inside a list, dictionary key, nested): parse route."""
    cases = []
    for cid in g.classes:
        if not sc.is_toplevel(g, cid):
            continue
        x = stixgen.path_marked(g, cid, g.obj(cid, 0, {"safe": True}, optional_p=0.9))
        if x:
            cases += sc.route_cases(g, cid, x, {"origin": "valid", "ckind": "path-selectors", "cid": cid}, rng, ["parse"])
    return cases


def offset_cases(g, rng):
    """Ordered-timestamp rules fed with aware datetime OBJECTS of different UTC offsets through the constructors
    (Python-only values, judged by the oracle): wall-clock order and instant order disagree."""
    cases = []
    for cid in g.classes:
        if not stixgen.ordered_timestamp_pairs(g, cid):
            continue
        o = g.obj(cid, 0, {"safe": True}, optional_p=0.2)
        for lab, x in stixgen.offset_datetime_cases(g, cid, o):
            cases.append({"op": "construct", "cid": cid, "data": x, "allow": False, "interop": False, "py": True,
                          "meta": {"origin": "python-value", "ckind": lab.split(":")[0], "slot": lab.split(":")[1], "cid": cid}})
    return cases


E1 = "extension-definition--11111111-1111-4111-8111-111111111111"
E2 = "extension-definition--22222222-2222-4222-8222-222222222222"
EXT_TOPLEVEL = {E1: ["e1_rank", "e1_note"], E2: ["e2_rank"]}


def ext_histories():
    """Histories over two REGISTERED toplevel-property-extensions (the worker registers them in a process of its own):
    an object carrying both with their properties, then objects carrying one of them together with the OTHER one's
    property (must be refused in strict mode), in several orders."""
    def ident(exts, **props):
        d = _ident(extensions={e: {"extension_type": "toplevel-property-extension"} for e in exts})
        d.update(props)
        return d
    both = ident([E1, E2], e1_rank=1, e2_rank=2)
    only1_plus2 = ident([E1], e1_rank=1, e2_rank=2)
    only2_plus1 = ident([E2], e2_rank=2, e1_note="n")
    only1 = ident([E1], e1_rank=1)
    return [[both, only1_plus2, only2_plus1, only1], [only1_plus2, both, only1_plus2], [only1, only2_plus1, both, only2_plus1],
            [both, both, only1_plus2], [only1, only1_plus2]]


def ext_history_oracle(run):
    """Every strict success must emit only top-level properties that the class or an extension PRESENT in the object
    declares (an unregistered toplevel-property-extension vouches for anything; these two are registered)."""
    spec_names = {s["name"] for s in _spec()["classes"]["2.1/Identity"]["slots"]}
    hist = ext_histories()
    res = common.run_impl("schema_impl", [{"op": "ext-history", "steps": h} for h in hist], procs=1)
    n = 0
    for h, r in zip(hist, res):
        steps = r.get("steps", []) if isinstance(r, dict) else []
        for i, (d, st) in enumerate(zip(h, steps)):
            n += 1
            run.count({"op": "ext-history", "steps": h[:i + 1]}, nontrivial=True)
            if st.get("r") != "OK":
                continue
            ser = st["ser"]
            declared = set(spec_names)
            for e in (ser.get("extensions") or {}):
                declared |= set(EXT_TOPLEVEL.get(e, []))
            extra = sorted(k for k in ser if k not in declared)
            if extra:
                run.violations.append(Violation(
                    "strict parse (step %d of a history over two registered toplevel-property-extensions) emits top-level "
                    "propert%s %s that neither the class nor an extension present in the object declares: %s"
                    % (i, "y" if len(extra) == 1 else "ies", ", ".join(extra), json.dumps(ser)[:300]),
                    {"ext_history": h[:i + 1], "step": i, "extra": extra}))
    run.coverage["ext_history_steps"] = n


def size_cases(g, rng, per_class):
    """Legal shapes at unusual sizes (stixgen.size_variations): lists of 1..256 elements, strings of length 0 / 1 / 255 /
    256, dictionary keys of a bound length, dictionary values nested up to 64 deep."""
    cases = []
    for cid in g.classes:
        o = g.obj(cid, 0, {"safe": True}, optional_p=0.5)
        routes = ["parse"] if sc.is_toplevel(g, cid) else ["construct"]
        for lab, slot, x in stixgen.size_variations(g, cid, o)[:per_class]:
            cases += sc.route_cases(g, cid, x, {"origin": "valid", "ckind": "size:" + lab, "slot": slot, "cid": cid}, rng, routes)
    return cases


def extension_type_cases(g, rng):
    """2.1 objects carrying an UNREGISTERED extension-definition entry of every extension_type, with and without an
    unknown top-level property, strict and allow_custom: only a toplevel-property-extension vouches for extra
    top-level properties."""
    cases = []
    for cid in ("2.1/Identity", "2.1/File", "2.1/Note", "2.1/Relationship"):
        base = g.obj(cid, 0, {"safe": True}, optional_p=0.0)
        base.pop("extensions", None)
        for et in ("property-extension", "toplevel-property-extension", "new-sdo", "new-sco", "new-sro", "x-property-extension", None):
            ent = {"rating": 3} if et is None else {"extension_type": et, "rating": 3}
            for extra in (True, False):
                x = dict(base)
                x["extensions"] = {"extension-definition--" + g.uuid(): ent}
                if extra:
                    x["rank"] = 5
                for route in (["parse"], ["construct-allow"] if extra else []):
                    if route:
                        cases += sc.route_cases(g, cid, x, {"origin": "corrupt", "ckind": "extension-type", "slot": str(et), "cid": cid}, rng, route)
    return cases


def trivial(case, impl_line):
    return impl_line in ("ERR ExtraPropertiesError", "ERR ParseError")


def oracle(run, cases, impl, extra, pats):
    """The property on the implementation: every strict success serializes to spec-valid JSON."""
    idx = [i for i, c in enumerate(cases) if not c.get("allow") and extra[i] is not None and impl[i].startswith("OK ")]
    items = [(extra[i]["cls"], extra[i]["ser"]) for i in idx]
    verdict = sc.spec_valid_lines(items, pats, tag="c02v") if items else []
    bad = [(i, it) for i, it, v in zip(idx, items, verdict) if v != "true"]
    run.coverage["oracle_strict_successes"] = len(idx)
    run.coverage["oracle_invalid_emissions"] = len(bad)
    found = {}
    if bad:
        why = sc.spec_valid_lines([it for _, it in bad], pats, tag="c02w", explain=True)
        cls = classify_invalid([it for _, it in bad], pats)
        for (i, it), w, fids in zip(bad, why, cls):
            c = cases[i]
            rep = {"case": {k: c[k] for k in ("op", "cid", "data", "allow", "interop", "py", "seq", "form", "version") if k in c}, "emitted": it[1],
                   "class": it[0], "validator": w, "meta": c.get("meta")}
            if c.get("seq") is not None:
                # the calls that ran before it in the same process are part of the input
                sq = [x for x in cases if x.get("seq") == c["seq"]]
                rep["sequence"] = [{k: x[k] for k in ("op", "cid", "data", "allow", "interop", "seq", "form") if k in x} for x in sq]
                rep["step"] = c["meta"].get("step")
            what = "%s %s strict success emits JSON the specification refuses (%s): %s" % (
                c["op"], it[0], w.strip(), json.dumps(it[1])[:300])
            if fids:
                for fid in fids:
                    run.violations.append(Violation(what, dict(rep, finding=fid), finding=fid))
                    found.setdefault(i, []).append(fid)
            else:
                run.violations.append(Violation(what, rep))
                found.setdefault(i, []).append(None)
    return found


def check(run):
    quick = run.tier == "quick"
    run.coverage["rule"] = (
        "objects of every class of both versions generated from the FROZEN spec tables (optional-property subsets, boundary "
        "numbers, all vocabularies, reference targets, sub-second timestamps, granular markings), each with single-point "
        "corruptions (required dropped, wrong kind, boolean for integer, out of range / vocabulary, disallowed reference type, "
        "malformed id / timestamp / hex / hash / dictionary / base64 text, null or empty list inside a dictionary value, unknown "
        "property, violated co-constraint incl. modified before created), through parse() and the class "
        "constructors, strict (and a share in allow_custom / interoperability mode), plus the witnesses of the defect variants "
        "and the boundary inputs of every failing refinement slot; non-trivial = not rejected as unknown property / unknown type")
    gen_ok = sc.translate_and_build(run, "Props/C02.v")
    variants = sc.detect_variants(run)
    g, cases = sc.gen_cases(run.rng, per_class=2 if quick else 12, corrupt_per_obj=5 if quick else 8,
                            allow_share=0.15)
    cases += witness_cases()
    cases += special_constraint_cases(g, run.rng)
    cases += extension_type_cases(g, run.rng)
    cases += dictionary_slot_cases(g, run.rng)
    cases += selector_cases(g, run.rng)
    cases += offset_cases(g, run.rng)
    cases += size_cases(g, run.rng, 1 if quick else 3)
    cases += sc.flag_sequences(g, run.rng, 8 if quick else 40)
    cases += sc.argument_forms(cases, run.rng)
    # the kernel-evaluated refinement of the regenerated tables against the frozen spec
    failures = []
    live = None
    if gen_ok:
        try:
            failures = refine_failures()
            live = tr_tables.dump(common.REPO, common.PY)
        except RuntimeError as e:
            run.broken.append(Broken("obligation", "refine_failures lib spec (evaluation)", {"error": str(e)[-1200:]}))
    run.coverage["refinement_failures"] = ["|".join(f) for f in failures]
    if gen_ok:
        try:
            run.coverage["theorem_class_coverage"] = coverage_of_theorem()
        except RuntimeError as e:
            run.notes.append("coverage lists could not be evaluated: %s" % str(e)[-300:])
    bcases = boundary_cases(failures, live, g, run.rng) if failures and live else []
    cases += bcases
    pats = sc.pattern_lists(cases)
    impl, extra = sc.run_impl_cases(cases)
    hist = {}
    for c, r in zip(cases, impl):
        run.count({k: c[k] for k in ("op", "cid", "data", "allow", "interop", "py", "seq", "form", "version") if k in c}, nontrivial=not trivial(c, r))
        key = "%s/%s/%s" % (c["meta"]["origin"], c["meta"].get("ckind", "-").split(":")[0].split("|")[0], r.split(" ")[0] if not r.startswith("ERR") else r[4:])
        hist[key] = hist.get(key, 0) + 1
    run.coverage["distribution"] = dict(sorted(hist.items()))
    for i in (0, len(cases) // 3, len(cases) // 2):
        run.sample({"case": {k: cases[i][k] for k in ("op", "cid", "allow")}, "data": json.dumps(cases[i]["data"])[:300], "impl": impl[i][:200]})
    # correspondence
    if gen_ok:
        try:
            model = sc.run_model_cases(cases, variants, pats, tag="c02m")
            sc.correspond(run, cases, model, impl)
        except RuntimeError as e:
            run.broken.append(Broken("correspondence", "model evaluation failed", {"error": str(e)[-1500:]}))
    # oracle on every strict success (a failure of the evaluation itself is reported, it never ends the check)
    try:
        found = oracle(run, cases, impl, extra, pats)
    except RuntimeError as e:
        found = {}
        run.broken.append(Broken("oracle", "evaluation of the specification validator failed", {"error": str(e)[-1500:]}))
    try:
        ext_history_oracle(run)
    except RuntimeError as e:
        run.broken.append(Broken("oracle", "registered-extension history did not run", {"error": str(e)[-800:]}))
    # every failing refinement slot must be explained by a failing input around it
    explained = set()
    for i, fids in found.items():
        f = cases[i]["meta"].get("failure")
        if f:
            explained.add(tuple(f))
    for f in failures:
        if tuple(f) not in explained:
            run.broken.append(Broken("obligation", "world_refines lib spec: " + "|".join(f),
                                     {"note": "the regenerated class table is not contained in the frozen specification table at "
                                              "this place; no failing input was found around it"}))
    run.coverage["trusted_base"] += [
        "translators/tr_tables.py + dump_tables.py (live classes of stix2.v20/v21 -> Gen/Tables.v; fail-closed)",
        "frozen specification tables /verif/spec/stix_tables.json (+ audited_overrides.json) -> Gen/SpecTables.v; "
        "Spec/StixValid.v (identifier, timestamp, dictionary-key, hex, no-null/empty rules, strict base64, dictionary "
        "values, created <= modified audited; vocabularies, reference targets, other co-constraints seeded from the pinned tree)",
        "stix2patterns validator as the pattern oracle; Model/Markings.v (C08) for granular-marking selector validation",
        "uuid4 / uuid5 / the constructor clock replaced by sentinels in the implementation worker",
    ]
    run.assumptions += [
        "inputs are JSON-like values (dict/list/str/int/float/bool/None); Python-only argument values are out of the model",
        "inputs the model marks UNMODELLED (repr of containers used as strings, float() of strings, json text given where a "
        "dict is expected) are checked by the oracle only",
    ]


def replay(payload):
    r = payload["replay"]
    if r.get("ext_history"):
        res = common.run_impl("schema_impl", [{"op": "ext-history", "steps": r["ext_history"]}], procs=1)[0]
        steps = res.get("steps", []) if isinstance(res, dict) else []
        for i, st in enumerate(steps):
            print("  step %d -> %s" % (i, st.get("r")))
        last = steps[-1] if steps else {}
        if last.get("r") == "OK":
            names = {s["name"] for s in _spec()["classes"]["2.1/Identity"]["slots"]}
            for e in (last["ser"].get("extensions") or {}):
                names |= set(EXT_TOPLEVEL.get(e, []))
            extra = sorted(k for k in last["ser"] if k not in names)
            if extra:
                print("emitted: %s" % json.dumps(last["ser"]))
                print("top-level properties nothing present declares: %s" % ", ".join(extra))
                print("VIOLATION property=C02 replay=(given)")
                return 1
        print("no violation on this history")
        return 0
    c = r["case"]
    if r.get("sequence"):
        ls, ex = sc.run_impl_cases([dict(x, meta={}) for x in r["sequence"]])
        for x, l in zip(r["sequence"], ls):
            print("  in sequence: %s %s -> %s" % (x["op"], x.get("cid"), l[:100]))
        lines, extra = [ls[r.get("step", len(ls) - 1)]], [ex[r.get("step", len(ls) - 1)]]
    else:
        lines, extra = sc.run_impl_cases([dict(c, meta={})])
    print("replay %s %s allow=%s: %s" % (c["op"], c.get("cid"), c.get("allow"), lines[0][:400]))
    if c.get("allow") or extra[0] is None or not lines[0].startswith("OK "):
        print("no violation on this input (not a strict success)")
        return 0
    item = (extra[0]["cls"], extra[0]["ser"])
    v = sc.spec_valid_lines([item])[0]
    if v == "true":
        print("emitted JSON is valid per the frozen specification: no violation on this input")
        return 0
    w = sc.spec_valid_lines([item], explain=True)[0]
    print("emitted: %s" % json.dumps(item[1]))
    print("specification validator: %s" % w)
    print("VIOLATION property=C02 replay=(given)")
    return 1
